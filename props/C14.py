"""C14 — observers are pure; copy / deepcopy / pickle faithful."""
AREAS = ["varint", "single", "msg", "msgattr"]
LEVEL = "other"
EXPLANATION = (
    "dump, __len__, __bytes__, SerializeToString carry the frame postcondition 'observer-frame': the effective value of "
    "every field, the oneof selection, _unknown_fields and _serialized_on_wire are unchanged (only default "
    "materialisation is allowed) - proved for a symbolic class. to_dict / to_json / to_pydict / == / repr / copy / "
    "deepcopy / pickle are decided by the bounded stand-in only.")
ASSUMED = ["to_dict/to_json/to_pydict/__eq__/__repr__/copy/pickle: bounded stand-in only"]
from pyvc.check import standin_bounded
from pyvc.check import external_bounded
BOUNDED = [standin_bounded("C14"),
           external_bounded("deep-schema:C14", "standin.deep", ["C14", "--n", "150"], ["C14", "--n", "800"],
                            "nested schema (containers of oneof-carrying / field-less messages, two-level lazy parents, float maps, Duration JSON strings); observation-based oracle")]
