"""Contracts for the Message encode side: dump / __len__ / __bytes__ / SerializeToString (C09; C06 C08 C01 C02).

The message class is symbolic (pyvc.models_msg): WF() constrains the field table, TY() says every field holds an
in-range value.  WIRE() = EMITC(field 0) ++ ... ++ EMITC(field NF-1) ++ unknown fields, over the entry state."""
from pyvc.contracts import FN, LOOP, LEMMA
from pyvc.models_wire import WirePlugin
from pyvc.models_msg import MsgPlugin
from contracts import varint as _v, single as _s

DEPENDS = ['varint', 'single']
SPEC_MODULES = ("wire", "msg")
PLUGINS = [MsgPlugin(), WirePlugin()]

MSG = {"self": "model:msg"}
PRE = [("well-formed-class", "WF()"), ("in-range-values", "TY()")]
FRAME = ("observer-frame", "forall(0, NF, lambda jq: same(VAL(jq), old(VAL(jq)))) and GCARR() == old(GCARR())"
                           " and self._unknown_fields == old(self._unknown_fields)"
                           " and self._serialized_on_wire == old(self._serialized_on_wire)")

LEMMAS = _s.LEMMAS + [
    LEMMA("ALLTY_NTH", {"t": "str", "w": "str", "xs": "objseq", "k": "int", "q": "int"},
          ["ALLTY(t, w, xs, k)", "0 <= q < k"], "TYV(t, w, xs[q]) and not is_none(xs[q])",
          measure="k", ih=[("q < k - 1", {"k": "k - 1"})], props=["C09", "C01", "C06"]),
    LEMMA("VARINT_NONEMPTY", {"v": "int"}, ["v >= 0"], "len(VARINT(v)) >= 1", props=["C09"]),
]


def _loops(acc, lenmode):
    """invariants of the field loop and its three inner loops; acc(x) wraps a byte expression"""
    W = (lambda e: f"len({e})") if lenmode else (lambda e: e)
    if lenmode:
        outer = ("size", "size == len(old(WIREUPTO(fi)))")
        l2 = ("items", "size == SL + len(ITEMS(F_number(fi), F_ptype(fi), F_wraps(fi), XS(value), ji))")
        l3 = ("entries", "size == SL + len(ENTRIES(F_number(fi), F_mapk(fi), F_mapv(fi), KS(value), VS(value), ji))")
        init = {"SL": "size"}
    else:
        outer = ("written", "stream.data == old(stream.data) + PFX + old(WIREUPTO(fi)) and stream.pos == len(stream.data)")
        l2 = ("items", "stream.data == SL + ITEMS(F_number(fi), F_ptype(fi), F_wraps(fi), XS(value), ji) and stream.pos == len(stream.data)")
        l3 = ("entries", "stream.data == SL + ENTRIES(F_number(fi), F_mapk(fi), F_mapv(fi), KS(value), VS(value), ji) and stream.pos == len(stream.data)")
        init = {"SL": "stream.data"}
    return {
        0: LOOP(index="fi", inv=[FRAME, outer]),
        1: LOOP(index="ji", inv=[("buf", "buf == PACKED(F_ptype(fi), XS(value), ji) and ji <= CN(value)")]),
        2: LOOP(index="ji", inv=[l2, ("bound", "ji <= CN(value)")], ghost_init=init),
        3: LOOP(index="ji", inv=[l3, ("bound", "ji <= CN(value)")], ghost_init=init),
    }


ELEM_USE = [("ALLTY_NTH", {"t": "F_ptype(fi)", "w": "F_wraps(fi)", "xs": "XS(value)", "k": "CN(value)", "q": "ji"}),
            ("ALLTY_NTH", {"t": "F_mapk(fi)", "w": "''", "xs": "KS(value)", "k": "CN(value)", "q": "ji"}),
            ("ALLTY_NTH", {"t": "F_mapv(fi)", "w": "''", "xs": "VS(value)", "k": "CN(value)", "q": "ji"})]

INST = ["fi", "fi - 1"]

CONTRACTS = [
    FN("betterproto.Message._include_default_value_for_oneof", types={**MSG, "field_name": "any", "meta": "any"}, inline=True),
    FN("betterproto.Message.dump",
       types={**MSG, "stream": "stream", "delimit": "int"}, returns="none", modifies=["self", "stream"],
       requires=PRE + [("append-position", "stream.pos == len(stream.data)")],
       ghost={"PFX": "VARINT(len(WIRE())) if delimit == -1 else b''"},
       ensures=[("C09-dump-writes-the-encoding", "stream.data == old(stream.data) + PFX + old(WIRE())"), FRAME],
       top=["C09-dump-writes-the-encoding"],
       loops=_loops(None, False), use=ELEM_USE, inst_terms=INST,
       props=["C09", "C06", "C08", "C10", "C01", "C02"]),
    FN("betterproto.Message.__len__",
       types={**MSG}, returns="int", modifies=["self"],
       requires=PRE,
       ensures=[("C09-len-is-encoded-size", "result == len(old(WIRE()))"), FRAME],
       top=["C09-len-is-encoded-size"],
       loops=_loops(None, True), use=ELEM_USE, inst_terms=INST,
       props=["C09", "C08", "C10"]),
    FN("betterproto.Message.__bytes__",
       types={**MSG}, returns="bytes", modifies=["self"],
       requires=PRE,
       ensures=[("C09-bytes-is-the-encoding", "result == old(WIRE())"), FRAME],
       top=["C09-bytes-is-the-encoding"],
       props=["C09", "C01", "C02"]),
    FN("betterproto.Message.SerializeToString",
       types={**MSG}, returns="bytes", modifies=["self"],
       requires=PRE,
       ensures=[("C09-same-as-bytes", "result == old(WIRE())"), FRAME],
       top=["C09-same-as-bytes"],
       props=["C09"]),
]
EXTRA_CONTRACTS = _s.CONTRACTS + _v.CONTRACTS
