"""Contract for get_type_reference (C13): the dispatch in front of the reference_* builders, per package shape and per
kind of referenced type (user type in sibling / descendant / ancestor / cousin position, well-known wrapper, Timestamp /
Duration, other google.protobuf type), with unwrap on and off."""
from pyvc.contracts import FN, LOOP, LEMMA
from pyvc.models_imports import ImportsPlugin, TypeRefPlugin
from pyvc.models_names import NamesPlugin
from contracts import imports as _i

DEPENDS = ["names", "imports"]
SPEC_MODULES = ("wire", "names")
PLUGINS = [TypeRefPlugin(), ImportsPlugin(), NamesPlugin()]
LEMMAS = []
M = "betterproto.compile.importing."
T = {"package": "model:dotted", "imports": "model:strset", "source_type": "model:srctype", "typing_compiler": "model:tcopaque",
     "unwrap": "bool", "pydantic": "bool"}


def _user(family, label, shape):
    return (label, dict(shape, family=family))


SIB = [_user("sibling", f"sibling{n}", _i._shape(n, n, n)) for n in range(0, 3)]
DESC = [_user("user", l, s) for l, s in _i.DESC if len(s["py_package"]) <= 3]
ANC = [_user("user", l, s) for l, s in _i.ANC if len(s["current_package"]) <= 3 and len(s["py_package"]) >= 1]
COUSIN = [_user("user", l, s) for l, s in _i.COUSIN if len(s["current_package"]) <= 2 and len(s["py_package"]) <= 2]
WRAPPERS = {"DoubleValue": "float", "FloatValue": "float", "Int32Value": "int", "Int64Value": "int", "UInt32Value": "int", "UInt64Value": "int",
            "BoolValue": "bool", "StringValue": "str", "BytesValue": "bytes"}
CUR2 = ["c0", "c1"]
WKT = [(f"wrapper-{w}", {"family": "wrapper:" + py, "current_package": CUR2, "literal": ".google.protobuf." + w}) for w, py in WRAPPERS.items()]
WKT += [("duration", {"family": "duration", "current_package": CUR2, "literal": ".google.protobuf.Duration"}),
        ("timestamp", {"family": "timestamp", "current_package": CUR2, "literal": ".google.protobuf.Timestamp"}),
        ("empty", {"family": "google", "current_package": CUR2, "literal": ".google.protobuf.Empty"}),
        ("struct-from-root", {"family": "google", "current_package": [], "literal": ".google.protobuf.Struct"})]
NOT_GOOGLE = ("user-packages-are-not-the-bundled-ones",
              "implies(FAMILY() == 'user' or FAMILY() == 'sibling', not (CUR_PKG() == ('google', 'protobuf')) and not (SRC_PKG() == ('google', 'protobuf'))"
              " and not (SRC_PKG()[0:1] == ('betterproto',)))")
CUR_NOT_GOOGLE = ("not-compiling-google-protobuf-itself", "not (CUR_PKG() == ('google', 'protobuf'))")
UNQ = "(unwrap)"
GOOGLE_ABS = "(('betterproto', 'lib', 'pydantic', 'google', 'protobuf') if pydantic else ('betterproto', 'lib', 'google', 'protobuf'))"
USER = ("ADDED_COUNT(imports) == 1 and LINE_RESOLVES_TO_MODULE(ADDED_LINE(imports), CUR_PKG(), SRC_PKG())"
        " and REF_IS_ALIAS_DOT_TYPE(result, ADDED_LINE(imports), PYCLS_OF(SRC_TYPE_ATOM())) and ALIAS_IS_IDENTIFIER(ADDED_LINE(imports))")
_PYD = "('betterproto', 'lib', 'pydantic', 'google', 'protobuf')"
_STD = "('betterproto', 'lib', 'google', 'protobuf')"
GOOGLE = ("ADDED_COUNT(imports) == 1 and ALIAS_IS_IDENTIFIER(ADDED_LINE(imports))"
          f" and (LINE_RESOLVES_TO_MODULE(ADDED_LINE(imports), {_PYD}, {_PYD}) if pydantic else LINE_RESOLVES_TO_MODULE(ADDED_LINE(imports), {_STD}, {_STD}))"
          " and REF_IS_ALIAS_DOT_TYPE(result, ADDED_LINE(imports), PYCLS_OF(SRC_TYPE_ATOM()))")

CONTRACTS = [
    FN(M + "get_type_reference", types=T, returns="str", variants=SIB + DESC + ANC + COUSIN + WKT,
       requires=[NOT_GOOGLE, CUR_NOT_GOOGLE],
       ensures=[("C13-same-package-reference-without-import",
                 "(ADDED_COUNT(imports) == 0 and REF_IS_QUOTED_TYPE(result, PYCLS_OF(SRC_TYPE_ATOM()))) if FAMILY() == 'sibling' else True"),
                ("C13-user-type-resolves-to-its-package", f"({USER}) if FAMILY() == 'user' else True"),
                ("C13-wrapper-unwrapped-to-optional-scalar",
                 "(result == TCOPT(FAMILY()[8:]) and ADDED_COUNT(imports) == 0) if (FAMILY()[0:8] == 'wrapper:' and unwrap) else True"),
                ("C13-duration-timestamp-unwrapped", "(result == 'timedelta' and ADDED_COUNT(imports) == 0) if (FAMILY() == 'duration' and unwrap) else"
                                                     " ((result == 'datetime' and ADDED_COUNT(imports) == 0) if (FAMILY() == 'timestamp' and unwrap) else True)"),
                ("C13-well-known-types-resolve-to-the-bundled-package",
                 f"({GOOGLE}) if (FAMILY() == 'google' or ((FAMILY()[0:8] == 'wrapper:' or FAMILY() == 'duration' or FAMILY() == 'timestamp') and not unwrap)) else True")],
       top=["C13-user-type-resolves-to-its-package", "C13-well-known-types-resolve-to-the-bundled-package", "C13-duration-timestamp-unwrapped"],
       props=["C13"]),
]
EXTRA_CONTRACTS = _i.CONTRACTS
