"""C13 — cross-package type references resolve to the right class."""
AREAS = ["names", "imports", "typeref"]
LEVEL = "other"
EXPLANATION = (
    "reference_sibling / _descendent / _ancestor / _cousin / _absolute are verified for SYMBOLIC package and type names "
    "(identifier atoms) and every package shape with current and target depth <= 3 and every common-prefix length "
    "(enumerated, 39 shapes): the import line they add, interpreted with Python's relative-import rule from the current "
    "package, is exactly the target package module (the class itself for the root-ancestor form), the returned forward "
    "reference is '\"alias.Type\"' with the alias that line binds, and the alias is an identifier. "
    "The dispatch in front of them, get_type_reference, is verified per kind of referenced type x unwrap on/off: a user type "
    "in sibling / descendant / ancestor / cousin position (shapes up to depth 3) yields an import that resolves to ITS "
    "package and a reference through the bound alias (the builders are executed in place); a well-known wrapper / "
    "Timestamp / Duration is unwrapped to Optional[scalar] / datetime / timedelta without an import when unwrap is on, and "
    "resolves to the bundled betterproto.lib[.pydantic].google.protobuf package otherwise (also Empty, Struct). "
    "Not covered deductively: the package / type split of parse_source_type_name (by capitalisation: assumed for the "
    "shapes used, its failures for lower-case type names are recorded known findings), coexistence of many references in "
    "one module (alias collisions), emission of the imports by the template and lazy resolution by get_type_hints: "
    "bounded end-to-end stand-in with the real plugin.")
ASSUMED = ["A-IMPORT (relative import semantics)", "shapes bounded: depth <= 3 (names unbounded)",
           "C-PARSE-SOURCE, C-PYCLASS, C-WRAPPER-DEFAULTS (see evidence); alias collisions, template emission: bounded end-to-end stand-in"]
from pyvc.check import external_bounded
BOUNDED = [external_bounded("plugin-end-to-end:C13", "standin_plugin.run", ["C13", "--n", "8"], ["C13", "--n", "60"],
                            "real plugin via grpc_tools.protoc on generated multi-package schemas: all package-pair shapes of depth <= 3 (complete when n >= 60), import and resolve")]
