"""Trusted model of the CPython conversions used by the JSON scalar helpers (C04 / C05):
str(int) / int(str) (A-DECSTR), base64 (A-BASE64), float() and the three non-finite floats (A-FLOAT-SPECIALS).

The float model is the opaque-id model of pyvc.sym (PFloat(id)); ids 3 / 4 / 7 are +inf / NaN / -inf.  `x == inf`
holds exactly for the id 3, `math.isnan(x)` exactly for the id 4, NaN is unequal to everything."""
import ast
import itertools
import z3

from .sym import SV, PyObj, sv_bool, sv_int, sv_str, sv_bytes, concrete_str, to_obj, float_special_id, BytesS, StrS, IntS, BoolS
from .exec import Unsupported, Raised
from .speclib import obj_int


def _intlike(t):
    return z3.Or(PyObj.is_PInt(t), PyObj.is_PBool(t), PyObj.is_PEnum(t))


_ctr = itertools.count()


class JsonPlugin:
    def _fn(self, ex, name):
        f, pk, rk = ex.eng.spec.declare(name)
        ex.eng.spec.define(ex, name)
        return f

    def call_builtin(self, ex, name, pos, kw, st, node):
        if name == "str" and len(pos) == 1 and not kw:
            v = pos[0]
            ex.assumption("A-DECSTR")
            DECSTR = self._fn(ex, "DECSTR")
            if v.kind == "int":
                return [(st, sv_str(DECSTR(v.t)))]
            if v.kind == "str":
                return [(st, v)]
            if v.kind == "obj":
                # str() of a plain int is its decimal numeral; of a str itself; anything else (bool, Enum, float,
                # bytes ...) is left unconstrained
                other = z3.String(f"str!{next(_ctr)}")
                return [(st, sv_str(z3.If(PyObj.is_PInt(v.t), DECSTR(PyObj.pint(v.t)),
                                          z3.If(PyObj.is_PStr(v.t), PyObj.pstr(v.t), other))))]
            raise Unsupported(f"str() of {v.kind}")
        if name == "int" and len(pos) == 1 and (pos[0].kind == "obj" or (pos[0].kind == "str" and concrete_str(pos[0].t) is None)):
            v = pos[0]
            ex.assumption("A-DECSTR")
            PARSEINT, ISNUM = self._fn(ex, "PARSEINT"), self._fn(ex, "ISNUMERAL")
            if v.kind == "str":
                bad, ok = st.clone(), st.clone()
                bad.assume(z3.Not(ISNUM(v.t)))
                ok.assume(ISNUM(v.t))
                return [(bad, Raised(SV("exc", "ValueError"))), (ok, sv_int(PARSEINT(v.t)))]
            t = v.t
            out = []
            bad = st.clone()
            bad.assume(z3.And(PyObj.is_PStr(t), z3.Not(ISNUM(PyObj.pstr(t)))))
            out.append((bad, Raised(SV("exc", "ValueError"))))
            bad2 = st.clone()
            bad2.assume(z3.Not(z3.Or(PyObj.is_PStr(t), _intlike(t), PyObj.is_PFloat(t))))
            out.append((bad2, Raised(SV("exc", "TypeError"))))
            ok = st.clone()
            ok.assume(z3.Or(z3.And(PyObj.is_PStr(t), ISNUM(PyObj.pstr(t))), _intlike(t)))
            out.append((ok, sv_int(z3.If(PyObj.is_PStr(t), PARSEINT(PyObj.pstr(t)), obj_int(t)))))
            # int(float): truncation, not modelled
            fl = st.clone()
            fl.assume(PyObj.is_PFloat(t))
            out.append((fl, sv_int(z3.Int(f"int_of_float!{next(_ctr)}"))))
            return out
        if name in ("base64.b64encode", "b64encode") and len(pos) == 1:
            ex.assumption("A-BASE64")
            v = pos[0]
            if v.kind == "obj":
                bad, ok = st.clone(), st.clone()
                bad.assume(z3.Not(PyObj.is_PBytes(v.t)))
                ok.assume(PyObj.is_PBytes(v.t))
                return [(bad, Raised(SV("exc", "TypeError"))), (ok, SV("b64", PyObj.pbytes(v.t)))]
            return [(st, SV("b64", ex.as_bytes(v, st)))]
        if name in ("base64.b64decode", "b64decode") and len(pos) == 1:
            ex.assumption("A-BASE64")
            UNB64, ISB64 = self._fn(ex, "UNB64"), self._fn(ex, "ISB64")
            v = pos[0]
            if v.kind == "str":
                s, isstr = v.t, z3.BoolVal(True)
            elif v.kind == "obj":
                s, isstr = PyObj.pstr(v.t), PyObj.is_PStr(v.t)
            else:
                raise Unsupported(f"b64decode of {v.kind}")
            out = []
            ty = st.clone()
            ty.assume(z3.Not(isstr))
            # bytes input is also accepted by CPython; not part of the JSON path -> left as "may raise or not"
            out.append((ty, Raised(SV("exc", "TypeError"))))
            bad = st.clone()
            bad.assume(z3.And(isstr, z3.Not(ISB64(s))))
            out.append((bad, Raised(SV("exc", "ValueError"))))   # binascii.Error is a ValueError
            ok = st.clone()
            ok.assume(z3.And(isstr, ISB64(s)))
            out.append((ok, sv_bytes(UNB64(s))))
            return out
        if name == "float" and len(pos) == 1:
            ex.assumption("A-FLOAT-SPECIALS")
            v = pos[0]
            if v.kind == "str" and concrete_str(v.t) is not None:
                s = concrete_str(v.t).strip().lower()
                if s in ("inf", "+inf", "infinity", "-inf", "-infinity", "nan"):
                    return [(st, SV("const", float(s)))]
                raise Unsupported("float() of a finite literal")
            if v.kind == "const" and isinstance(v.t, float):
                return [(st, v)]
            if v.kind in ("obj", "str", "int", "bool"):
                t = to_obj(v)
                FLOATOF = self._fn(ex, "FLOATOF")
                bad = st.clone()
                bad.assume(z3.Not(z3.Or(PyObj.is_PFloat(t), _intlike(t))))
                ok = st.clone()
                ok.assume(z3.Implies(PyObj.is_PFloat(t), FLOATOF(t) == PyObj.pfloat(t)))
                return [(bad, Raised(SV("exc", "ValueError"))), (bad, Raised(SV("exc", "TypeError"))),
                        (ok, SV("obj", PyObj.PFloat(FLOATOF(t))))]
            raise Unsupported(f"float() of {v.kind}")
        if name == "math.isnan" and len(pos) == 1:
            ex.assumption("A-FLOAT-SPECIALS")
            v = pos[0]
            if v.kind == "const" and isinstance(v.t, float):
                return [(st, sv_bool(v.t != v.t))]
            if v.kind == "obj":
                bad, ok = st.clone(), st.clone()
                bad.assume(z3.Not(z3.Or(PyObj.is_PFloat(v.t), _intlike(v.t))))
                ok.assume(z3.Or(PyObj.is_PFloat(v.t), _intlike(v.t)))
                return [(bad, Raised(SV("exc", "TypeError"))),
                        (ok, sv_bool(z3.And(PyObj.is_PFloat(v.t), PyObj.pfloat(v.t) == 4)))]
            raise Unsupported(f"math.isnan of {v.kind}")
        return None

    def builtin_value(self, ex, name):
        if name == "math.inf":
            return SV("const", float("inf"))
        if name == "math.nan":
            return SV("const", float("nan"))
        return None

    def attr_hook(self, ex, st, v, attr):
        if v.kind == "b64":
            return [(st, SV("func", ("method", v, attr)))]
        return None

    def call_method(self, ex, recv, name, pos, kw, st, node):
        if recv.kind == "b64" and name == "decode":
            enc = concrete_str(pos[0].t) if pos else "utf-8"
            if enc not in ("utf8", "utf-8", "ascii"):
                raise Unsupported("decode of base64 output with another codec")
            ex.assumption("A-BASE64")
            return [(st, sv_str(self._fn(ex, "B64")(recv.t)))]
        return None

    def obj_equal(self, ex, a, b, st):
        """== with a float constant (inf / -inf / nan) on one side"""
        for x, y in ((a, b), (b, a)):
            if y.kind == "const" and isinstance(y.t, float):
                fid = float_special_id(y.t)
                if fid is None:
                    raise Unsupported("comparison with a finite float literal")
                ex.assumption("A-FLOAT-SPECIALS")
                if x.kind == "const" and isinstance(x.t, float):
                    return z3.BoolVal(x.t == y.t)
                if fid == 4:
                    return z3.BoolVal(False)
                if x.kind != "obj":
                    return z3.BoolVal(False)           # ints / str / bytes are never equal to an infinity
                return z3.And(PyObj.is_PFloat(x.t), PyObj.pfloat(x.t) == fid)
        if a.kind == "obj" and b.kind == "obj":
            # NaN is unequal to itself
            x, y = a.t, b.t
            il = lambda t: _intlike(t)
            return z3.If(z3.And(il(x), il(y)), obj_int(x) == obj_int(y),
                         z3.And(x == y, z3.Not(z3.And(PyObj.is_PFloat(x), PyObj.pfloat(x) == 4))))
        return None


JSON_ASSUMPTIONS = {
    "A-DECSTR": "str(n) of a plain int is its decimal numeral DECSTR(n); int(s) is PARSEINT(s) where ISNUMERAL(s) and raises ValueError otherwise; int(str(n)) == n (assumed lemma AX_DECSTR_PARSE)",
    "A-BASE64": "b64encode(b).decode() is B64(b); b64decode(s) is UNB64(s) where ISB64(s) and raises binascii.Error otherwise; b64decode(b64encode(b)) == b (assumed lemma AX_BASE64)",
    "A-FLOAT-SPECIALS": "floats are opaque ids; +inf, NaN, -inf are the reserved ids 3, 4, 7; x == inf only for that id; math.isnan(x) only for the NaN id; NaN != NaN; float(x) of a float is x; finite arithmetic is not modelled",
}
