"""Native reading of the PyObj observers used in spec functions (symbolic reading: pyvc.speclib.OBJ_DSL)."""
import datetime as _dt

_EPOCH = _dt.datetime(1970, 1, 1, tzinfo=_dt.timezone.utc)
_US = _dt.timedelta(microseconds=1)


def uninterpreted(f):
    """marks a spec function whose symbolic reading is an uninterpreted function (+ stated axioms)"""
    return f


def is_none(v): return v is None
def is_bool(v): return isinstance(v, bool)
def is_int(v): return isinstance(v, int)
def as_int(v): return int(v)
def is_float(v): return isinstance(v, float)
def is_str(v): return isinstance(v, str)
def as_str(v): return v
def is_bytes(v): return isinstance(v, (bytes, bytearray))
def as_bytes(v): return bytes(v)
def is_dt(v): return isinstance(v, _dt.datetime)
def dt_us(v): return (v - _EPOCH) // _US
def is_td(v): return isinstance(v, _dt.timedelta)
def td_us(v): return v // _US
def is_list(v): return isinstance(v, list)
def is_dict(v): return isinstance(v, dict)


def is_msg(v):
    import betterproto
    return isinstance(v, betterproto.Message)


def is_enum(v):
    import betterproto
    return isinstance(v, betterproto.Enum)


def is_placeholder(v):
    import betterproto
    return v is betterproto.PLACEHOLDER


def float_is_zero(v):
    return v == 0.0


def is_finf(v): return isinstance(v, float) and v == float("inf")
def is_fninf(v): return isinstance(v, float) and v == float("-inf")
def is_fnan(v): return isinstance(v, float) and v != v
def mk_float_id(k): return k if isinstance(k, float) else {3: float("inf"), 4: float("nan"), 7: float("-inf")}[k]


def msg_is_default(v):
    return v == type(v)()


# constructors (symbolic reading: PyObj constructors)
def mk_int(x): return x
def mk_bool(x): return bool(x)
def mk_bytes(x): return bytes(x)
def mk_str(x): return x


def mk_enum(i, x):
    raise NotImplementedError("enum values need the field's class; native callers use the class directly")


def EMPTYSEQ(): return []
def SEQ1(x): return [x]


def is_pint(v): return isinstance(v, int) and not isinstance(v, bool)
