"""C04 / C05 (JSON), C07 (oneof histories), C15 (time conversion),
C17 (malformed input), C20 (enums)."""
import os
import sys

sys.path.insert(0, os.path.join(os.environ.get("PYVC_REPO", "/repo"), "src"))

import base64
import copy
import json
import pickle
import re
import struct
from datetime import datetime, timedelta

import betterproto

from . import corpus as C
from . import wire as W
from .relcommon import (
    Collector,
    Timeout,
    blame,
    exc,
    json_tag,
    oneof_state,
    same_message,
    short,
    time_limit,
    typed_problems,
    decl_class,
)

CASINGS = [("camel", betterproto.Casing.CAMEL), ("snake", betterproto.Casing.SNAKE)]


def _no_unknown(m):
    return not C.carries_unknown(m)


# ===================================================================== C04


def C04(m, rnd):
    col = Collector("C04")
    cls = type(m)
    try:
        b = bytes(m)
    except Exception as e:
        col.add("harness:encode-raises", exc(e))
        return col.result()
    for cname, casing in CASINGS:
        # failures seen with the default casing are not repeated for snake_case
        sub = Collector("C04")
        _c04_one(sub, m, cls, b, cname, casing)
        for it in sub.items:
            key = it.match.split(":", 1)[1]
            if cname == "snake":
                if any(x.match == it.match for x in col.items):
                    continue
                key += ":snake-casing-only"
            col.add(key, it.detail)
    return col.result()


def _c04_one(col, m, cls, b, cname, casing):
    try:
        d = m.to_dict(casing=casing)
    except Exception as e:
        for t in blame(m, lambda i: i.to_dict(casing=casing) and False, norm=json_tag):
            col.add("to_dict-raises:%s" % t, exc(e))
        return
    try:
        text = json.dumps(d)
    except Exception as e:
        for t in blame(m, lambda i: json.dumps(i.to_dict(casing=casing)) and False, norm=json_tag):
            col.add("not-json-serialisable:%s" % t, exc(e))
        text = None
    paths = [
        ("instance-from_dict", lambda: cls().from_dict(d)),
        ("class-from_dict", lambda: cls.from_dict(d)),
    ]
    if text is not None:
        try:
            jtext = m.to_json(casing=casing)
            paths.append(("from_json", lambda: cls().from_json(jtext)))
        except Exception as e:
            col.add("to_json-raises", exc(e))
    results = {}  # path -> list of (key, detail)
    for pname, fn in paths:
        found = []
        try:
            got = fn()
        except Exception as e:
            def pred(i, pname=pname):
                c2 = type(i)
                if pname == "from_json":
                    return c2().from_json(i.to_json(casing=casing)) and False
                if pname == "class-from_dict":
                    return c2.from_dict(i.to_dict(casing=casing)) and False
                return c2().from_dict(i.to_dict(casing=casing)) and False

            for t in blame(m, pred, norm=json_tag):
                found.append(("raises:%s" % t, "%s via %s" % (exc(e), pname)))
            results[pname] = found
            continue
        diffs = same_message(m, got, presence=False)
        if diffs:
            tmp = Collector("x")
            tmp.add_diffs("differs", diffs, prefix="(%s, %s) " % (pname, cname), origin=m, norm=json_tag)
            found.extend((it.match.split(":", 1)[1], it.detail) for it in tmp.items)
        else:
            try:
                b2 = bytes(got)
                if b2 != b:
                    def pred2(i, pname=pname):
                        c2 = type(i)
                        if pname == "from_json":
                            g = c2().from_json(i.to_json(casing=casing))
                        elif pname == "class-from_dict":
                            g = c2.from_dict(i.to_dict(casing=casing))
                        else:
                            g = c2().from_dict(i.to_dict(casing=casing))
                        return bytes(g) != bytes(i)

                    for t in blame(m, pred2, norm=json_tag):
                        found.append(("bytes-differ:%s" % t, "(%s, %s) %s -> %s" % (pname, cname, b.hex()[:80], b2.hex()[:80])))
            except Exception as e:
                found.append(("reencode-raises", exc(e)))
        results[pname] = found
    # a failure kind shared by every path is reported once
    all_keys = [set(k for k, _ in v) for v in results.values()]
    common = set.intersection(*all_keys) if all_keys else set()
    for pname, found in results.items():
        for key, detail in found:
            if key in common:
                col.add("roundtrip:%s" % key, detail)
            else:
                col.add("roundtrip-%s-only:%s" % (pname, key), detail)


C04.applies = _no_unknown


# ===================================================================== C05


def C05(m, rnd):
    from google.protobuf import json_format

    col = Collector("C05")
    cls = type(m)
    Ref = C.reference_class(cls)
    # betterproto JSON -> reference parser
    try:
        text = m.to_json()
    except Exception as e:
        for t in blame(m, lambda i: i.to_json() and False, norm=json_tag):
            col.add("to_json-raises:%s" % t, exc(e))
        text = None
    if text is not None:
        try:
            r = json_format.Parse(text, Ref())
        except Exception as e:
            def pred(i):
                json_format.Parse(i.to_json(), C.reference_class(type(i))())
                return False

            for t in blame(m, pred, norm=json_tag):
                col.add("reference-rejects-json:%s" % t, "%s for %s" % (exc(e), text[:160]))
            r = None
        if r is not None:
            col.add_diffs("bp-json-to-ref", C.ref_diff(m, r), prefix="(json %s) " % text[:120], origin=m, norm=json_tag)
    # reference JSON -> betterproto
    try:
        ref = C.to_reference(m)
        rtext = json_format.MessageToJson(ref)
    except Exception as e:
        col.add("harness:reference-json-raises", exc(e))
        return col.result()
    try:
        got = cls().from_json(rtext)
    except Exception as e:
        def pred2(i):
            type(i)().from_json(json_format.MessageToJson(C.to_reference(i)))
            return False

        for t in blame(m, pred2, norm=json_tag):
            col.add("from_json-rejects-reference-json:%s" % t, "%s for %s" % (exc(e), " ".join(rtext.split())[:160]))
        return col.result()
    diffs = C.bp_diff(m, got, presence=False)
    col.add_diffs("ref-json-to-bp", diffs, prefix="(json %s) " % " ".join(rtext.split())[:120], origin=m, norm=json_tag)
    return col.result()


C05.applies = _no_unknown


# ===================================================================== C07

_C07_VALUES = {
    "c_int32": [0, 5, -1],
    "c_string": ["", "x"],
    "c_bytes": [b"", b"\x01z"],
    "c_msg": [lambda: C.Inner(), lambda: C.Inner(x=1)],
    "d_bool": [False, True],
    "d_enum": [C.Color.ZERO, C.Color.RED, C.Color.BIG],
    "d_double": [0.0, 1.5],
}
_C07_JSON = {
    "c_int32": lambda v: v,
    "c_string": lambda v: v,
    "c_bytes": lambda v: base64.b64encode(v).decode(),
    "c_msg": lambda v: v.to_dict(),
    "d_bool": lambda v: v,
    "d_enum": lambda v: v.name,
    "d_double": lambda v: v,
}


def _c07_val(rnd, name, default=None):
    vals = _C07_VALUES[name]
    if default is True:
        v = vals[0]
    elif default is False:
        v = vals[-1]
    else:
        v = rnd.choice(vals)
    return v() if callable(v) else v


def _c07_check(col, x, expected, after, stale=()):
    groups = C.groups(C.OneOfs)
    for g, members in groups.items():
        want = expected[g]
        try:
            name, val = betterproto.which_one_of(x, g)
        except Exception as e:
            col.add("which_one_of-raises-after-%s" % after, exc(e))
            return False
        if (name or None) != want:
            col.add("which_one_of-after-%s" % after, "group %s: which_one_of says %r, last set was %r" % (g, name, want))
            return False
        for f in members:
            if f.name == want:
                try:
                    getattr(x, f.name)
                except Exception as e:
                    col.add("selected-member-unreadable-after-%s" % after, "%s: %s" % (f.name, exc(e)))
                    return False
                continue
            try:
                v = getattr(x, f.name)
            except AttributeError:
                continue
            except Exception as e:
                col.add("other-member-read-raises-non-AttributeError-after-%s" % after, "%s: %s" % (f.name, exc(e)))
                return False
            col.add("other-member-readable-after-%s" % after, "group %s is %r but reading %s returned %s" % (g, want, f.name, short(v)))
            return False
    # "at most one member of each group is set": repr() lists exactly the fields that hold a value
    try:
        shown = repr(x)
    except Exception as e:
        col.add("repr-raises-after-%s" % after, exc(e))
        return False
    import re as _re
    for g, members in groups.items():
        if g in stale:
            continue    # several members were passed to the constructor at once: not an operation of the property
        for f in members:
            if f.name != expected[g] and _re.search(r"\b%s=" % _re.escape(f.name), shown.split("(", 1)[-1].split("Inner(")[0] if False else shown):
                # nested Inner(...) reprs use other field names (x, s), so a match is this message's own field
                col.add("stale-member-still-set-after-%s" % after, "group %s selects %r but repr shows %s set: %s" % (g, expected[g], f.name, shown[:160]))
                return False
    try:
        b = bytes(x)
        present = {r.number for r in W.split(b)}
    except Exception as e:
        col.add("bytes-raises-after-%s" % after, exc(e))
        return False
    try:
        d = x.to_dict()
    except Exception as e:
        col.add("to_dict-raises-after-%s" % after, exc(e))
        return False
    for g, members in groups.items():
        want = expected[g]
        got = sorted(f.name for f in members if f.number in present)
        if got != ([want] if want else []):
            col.add("bytes-members-after-%s" % after, "group %s: selected %r, encoded members %s (%s)" % (g, want, got, b.hex()[:80]))
            return False
        keys = sorted(f.name for f in members if betterproto.casing.camel_case(f.name) in d)
        if keys != ([want] if want else []):
            col.add("to_dict-members-after-%s" % after, "group %s: selected %r, to_dict has %s" % (g, want, keys))
            return False
    return True


def C07(m, rnd):
    col = Collector("C07")
    groups = C.groups(C.OneOfs)
    names = [f.name for g in groups.values() for f in g]
    grp_of = {f.name: g for g, fs in groups.items() for f in fs}
    x = C.rebuild(m)
    expected = oneof_state(x)
    # the starting point: member set last by the recipe
    want = {g: None for g in groups}
    for st in C.steps_of(m):
        if st.mode in ("kw", "set") and st.path in grp_of:
            want[grp_of[st.path]] = st.path
    if not _c07_check(col, x, want, "construction"):
        return col.result()
    expected = want
    ops = ["construct", "set-default", "set-nondefault", "set-plain", "parse", "from_dict", "class-from_dict", "copy", "deepcopy", "pickle", "parse-none"]
    stale = set()
    for _ in range(rnd.randint(2, 7)):
        op = rnd.choice(ops)
        try:
            if op == "construct":
                kw = {}
                stale = set()
                expected = {g: None for g in groups}
                for g, fs in groups.items():
                    if rnd.random() < 0.7:
                        f = rnd.choice(fs)
                        kw[f.name] = _c07_val(rnd, f.name)
                        expected[g] = f.name
                        if rnd.random() < 0.35 and len(fs) > 1:
                            # two members of one group passed at once: the constructor assigns in field
                            # definition order, so the later-defined one is the member set last
                            f2 = rnd.choice([o for o in fs if o.name != f.name])
                            kw[f2.name] = _c07_val(rnd, f2.name)
                            expected[g] = max((f, f2), key=lambda o: fs.index(o)).name
                            stale.add(g)
                if rnd.random() < 0.5:
                    kw["plain"] = 3
                x = C.OneOfs(**kw)
            elif op in ("set-default", "set-nondefault"):
                name = rnd.choice(names)
                setattr(x, name, _c07_val(rnd, name, default=(op == "set-default")))
                expected = dict(expected)
                expected[grp_of[name]] = name
                stale.discard(grp_of[name])
            elif op == "set-plain":
                x.plain = rnd.choice([0, 1, -7])
                x.label = rnd.choice(["", "l"])
            elif op in ("parse", "parse-none"):
                k = 0 if op == "parse-none" else rnd.randint(1, 4)
                data = b""
                expected = dict(expected)
                for _i in range(k):
                    name = rnd.choice(names)
                    piece = C.OneOfs(**{name: _c07_val(rnd, name)})
                    data += C.to_reference(piece).SerializeToString()
                    expected[grp_of[name]] = name
                    stale.discard(grp_of[name])
                if op == "parse-none" and rnd.random() < 0.5:
                    data = C.to_reference(C.OneOfs(plain=4)).SerializeToString()
                x.parse(data)
            elif op in ("from_dict", "class-from_dict"):
                d = {}
                new = {g: None for g in groups}
                for g, fs in groups.items():
                    if rnd.random() < 0.6:
                        f = rnd.choice(fs)
                        d[betterproto.casing.camel_case(f.name)] = _C07_JSON[f.name](_c07_val(rnd, f.name))
                        new[g] = f.name
                if rnd.random() < 0.5:
                    d["plain"] = 2
                if op == "from_dict":
                    x.from_dict(d)
                    expected = {g: (new[g] or expected[g]) for g in groups}
                    stale -= {g for g in groups if new[g]}
                else:
                    x = C.OneOfs.from_dict(d)
                    expected = new
                    stale = set()
            elif op == "copy":
                x = copy.copy(x)
            elif op == "deepcopy":
                x = copy.deepcopy(x)
            elif op == "pickle":
                x = pickle.loads(pickle.dumps(x))
                stale = set()
        except Exception as e:
            col.add("%s-raises" % op, exc(e))
            break
        if not _c07_check(col, x, expected, op, stale):
            break
    return col.result()


def _c07_applies(m):
    if type(m) is not C.OneOfs:
        return False
    # undefined enum numbers make to_dict raise (C04/C20's finding)
    defined = {n for _, n in C.ENUMS["Color"]}
    for st in C.steps_of(m):
        if st.path == "d_enum" and int(st.val.make()) not in defined:
            return False
    return True


C07.applies = _c07_applies


# ===================================================================== C15

_DUR_JSON = re.compile(r"^-?\d+(\.\d{3}|\.\d{6}|\.\d{9})?s$")
_TS_JSON = re.compile(r"^\d{4}-\d\d-\d\dT\d\d:\d\d:\d\d(\.\d{3}|\.\d{6}|\.\d{9})?Z$")


def _time_values(m):
    """(field, index-or-None, value) for every datetime/timedelta held by m."""
    out = []
    for f in C.SCHEMAS[type(m)]:
        if not (f.is_timestamp or f.is_duration):
            continue
        ok, v = C._get(m, f.name)
        if not ok or v is None:
            continue
        if f.label == "repeated":
            out.extend((f, i, x) for i, x in enumerate(v))
        else:
            out.append((f, None, v))
    return out


def C15(m, rnd):
    from google.protobuf import duration_pb2, timestamp_pb2

    col = Collector("C15")
    cls = type(m)
    items = _time_values(m)
    if not items:
        return col.result()
    try:
        b = bytes(m)
    except Exception as e:
        for t in blame(m, lambda i: bytes(i) and False):
            col.add("encode-raises:%s" % t, exc(e))
        return col.result()
    try:
        r = C.reference_class(cls).FromString(b)
        d = cls().parse(b)
    except Exception as e:
        col.add("decode-raises", exc(e))
        return col.result()
    for f, idx, v in items:
        # JSON form of this one value, isolated from the other fields of m
        try:
            probe = cls()
            setattr(probe, f.name, [v] if f.label == "repeated" else v)
            jd = probe.to_dict()
            jidx = None if idx is None else 0
        except Exception as e:
            jd, jidx = None, None
            col.add("to_dict-raises:%s-%s" % (f.elem_kind, C.valclass(f.elem_kind, v)), exc(e))
        ek = f.elem_kind
        vc = C.valclass(ek, v)
        refmsg = timestamp_pb2.Timestamp() if f.is_timestamp else duration_pb2.Duration()
        try:
            (refmsg.FromDatetime if f.is_timestamp else refmsg.FromTimedelta)(v)
        except Exception as e:
            col.add("harness:reference-conversion-raises:%s-%s" % (ek, vc), exc(e))
            continue
        want = (refmsg.seconds, refmsg.nanos)
        spec = C.dt_to_sn(v) if f.is_timestamp else C.td_to_sn(v)
        if f.is_timestamp and v.utcoffset() is not None and v.utcoffset().microseconds:
            # the reference's FromDatetime convenience takes the fraction from the local wall clock and so drops the
            # sub-second part of a UTC offset; the pair "for the same instant" is the exact one
            want = spec
            refmsg.seconds, refmsg.nanos = spec
        if want != spec:
            col.add("harness:reference-vs-spec:%s-%s" % (ek, vc), "%s vs %s" % (want, spec))
        sub = getattr(r, f.name)
        if idx is not None:
            sub = sub[idx] if idx < len(sub) else None
        got = (sub.seconds, sub.nanos) if sub is not None else None
        if got != want:
            col.add("encoded-pair:%s-%s" % (ek, vc), "%r encoded as (seconds, nanos)=%s, reference %s" % (v, got, want))
        ok, dv = C._get(d, f.name)
        if idx is not None and ok:
            dv = dv[idx] if isinstance(dv, list) and idx < len(dv) else None
        same = False
        try:
            same = dv is not None and dv == v and type(dv) is type(v)
            if same and f.is_timestamp:
                same = dv.tzinfo is not None and (dv - v) == timedelta(0)
        except Exception:
            same = False
        if not same:
            col.add("roundtrip:%s-%s" % (ek, vc), "%r decodes back as %r" % (v, dv))
        if jd is not None:
            key = betterproto.casing.camel_case(f.name)
            js = jd.get(key)
            if jidx is not None and isinstance(js, list):
                js = js[jidx] if jidx < len(js) else None
            zero = v == (C.EPOCH if f.is_timestamp else timedelta(0))
            if js is None:
                continue  # whether a zero value is emitted is C04/C06's subject
            pat = _TS_JSON if f.is_timestamp else _DUR_JSON
            back = timestamp_pb2.Timestamp() if f.is_timestamp else duration_pb2.Duration()
            try:
                if not isinstance(js, str) or not pat.match(js):
                    raise ValueError("not a spec-form string")
                back.FromJsonString(js)
                if (back.seconds, back.nanos) != want:
                    col.add("json-value:%s-%s" % (ek, vc), "%r -> JSON %r denotes %s, expected %s (%s)" % (v, js, (back.seconds, back.nanos), want, refmsg.ToJsonString()))
            except Exception as e:
                col.add("json-form:%s-%s" % (ek, vc), "%r -> JSON %r (reference form %r): %s" % (v, js, refmsg.ToJsonString(), exc(e)))
    return col.result()


C15.applies = lambda m: bool(_time_values(m)) if any(f.is_timestamp or f.is_duration for f in C.SCHEMAS[type(m)]) else False


# ===================================================================== C20


def _extra_enums():
    """enum shapes beyond Color: aliases of 0, negative aliases, gaps, several aliases (declared here at run time)"""
    out = []
    shapes = {
        "ZeroAlias": [("UNSPECIFIED", 0), ("DEFAULT", 0), ("ONE", 1)],
        "NegAlias": [("ZERO", 0), ("MINUS", -1), ("NEG", -1), ("LOW", -(2**31))],
        "Gaps": [("A", 0), ("B", 5), ("C", 1000), ("D", 2**31 - 1)],
        "ManyAlias": [("Z", 0), ("P", 2), ("Q", 2), ("R", 2), ("Z2", 0), ("S", 3)],
        "Dense": [("D0", 0), ("D1", 1), ("D2", 2), ("D3", 3)],
        "DenseAlias": [("E0", 0), ("E1", 1), ("E1B", 1), ("E2", 2)],
        "Single": [("ONLY", 0)],
        "Underscored": [("_2D", 0), ("_3D", 1), ("FLAT", 0), ("_", 5)],     # pythonized names of e.g. DIMENSION_2D
        # member names that contain another member's name behind the upper-snake class name / behind any prefix
        "Kind": [("KIND_NONE", 7), ("NONE", 0), ("OTHER", 1), ("KIND_OTHER", 2), ("KIND", 3), ("KIND_KIND", 4)],
        "PrefixOf": [("A", 0), ("AB", 1), ("A_B", 2), ("B", 3), ("ab", 4), ("Ab", 5)],
        # lower-case value names that are also attributes of int / object (legal proto value names)
        "IntAttrs": [("real", 0), ("imag", 1), ("numerator", 2), ("denominator", 3), ("conjugate", 4), ("bit_length", 5), ("to_bytes", 6)],
    }
    for name, decl in shapes.items():
        ns = {"__module__": __name__, "__qualname__": name}      # so that members pickle by reference to this module
        for n, v in decl:
            ns[n] = v
        cls = betterproto.enum.EnumType(name, (betterproto.Enum,), ns)
        globals()[name] = cls
        out.append((cls, decl))
    return out


def _c20_static(rnd):
    col = Collector("C20")
    for EnumCls, decl in [(C.Color, C.ENUMS["Color"])] + _extra_enums():
        _c20_lookup(col, EnumCls, decl)
        _c20_undefined(col, EnumCls, decl)
    Color = C.Color
    decl = C.ENUMS["Color"]
    _c20_rest(col, Color, decl)
    return col.result()


def _c20_undefined(col, E, decl):
    """numbers the enum does not define stay what they are: try_value keeps the number, names no member, and the
    constructor / name lookups reject them (every enum shape, numbers around the defined range and its mirror image)"""
    tag = "" if E is C.Color else ":alias-shapes"
    defined = {n for _, n in decl}
    cand = set()
    for n in defined:
        cand |= {n - 1, n + 1, -n, -n - 1, -n + 1}
    cand |= {-1, -2, -3, -4, -5, len(decl), -len(decl), len(decl) + 1, 2**31 - 1, -(2**31), 7}
    for n in sorted(cand - defined):
        try:
            u = E.try_value(n)
            if not (int(u) == n and u.value == n and u == n):
                col.add("undefined-number-changed%s" % tag, "%s.try_value(%d) -> %r (value %r)" % (E.__name__, n, u, getattr(u, "value", None)))
            elif u.name is not None:
                col.add("undefined-number-gets-a-member-name%s" % tag, "%s.try_value(%d).name == %r" % (E.__name__, n, u.name))
            elif any(u is m for m in E):
                col.add("undefined-number-is-a-member%s" % tag, "%s.try_value(%d) is a defined member" % (E.__name__, n))
        except Exception as e:
            col.add("undefined-number-try_value-raises%s" % tag, "%s.try_value(%d): %s" % (E.__name__, n, exc(e)))
        try:
            if E.try_value(n) in E:
                col.add("undefined-number-is-contained%s" % tag, "%s.try_value(%d) in %s is True" % (E.__name__, n, E.__name__))
        except Exception as e:
            col.add("contains-raises%s" % tag, "%s.try_value(%d) in %s: %s" % (E.__name__, n, E.__name__, exc(e)))
        try:
            E(n)
            col.add("constructor-accepts-undefined-number%s" % tag, "%s(%d) did not raise" % (E.__name__, n))
        except ValueError:
            pass
        except Exception as e:
            col.add("constructor-raises-other%s" % tag, "%s(%d): %s" % (E.__name__, n, exc(e)))


def _c20_lookup(col, Color, decl):
    tag = "" if Color is C.Color else ":alias-shapes"
    for name, num in decl:
        try:
            if Color[name] not in Color:
                col.add("member-not-contained%s" % tag, "%s.%s in %s is False" % (Color.__name__, name, Color.__name__))
        except Exception as e:
            col.add("contains-raises%s" % tag, "%s.%s in %s: %s" % (Color.__name__, name, Color.__name__, exc(e)))
    canon = {}
    for name, num in decl:
        canon.setdefault(num, name)
    for name, num in decl:
        cname = canon[num]
        try:
            # the canonical member is the one the by-name lookup gives (attribute access is only asked for where the
            # name is not also an attribute of int / object: `real`, `imag`, ... resolve to int's descriptors there)
            member = Color[cname]
            checks = [
                ("by-number", lambda: Color(num)),
                ("by-name-getitem", lambda: Color[name]),
                ("by-name-from_string", lambda: Color.from_string(name)),
                ("try_value", lambda: Color.try_value(num)),
            ]
            if not hasattr(int, name):
                checks.append(("by-attribute", lambda: getattr(Color, name)))
            for what, fn in checks:
                try:
                    got = fn()
                except Exception as e:
                    col.add("lookup-raises:%s%s" % (what, tag), "%s(%s/%d): %s" % (what, name, num, exc(e)))
                    continue
                if got is not member:
                    col.add("lookup-not-canonical:%s%s" % (what, tag), "%s: %s for %s/%d gives %r (id differs from .%s)" % (Color.__name__, what, name, num, got, cname))
            if member.name != cname or member.value != num or int(member) != num:
                col.add("member-name-number%s" % tag, "%s.%s has name %r value %r" % (Color.__name__, cname, member.name, member.value))
            if copy.copy(member) is not member or copy.deepcopy(member) is not member:
                col.add("copy-identity%s" % tag, "copy/deepcopy of %s.%s is a different object" % (Color.__name__, cname))
            if Color.__module__ != __name__ or True:
                # (classes declared at run time pickle by reference to this module: register them there)
                p = pickle.loads(pickle.dumps(member))
                if getattr(p, "name", "<no name>") != member.name or getattr(p, "value", None) != member.value or not isinstance(p, int) or int(p) != num:
                    col.add("pickle-name-number%s" % tag, "%s.%s unpickles as %r (name %r value %r)" % (Color.__name__, cname, p, getattr(p, "name", None), getattr(p, "value", None)))
        except Exception as e:
            col.add("static-raises%s" % tag, exc(e))


def _c20_rest(col, Color, decl):
    canon = {}
    for name, num in decl:
        canon.setdefault(num, name)
    try:
        names = [x.name for x in Color]
        if sorted(set(names)) != sorted({canon[n] for _, n in decl}):
            col.add("iteration", "iterating Color yields %s" % names)
        if set(Color.__members__) != {n for n, _ in decl}:
            col.add("members-mapping", "%s" % list(Color.__members__))
    except Exception as e:
        col.add("iteration-raises", exc(e))
    for n in (7, -5, 2**31 - 2, -(2**31)):
        try:
            u = Color.try_value(n)
            if not (u == n and int(u) == n and u.value == n):
                col.add("undefined-number-equality", "try_value(%d) -> %r" % (n, u))
            p = pickle.loads(pickle.dumps(u))
            if int(p) != n:
                col.add("undefined-number-pickle", "%d -> %r" % (n, p))
        except Exception as e:
            col.add("undefined-number-raises", exc(e))
    # immutability
    attempts = [
        ("class-setattr-member", lambda: setattr(Color, "RED", 5), lambda: Color.RED == 1 and Color.RED is Color(1)),
        ("class-setattr-new", lambda: setattr(Color, "NEWONE", 9), lambda: not hasattr(Color, "NEWONE")),
        ("class-delattr", lambda: delattr(Color, "RED"), lambda: hasattr(Color, "RED")),
        ("member-setattr-value", lambda: setattr(Color.RED, "value", 9), lambda: Color.RED.value == 1),
        ("member-setattr-name", lambda: setattr(Color.RED, "name", "X"), lambda: Color.RED.name == "RED"),
        ("member-setattr-new", lambda: setattr(Color.RED, "extra", 1), lambda: not hasattr(Color.RED, "extra")),
        ("member-delattr", lambda: delattr(Color.RED, "name"), lambda: Color.RED.name == "RED"),
    ]
    for what, act, intact in attempts:
        try:
            act()
            col.add("mutable:%s" % what, "no exception raised")
        except Exception:
            pass
        try:
            if not intact():
                col.add("mutated:%s" % what, "state changed")
        except Exception as e:
            col.add("mutated:%s" % what, exc(e))


def _enum_positions(m):
    """(field, locator, value) for every enum value held by m."""
    out = []
    for f in C.SCHEMAS[type(m)]:
        if f.kind == "enum":
            if f.group and C._selected(m, f.group) != f.name:
                continue
            ok, v = C._get(m, f.name)
            if not ok or v is None:
                continue
            if f.label == "repeated":
                out.extend((f, i, x) for i, x in enumerate(v))
            else:
                out.append((f, None, v))
        elif f.kind == "map" and f.value_kind == "enum":
            ok, v = C._get(m, f.name)
            if ok:
                out.extend((f, k, x) for k, x in v.items())
    return out


def _locate(x, f, loc):
    ok, v = C._get(x, f.name)
    if not ok:
        return None
    if loc is None:
        return v
    try:
        return v[loc]
    except Exception:
        pass
    try:  # JSON object keys come back as strings (C04's finding, not C20's)
        return v[str(loc).lower() if isinstance(loc, bool) else str(loc)]
    except Exception:
        return None


def _position(f):
    if f.kind == "map":
        return "map-value"
    if f.group:
        return "oneof"
    return f.label


def C20(m, rnd):
    col = Collector("C20")
    cls = type(m)
    pos = _enum_positions(m)
    if not pos:
        return col.result()
    defined = {n for _, n in C.ENUMS["Color"]}
    try:
        b = bytes(m)
        d = cls().parse(b)
    except Exception as e:
        for t in blame(m, lambda i: type(i)().parse(bytes(i)) and False):
            col.add("binary-roundtrip-raises:%s" % t, exc(e))
        d = None
    jd = None
    try:
        jd = cls().from_json(m.to_json())
    except Exception as e:
        def pred(i):
            type(i)().from_json(i.to_json())
            return False

        for t in blame(m, pred, norm=json_tag):
            if "enum" in t:
                col.add("json-roundtrip-raises:%s" % t, exc(e))
    for f, loc, v in pos:
        n = int(v)
        vc = C.valclass("enum", v)
        where = _position(f)
        undefined = n not in defined
        if undefined:
            if not (v == n):
                col.add("undefined-not-equal-int:%s" % where, short(v))
        if d is not None:
            got = _locate(d, f, loc)
            if undefined:
                if got is None or int(got) != n:
                    col.add("binary-roundtrip:enum-%s" % vc, "%d in %s position comes back as %s" % (n, where, short(got)))
            else:
                canonical = C.Color(n)
                if got is not canonical:
                    same_number = got is not None and int(got) == n
                    col.add(
                        "decode-noncanonical:enum-%s%s" % (vc, "" if not same_number else "-number-kept"),
                        "declared member %r in %s position decodes as %s (name %r)" % (canonical, where, short(got), getattr(got, "name", None)),
                    )
        if jd is not None and undefined:
            got = _locate(jd, f, loc)
            if got is None or int(got) != n:
                col.add("json-roundtrip:%s-enum-%s" % (where, vc), "%d comes back as %s" % (n, short(got)))
    return col.result()


C20.static = _c20_static
C20.applies = lambda m: bool(_enum_positions(m)) if any(f.kind == "enum" or f.value_kind == "enum" for f in C.SCHEMAS[type(m)]) else False


# ===================================================================== C17

_STATS = {"ref-accepts-bp-rejects": 0, "ref-rejects-bp-accepts": 0, "both-accept": 0, "both-reject": 0}


def c17_stats():
    return dict(_STATS)


def _try_parse(cls, data):
    """('ok', msg) | ('raise', exc) | ('timeout', None)"""
    try:
        with time_limit(5.0):
            return "ok", cls().parse(data)
    except Timeout:
        return "timeout", None
    except RecursionError as e:
        return "raise", e
    except Exception as e:
        return "raise", e


def _ref_accepts(cls, data):
    try:
        C.reference_class(cls).FromString(data)
        return True
    except Exception:
        return False


def _record_agreement(cls, data, status):
    ra = _ref_accepts(cls, data)
    if ra and status == "ok":
        _STATS["both-accept"] += 1
    elif ra:
        _STATS["ref-accepts-bp-rejects"] += 1
    elif status == "ok":
        _STATS["ref-rejects-bp-accepts"] += 1
    else:
        _STATS["both-reject"] += 1


def _accepted_ok(col, site, cls, data, res):
    """A returned message must be well typed and encodable again."""
    probs = typed_problems(res)
    for f, tag, desc in probs[:3]:
        col.add("wrong-type:%s" % tag, "%s after parsing %s (%s)" % (desc, data.hex()[:80], site))
    try:
        with time_limit(5.0):
            bytes(res)
    except Exception as e:
        if not probs:
            col.add("reencode-raises", "%s after parsing %s (%s)" % (exc(e), data.hex()[:80], site))
        else:
            col.add("reencode-raises-after-wrong-type", "%s after parsing %s (%s)" % (exc(e), data.hex()[:80], site))


def _cut_kind(recs, cut):
    for r in recs:
        if r.start < cut < r.start + len(r.raw):
            rel = cut - r.start
            if rel < r.tag_len:
                return "inside-tag"
            if r.wt == W.VARINT:
                return "inside-varint-value"
            if r.wt == W.LEN:
                return "inside-length" if rel < r.tag_len + r.len_len else "inside-len-payload"
            return "inside-fixed%d" % (32 if r.wt == W.FIXED32 else 64)
    return "boundary"


def _malformed_reason(data):
    """Why the top-level structure of data is malformed (None if well formed
    or if it contains proto2 groups, which this splitter does not follow)."""
    try:
        W.split(data)
    except W.WireError as e:
        msg = str(e)
        if msg.startswith("wire type"):
            return "invalid-wire-type" if msg.split()[-1] in ("6", "7") else None
        if "field number 0" in msg:
            return "field-number-zero"
        if "truncated" in msg:
            return "truncated"
        if "too long" in msg:
            return None
    return None


def _payload_for(wt, rnd):
    if wt == W.VARINT:
        return rnd.choice([0, 1, 150, 70000])  # (small: a mis-typed int may end up in bytes(n))
    if wt == W.LEN:
        return rnd.choice([b"", b"ab", b"\x08\x01", b"\xff\xff\xff"])
    return bytes(rnd.randrange(256) for _ in range(4 if wt == W.FIXED32 else 8))


def _fits(f, wt):
    if f.kind in ("map", "message", "string", "bytes"):
        return wt == W.LEN
    if f.label == "repeated" and wt == W.LEN:
        return True
    return wt == W.native_wt(f.kind)


def C17(m, rnd):
    col = Collector("C17")
    cls = type(m)
    try:
        base = bytes(m)
        recs = W.split(base)
    except Exception as e:
        col.add("harness:encode-or-split-raises", exc(e))
        return col.result()
    status, ref_parse = _try_parse(cls, base)
    if status != "ok":
        col.add("harness:valid-encoding-rejected", short(ref_parse))
        return col.result()

    # --- truncation
    n = len(base)
    cuts = list(range(n)) if n <= 48 else sorted(set(rnd.sample(range(n), 40)) | {r.start + 1 for r in recs if r.start + 1 < n})
    for cut in cuts:
        data = base[:cut]
        kind = _cut_kind(recs, cut)
        status, res = _try_parse(cls, data)
        _record_agreement(cls, data, status)
        if status == "timeout":
            col.add("nontermination:truncation", data.hex()[:80])
        elif status == "ok":
            if kind != "boundary":
                col.add("truncated-accepted:%s" % kind, "prefix %d/%d of %s accepted as %s" % (cut, n, base.hex()[:80], short(res)))
            _accepted_ok(col, "truncation", cls, data, res)

    # --- single byte corruption of tags and lengths
    for r in recs[:12]:
        targets = [("tag", r.start)]
        if r.wt == W.LEN:
            targets.append(("length", r.start + r.tag_len))
        for what, posn in targets:
            for _ in range(2):
                newb = rnd.randrange(256)
                if newb == base[posn]:
                    continue
                data = base[:posn] + bytes([newb]) + base[posn + 1 :]
                status, res = _try_parse(cls, data)
                _record_agreement(cls, data, status)
                if status == "timeout":
                    col.add("nontermination:corrupt-%s" % what, data.hex()[:80])
                elif status == "ok":
                    _accepted_ok(col, "corrupt-%s" % what, cls, data, res)
                    why = _malformed_reason(data)
                    if why:
                        col.add("malformed-accepted:corrupt-%s:%s" % (what, why), "accepted %s as %s" % (data.hex()[:80], short(res)))

    # --- a known field number arriving with a non-fitting wire type
    fields = C.SCHEMAS[cls]
    if fields:
        for f in rnd.sample(fields, min(len(fields), 6)):
            for wt in (W.VARINT, W.FIXED64, W.LEN, W.FIXED32):
                if _fits(f, wt):
                    continue
                x = W.make(f.number, wt, _payload_for(wt, rnd))
                where = rnd.choice(["before", "after"])
                data = x.raw + base if where == "before" else base + x.raw
                status, res = _try_parse(cls, data)
                _record_agreement(cls, data, status)
                label = "%s%s-as-wt%d" % ("repeated-" if f.label == "repeated" else "", decl_class(f), wt)
                if status == "timeout":
                    col.add("nontermination:wiretype-mismatch", data.hex()[:80])
                    continue
                if status == "raise":
                    continue  # rejecting is allowed
                probs = typed_problems(res)
                if probs:
                    col.add("wiretype-mismatch:wrong-type:%s" % label, "%s after %s" % (probs[0][2], data.hex()[:80]))
                    continue
                diffs = C.bp_diff(ref_parse, res, presence=False)
                if diffs:
                    col.add("wiretype-mismatch:value-altered:%s" % label, "%s (record %s %s valid bytes)" % (diffs[0], x.raw.hex(), where))
                    continue
                try:
                    out = bytes(res)
                    if x.raw not in out:
                        col.add("wiretype-mismatch:not-kept-as-unknown:%s" % label, "record %s missing from %s" % (x.raw.hex(), out.hex()[:80]))
                except Exception as e:
                    col.add("wiretype-mismatch:reencode-raises:%s" % label, exc(e))

    # --- a packed repeated field whose payload cuts an element in the middle (length not a multiple of the
    #     element width / a dangling continuation byte): a field cut in the middle must be rejected
    for f in fields:
        if f.label != "repeated":
            continue
        if f.kind in W.FIXED32_KINDS or f.kind in W.FIXED64_KINDS:
            width = 4 if f.kind in W.FIXED32_KINDS else 8
            for nelem in (0, 1, 2):
                for extra in sorted({1, width - 1, width // 2}):
                    payload = bytes(rnd.randrange(1, 200) for _ in range(nelem * width + extra))
                    for data in (W.make(f.number, W.LEN, payload).raw + base, base + W.make(f.number, W.LEN, payload).raw):
                        status, res = _try_parse(cls, data)
                        _record_agreement(cls, data, status)
                        if status == "ok":
                            col.add("truncated-accepted:packed-%s-element-cut" % ("fixed32" if width == 4 else "fixed64"),
                                    "packed payload of %d bytes (element width %d) accepted: %s -> %s" % (len(payload), width, data.hex()[:80], short(res)))
                        elif status == "timeout":
                            col.add("nontermination:packed-element-cut", data.hex()[:80])
        elif f.kind in W.VARINT_KINDS:
            for good in (b"", b"\x01", b"\x96\x01"):
                payload = good + b"\x80"
                data = base + W.make(f.number, W.LEN, payload).raw
                status, res = _try_parse(cls, data)
                _record_agreement(cls, data, status)
                if status == "ok":
                    col.add("truncated-accepted:packed-varint-element-cut", "%s -> %s" % (data.hex()[:80], short(res)))
                elif status == "timeout":
                    col.add("nontermination:packed-element-cut", data.hex()[:80])

    # --- invalid wire types, field number 0, groups
    some_known = fields[0].number if fields else 1
    for wt in (6, 7):
        for num in (some_known, 99):
            for data in (base + W.tag(num, wt) + b"\x00", W.tag(num, wt) + b"\x00" + base):
                status, res = _try_parse(cls, data)
                _record_agreement(cls, data, status)
                if status == "ok":
                    col.add("invalid-wire-type-accepted:wt%d" % wt, "%s -> %s" % (data.hex()[:80], short(res)))
                elif status == "timeout":
                    col.add("nontermination:invalid-wire-type", data.hex()[:80])
    for wt in (W.VARINT, W.FIXED64, W.LEN, W.FIXED32):
        x = W.make(1, wt, _payload_for(wt, rnd))
        zero = W.enc_varint(wt) + x.raw[1:]
        for data in (base + zero, zero + base):
            status, res = _try_parse(cls, data)
            _record_agreement(cls, data, status)
            if status == "ok":
                col.add("field-number-zero-accepted:wt%d" % wt, "%s -> %s" % (data.hex()[:80], short(res)))
            elif status == "timeout":
                col.add("nontermination:field-number-zero", data.hex()[:80])
    for num in (some_known, 99):
        grp = W.tag(num, 3) + W.make(some_known, W.VARINT, 1).raw + W.tag(num, 4)
        for data in (grp + base, base + grp):
            status, res = _try_parse(cls, data)
            _record_agreement(cls, data, status)
            if status == "timeout":
                col.add("nontermination:group", data.hex()[:80])
            elif status == "ok":
                _accepted_ok(col, "group", cls, data, res)
                diffs = C.bp_diff(ref_parse, res, presence=False)
                if diffs:
                    col.add("group-alters-known-field", "%s after %s" % (diffs[0], data.hex()[:80]))

    # --- random byte strings
    for _ in range(12):
        ln = rnd.choice([1, 2, 3, 5, 8, 13, 21, 40])
        if rnd.random() < 0.5 and base:
            data = bytearray(base[: ln * 2] or b"\x00")
            for _j in range(rnd.randint(1, 3)):
                data[rnd.randrange(len(data))] = rnd.randrange(256)
            data = bytes(data)
        else:
            data = bytes(rnd.randrange(256) for _ in range(ln))
        status, res = _try_parse(cls, data)
        _record_agreement(cls, data, status)
        if status == "timeout":
            col.add("nontermination:random", data.hex()[:80])
        elif status == "ok":
            _accepted_ok(col, "random", cls, data, res)
            why = _malformed_reason(data)
            if why:
                col.add("malformed-accepted:random:%s" % why, "%s -> %s" % (data.hex()[:80], short(res)))
    return col.result()
