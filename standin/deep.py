"""Supplementary bounded stand-in on a second, deliberately *nested* schema ("deep"): containers whose elements are
messages that carry oneof selections, field-less messages (which can only carry unknown fields), messages reachable
only through two levels of lazily created parents, float-valued maps.  The first corpus (standin/corpus.py) has none of
these combinations; round-3 seeded changes showed that the properties can break exactly there.

The relations are the property statements themselves, evaluated on the real library over an enumerated instance set.
The oracle for "same message" is a recursive *observation* (presence flag, selected member of every group, every
field value with floats compared by repr, unknown bytes) - not ``==`` (which ignores presence / selection).

  python -m standin.deep <C01|C02|C04|C06|C08|C09|C14|C15> [--seed N]      (bounded, labelled so by the caller)
One JSON object on stdout.
"""
import argparse
import copy
import io
import json
import math
import os
import pickle
import random
import sys
import traceback
from dataclasses import dataclass
from datetime import datetime, timedelta, timezone
from typing import Dict, List, Optional

sys.path.insert(0, os.path.join(os.environ.get("PYVC_REPO", "/repo"), "src"))

import betterproto  # noqa: E402


EPOCH = datetime(1970, 1, 1, tzinfo=timezone.utc)


# ------------------------------------------------------------------------------------------------ schema
@dataclass(eq=False, repr=False)
class Leaf(betterproto.Message):
    n: int = betterproto.int32_field(1)


@dataclass(eq=False, repr=False)
class Choice(betterproto.Message):
    count: int = betterproto.int32_field(1, group="pick")
    label: str = betterproto.string_field(2, group="pick")
    flag: bool = betterproto.bool_field(3, group="pick")
    leaf: "Leaf" = betterproto.message_field(4, group="pick")


@dataclass(eq=False, repr=False)
class PChoice(betterproto.Message):
    """the same oneof as Choice in the OTHER declaration style the public API / the plugin offers (pydantic_dataclasses
    output, betterproto.lib.pydantic): every member optional=True + group, an unset member reads as None"""
    count: Optional[int] = betterproto.int32_field(1, optional=True, group="pick")
    label: Optional[str] = betterproto.string_field(2, optional=True, group="pick")
    flag: Optional[bool] = betterproto.bool_field(3, optional=True, group="pick")
    leaf: Optional["Leaf"] = betterproto.message_field(4, optional=True, group="pick")


@dataclass(eq=False, repr=False)
class Nest(betterproto.Message):
    """recursive: chains deeper than the interpreter's stack make the recursive observers raise"""
    tag: int = betterproto.int32_field(1)
    child: "Nest" = betterproto.message_field(2)
    kids: List["Nest"] = betterproto.message_field(3)
    g_n: int = betterproto.int32_field(4, group="g")
    g_s: str = betterproto.string_field(5, group="g")


@dataclass(eq=False, repr=False)
class Solo(betterproto.Message):
    """oneof groups with exactly ONE member each (legal, and how proto3 optional fields look in a descriptor)"""
    only: int = betterproto.int32_field(1, group="g")
    word: str = betterproto.string_field(2, group="h")
    plain: int = betterproto.int32_field(3)
    sub: "Leaf" = betterproto.message_field(4, group="k")


@dataclass(eq=False, repr=False)
class Mid(betterproto.Message):
    leaf: "Leaf" = betterproto.message_field(1)
    name: str = betterproto.string_field(2)
    pick: "Choice" = betterproto.message_field(3)


@dataclass(eq=False, repr=False)
class Hollow(betterproto.Message):
    pass


@dataclass(eq=False, repr=False)
class Deep(betterproto.Message):
    m_choice: Dict[str, "Choice"] = betterproto.map_field(1, betterproto.TYPE_STRING, betterproto.TYPE_MESSAGE)
    r_choice: List["Choice"] = betterproto.message_field(2)
    one: "Choice" = betterproto.message_field(3)
    m_f: Dict[int, float] = betterproto.map_field(4, betterproto.TYPE_INT32, betterproto.TYPE_FLOAT)
    m_d: Dict[str, float] = betterproto.map_field(5, betterproto.TYPE_STRING, betterproto.TYPE_DOUBLE)
    hollow: "Hollow" = betterproto.message_field(6)
    r_hollow: List["Hollow"] = betterproto.message_field(7)
    m_hollow: Dict[str, "Hollow"] = betterproto.map_field(8, betterproto.TYPE_STRING, betterproto.TYPE_MESSAGE)
    mid: "Mid" = betterproto.message_field(9)
    r_d: List[float] = betterproto.double_field(10)
    dur: timedelta = betterproto.message_field(11)
    ts: datetime = betterproto.message_field(12)
    rw_i64: List[Optional[int]] = betterproto.message_field(13, wraps=betterproto.TYPE_INT64)
    rw_bytes: List[Optional[bytes]] = betterproto.message_field(14, wraps=betterproto.TYPE_BYTES)
    rw_double: List[Optional[float]] = betterproto.message_field(15, wraps=betterproto.TYPE_DOUBLE)
    rw_bool: List[Optional[bool]] = betterproto.message_field(16, wraps=betterproto.TYPE_BOOL)
    w_u64: Optional[int] = betterproto.message_field(17, wraps=betterproto.TYPE_UINT64)


class Hue(betterproto.Enum):
    HUE_NONE = 0
    HUE_RED = 1
    HUE_BLUE = 2
    HUE_NEG = -4
    HUE_ROSE = 1        # alias


@dataclass(eq=False, repr=False)
class Wide(betterproto.Message):
    """well-known types, wrappers and enums in every container and presence discipline"""
    r_ts: List[datetime] = betterproto.message_field(1)
    r_dur: List[timedelta] = betterproto.message_field(2)
    p_ts: datetime = betterproto.message_field(3, group="pick")
    p_dur: timedelta = betterproto.message_field(4, group="pick")
    p_w: Optional[int] = betterproto.message_field(5, wraps=betterproto.TYPE_INT32, group="pick")
    p_e: "Hue" = betterproto.enum_field(6, group="pick")
    e: "Hue" = betterproto.enum_field(7)
    r_e: List["Hue"] = betterproto.enum_field(8)
    m_e: Dict[str, "Hue"] = betterproto.map_field(9, betterproto.TYPE_STRING, betterproto.TYPE_ENUM)
    o_e: Optional["Hue"] = betterproto.enum_field(10, optional=True)
    o_leaf: Optional["Leaf"] = betterproto.message_field(11, optional=True)
    o_str: Optional[str] = betterproto.string_field(12, optional=True)
    o_f32: Optional[float] = betterproto.float_field(13, optional=True)
    m_i64_leaf: Dict[int, "Leaf"] = betterproto.map_field(14, betterproto.TYPE_SINT64, betterproto.TYPE_MESSAGE)
    m_bool_str: Dict[bool, str] = betterproto.map_field(15, betterproto.TYPE_BOOL, betterproto.TYPE_STRING)
    fx: int = betterproto.sfixed64_field(16)
    r_fx32: List[int] = betterproto.fixed32_field(17)
    r_sint: List[int] = betterproto.sint32_field(18)
    o_ts: Optional[datetime] = betterproto.message_field(19, optional=True)
    big: bytes = betterproto.bytes_field(20)


class EA(betterproto.Enum):
    A0 = 0
    A1 = 1
    A2 = 2


class EB(betterproto.Enum):
    B0 = 0
    B1 = 1
    B5 = 5


@dataclass(eq=False, repr=False)
class TwinA(betterproto.Message):
    """TwinA / TwinB have the same field numbers, kinds and Python container types but mean different things: any table
    shared between message classes (keyed by number, kind, Python type or JSON key) makes one of them wrong"""
    e: "EA" = betterproto.enum_field(1)
    r_e: List["EA"] = betterproto.enum_field(2)
    m_e: Dict[str, "EA"] = betterproto.map_field(3, betterproto.TYPE_STRING, betterproto.TYPE_ENUM)
    m_t: Dict[str, datetime] = betterproto.map_field(4, betterproto.TYPE_STRING, betterproto.TYPE_MESSAGE)
    address_line_1: str = betterproto.string_field(5)
    m_n: Dict[str, int] = betterproto.map_field(6, betterproto.TYPE_STRING, betterproto.TYPE_INT32)
    sub: "Leaf" = betterproto.message_field(7)
    x: int = betterproto.int32_field(8)


@dataclass(eq=False, repr=False)
class TwinB(betterproto.Message):
    e: "EB" = betterproto.enum_field(1)
    r_e: List["EB"] = betterproto.enum_field(2)
    m_e: Dict[str, "EB"] = betterproto.map_field(3, betterproto.TYPE_STRING, betterproto.TYPE_ENUM)
    m_t: Dict[str, timedelta] = betterproto.map_field(4, betterproto.TYPE_STRING, betterproto.TYPE_MESSAGE)
    address_line1: str = betterproto.string_field(5)
    m_n: Dict[str, int] = betterproto.map_field(6, betterproto.TYPE_STRING, betterproto.TYPE_SINT32)
    sub: "Mid" = betterproto.message_field(7)
    x: int = betterproto.sint32_field(8)


@dataclass(eq=False, repr=False)
class High(betterproto.Message):
    """field numbers whose tags need 2..5 bytes, in every presence discipline"""
    a32: int = betterproto.int32_field(32)
    s47: str = betterproto.string_field(47)
    p64: int = betterproto.sint64_field(64, group="pick")
    p100: str = betterproto.string_field(100, group="pick")
    o2048: Optional[int] = betterproto.int32_field(2048, optional=True)
    r16384: List[int] = betterproto.int32_field(16384)
    m40: "Leaf" = betterproto.message_field(40)
    rs72: List[str] = betterproto.string_field(72)
    z_max: int = betterproto.uint32_field(536870911)


SCHEMA = {
    "Leaf": [("n", 1, "int32", "", None)],
    "Choice": [("count", 1, "int32", "pick", None), ("label", 2, "string", "pick", None), ("flag", 3, "bool", "pick", None),
               ("leaf", 4, "message", "pick", "Leaf")],
    "Mid": [("leaf", 1, "message", "", "Leaf"), ("name", 2, "string", "", None), ("pick", 3, "message", "", "Choice")],
    "Hollow": [],
    "Solo": [("only", 1, "int32", "g", None), ("word", 2, "string", "h", None), ("plain", 3, "int32", "", None), ("sub", 4, "message", "k", "Leaf")],
}
CLASSES = {"Leaf": Leaf, "Choice": Choice, "Mid": Mid, "Hollow": Hollow, "Deep": Deep, "High": High, "Wide": Wide, "Solo": Solo}


# ------------------------------------------------------------------------------------------------ reference classes
_REF = {}


def ref(name):
    if not _REF:
        from google.protobuf import descriptor_pb2 as dpb, descriptor_pool, message_factory
        from google.protobuf import duration_pb2, timestamp_pb2, wrappers_pb2  # noqa: F401
        FD = dpb.FieldDescriptorProto
        ty = {"int32": FD.TYPE_INT32, "string": FD.TYPE_STRING, "bool": FD.TYPE_BOOL, "message": FD.TYPE_MESSAGE,
              "float": FD.TYPE_FLOAT, "double": FD.TYPE_DOUBLE}
        pkg = "standin_deep"
        fdp = dpb.FileDescriptorProto(name="standin_deep.proto", package=pkg, syntax="proto3")
        fdp.dependency.append("google/protobuf/duration.proto")
        fdp.dependency.append("google/protobuf/timestamp.proto")
        fdp.dependency.append("google/protobuf/wrappers.proto")
        for mname, fields in SCHEMA.items():
            mp = fdp.message_type.add(name=mname)
            groups = {}
            for fname, num, kind, group, tn in fields:
                fp = mp.field.add(name=fname, number=num, type=ty[kind], label=FD.LABEL_OPTIONAL)
                if tn:
                    fp.type_name = f".{pkg}.{tn}"
                if group:
                    if group not in groups:
                        groups[group] = len(mp.oneof_decl)
                        mp.oneof_decl.add(name=group)
                    fp.oneof_index = groups[group]
        mp = fdp.message_type.add(name="Deep")

        def add_map(name, num, kk, vk, vt=None):
            e = mp.nested_type.add(name="".join(p.capitalize() for p in name.split("_")) + "Entry")
            e.options.map_entry = True
            e.field.add(name="key", number=1, type=ty[kk], label=FD.LABEL_OPTIONAL)
            v = e.field.add(name="value", number=2, type=ty[vk], label=FD.LABEL_OPTIONAL)
            if vt:
                v.type_name = f".{pkg}.{vt}"
            mp.field.add(name=name, number=num, type=FD.TYPE_MESSAGE, label=FD.LABEL_REPEATED, type_name=f".{pkg}.Deep.{e.name}")

        add_map("m_choice", 1, "string", "message", "Choice")
        mp.field.add(name="r_choice", number=2, type=FD.TYPE_MESSAGE, label=FD.LABEL_REPEATED, type_name=f".{pkg}.Choice")
        mp.field.add(name="one", number=3, type=FD.TYPE_MESSAGE, label=FD.LABEL_OPTIONAL, type_name=f".{pkg}.Choice")
        add_map("m_f", 4, "int32", "float")
        add_map("m_d", 5, "string", "double")
        mp.field.add(name="hollow", number=6, type=FD.TYPE_MESSAGE, label=FD.LABEL_OPTIONAL, type_name=f".{pkg}.Hollow")
        mp.field.add(name="r_hollow", number=7, type=FD.TYPE_MESSAGE, label=FD.LABEL_REPEATED, type_name=f".{pkg}.Hollow")
        add_map("m_hollow", 8, "string", "message", "Hollow")
        mp.field.add(name="mid", number=9, type=FD.TYPE_MESSAGE, label=FD.LABEL_OPTIONAL, type_name=f".{pkg}.Mid")
        mp.field.add(name="r_d", number=10, type=FD.TYPE_DOUBLE, label=FD.LABEL_REPEATED)
        mp.field.add(name="dur", number=11, type=FD.TYPE_MESSAGE, label=FD.LABEL_OPTIONAL, type_name=".google.protobuf.Duration")
        mp.field.add(name="ts", number=12, type=FD.TYPE_MESSAGE, label=FD.LABEL_OPTIONAL, type_name=".google.protobuf.Timestamp")
        for nm, num, w in (("rw_i64", 13, "Int64Value"), ("rw_bytes", 14, "BytesValue"), ("rw_double", 15, "DoubleValue"), ("rw_bool", 16, "BoolValue")):
            mp.field.add(name=nm, number=num, type=FD.TYPE_MESSAGE, label=FD.LABEL_REPEATED, type_name=".google.protobuf." + w)
        mp.field.add(name="w_u64", number=17, type=FD.TYPE_MESSAGE, label=FD.LABEL_OPTIONAL, type_name=".google.protobuf.UInt64Value")
        en = fdp.enum_type.add(name="Hue")
        en.options.allow_alias = True
        for nm, num in (("HUE_NONE", 0), ("HUE_RED", 1), ("HUE_BLUE", 2), ("HUE_NEG", -4), ("HUE_ROSE", 1)):
            en.value.add(name=nm, number=num)
        wp = fdp.message_type.add(name="Wide")
        wp.oneof_decl.add(name="pick")
        T, G = ".google.protobuf.", f".{pkg}."
        wp.field.add(name="r_ts", number=1, type=FD.TYPE_MESSAGE, label=FD.LABEL_REPEATED, type_name=T + "Timestamp")
        wp.field.add(name="r_dur", number=2, type=FD.TYPE_MESSAGE, label=FD.LABEL_REPEATED, type_name=T + "Duration")
        wp.field.add(name="p_ts", number=3, type=FD.TYPE_MESSAGE, label=FD.LABEL_OPTIONAL, type_name=T + "Timestamp", oneof_index=0)
        wp.field.add(name="p_dur", number=4, type=FD.TYPE_MESSAGE, label=FD.LABEL_OPTIONAL, type_name=T + "Duration", oneof_index=0)
        wp.field.add(name="p_w", number=5, type=FD.TYPE_MESSAGE, label=FD.LABEL_OPTIONAL, type_name=T + "Int32Value", oneof_index=0)
        wp.field.add(name="p_e", number=6, type=FD.TYPE_ENUM, label=FD.LABEL_OPTIONAL, type_name=G + "Hue", oneof_index=0)
        wp.field.add(name="e", number=7, type=FD.TYPE_ENUM, label=FD.LABEL_OPTIONAL, type_name=G + "Hue")
        wp.field.add(name="r_e", number=8, type=FD.TYPE_ENUM, label=FD.LABEL_REPEATED, type_name=G + "Hue")
        e9 = wp.nested_type.add(name="MEEntry")
        e9.options.map_entry = True
        e9.field.add(name="key", number=1, type=FD.TYPE_STRING, label=FD.LABEL_OPTIONAL)
        e9.field.add(name="value", number=2, type=FD.TYPE_ENUM, label=FD.LABEL_OPTIONAL, type_name=G + "Hue")
        wp.field.add(name="m_e", number=9, type=FD.TYPE_MESSAGE, label=FD.LABEL_REPEATED, type_name=G + "Wide.MEEntry")
        k = 1
        for nm, num, ty_, tn in (("o_e", 10, FD.TYPE_ENUM, G + "Hue"), ("o_leaf", 11, FD.TYPE_MESSAGE, G + "Leaf"), ("o_str", 12, FD.TYPE_STRING, None),
                                  ("o_f32", 13, FD.TYPE_FLOAT, None)):
            wp.oneof_decl.add(name="_" + nm)
            f_ = wp.field.add(name=nm, number=num, type=ty_, label=FD.LABEL_OPTIONAL, oneof_index=k, proto3_optional=True)
            if tn:
                f_.type_name = tn
            k += 1
        e14 = wp.nested_type.add(name="MI64LeafEntry")
        e14.options.map_entry = True
        e14.field.add(name="key", number=1, type=FD.TYPE_SINT64, label=FD.LABEL_OPTIONAL)
        e14.field.add(name="value", number=2, type=FD.TYPE_MESSAGE, label=FD.LABEL_OPTIONAL, type_name=G + "Leaf")
        wp.field.add(name="m_i64_leaf", number=14, type=FD.TYPE_MESSAGE, label=FD.LABEL_REPEATED, type_name=G + "Wide.MI64LeafEntry")
        e15 = wp.nested_type.add(name="MBoolStrEntry")
        e15.options.map_entry = True
        e15.field.add(name="key", number=1, type=FD.TYPE_BOOL, label=FD.LABEL_OPTIONAL)
        e15.field.add(name="value", number=2, type=FD.TYPE_STRING, label=FD.LABEL_OPTIONAL)
        wp.field.add(name="m_bool_str", number=15, type=FD.TYPE_MESSAGE, label=FD.LABEL_REPEATED, type_name=G + "Wide.MBoolStrEntry")
        wp.field.add(name="fx", number=16, type=FD.TYPE_SFIXED64, label=FD.LABEL_OPTIONAL)
        wp.field.add(name="r_fx32", number=17, type=FD.TYPE_FIXED32, label=FD.LABEL_REPEATED)
        wp.field.add(name="r_sint", number=18, type=FD.TYPE_SINT32, label=FD.LABEL_REPEATED)
        wp.oneof_decl.add(name="_o_ts")
        wp.field.add(name="o_ts", number=19, type=FD.TYPE_MESSAGE, label=FD.LABEL_OPTIONAL, type_name=T + "Timestamp", oneof_index=k, proto3_optional=True)
        wp.field.add(name="big", number=20, type=FD.TYPE_BYTES, label=FD.LABEL_OPTIONAL)
        hp = fdp.message_type.add(name="High")
        hp.oneof_decl.add(name="pick")
        hp.oneof_decl.add(name="_o2048")
        hp.field.add(name="a32", number=32, type=FD.TYPE_INT32, label=FD.LABEL_OPTIONAL)
        hp.field.add(name="s47", number=47, type=FD.TYPE_STRING, label=FD.LABEL_OPTIONAL)
        hp.field.add(name="p64", number=64, type=FD.TYPE_SINT64, label=FD.LABEL_OPTIONAL, oneof_index=0)
        hp.field.add(name="p100", number=100, type=FD.TYPE_STRING, label=FD.LABEL_OPTIONAL, oneof_index=0)
        hp.field.add(name="o2048", number=2048, type=FD.TYPE_INT32, label=FD.LABEL_OPTIONAL, oneof_index=1, proto3_optional=True)
        hp.field.add(name="r16384", number=16384, type=FD.TYPE_INT32, label=FD.LABEL_REPEATED)
        hp.field.add(name="m40", number=40, type=FD.TYPE_MESSAGE, label=FD.LABEL_OPTIONAL, type_name=f".{pkg}.Leaf")
        hp.field.add(name="rs72", number=72, type=FD.TYPE_STRING, label=FD.LABEL_REPEATED)
        hp.field.add(name="z_max", number=536870911, type=FD.TYPE_UINT32, label=FD.LABEL_OPTIONAL)
        pool = descriptor_pool.Default()
        try:
            pool.Add(fdp)
        except Exception:
            pass
        for n in list(SCHEMA) + ["Deep", "High", "Wide"]:
            _REF[n] = message_factory.GetMessageClass(pool.FindMessageTypeByName(f"{pkg}.{n}"))
    return _REF[name]


# ------------------------------------------------------------------------------------------------ observation
def fnum(x):
    """floats by repr (sign of zero, nan, inf are all visible)"""
    return "f:" + repr(x)


BLANK = (0, "", False, "b:", "f:0.0", "<absent>", None)


def view(m, role="top"):
    """Canonical observation of a message: everything the property statements talk about (selected member of every
    group, value of every readable field with unset scalars read as their defaults, presence of singular sub-messages,
    unknown bytes), recursively.  Reads the raw slots only, so observing never changes the message.
    role: top | elem (list element / map value: no presence notion) | field (singular sub-message: presence matters)"""
    meta = m._betterproto
    sel = {g: m._group_current.get(g) for g in sorted(meta.oneof_field_by_group)}
    fields = {}
    for name in meta.sorted_field_names:
        fm = meta.meta_by_field_name[name]
        if fm.group and sel.get(fm.group) != name:
            continue
        raw = m.__dict__.get(name, betterproto.PLACEHOLDER)
        if raw is betterproto.PLACEHOLDER:
            raw = m._get_field_default(name)
            if isinstance(raw, (betterproto.Message, timedelta, datetime)):
                fields[name] = "<absent>"
                continue
        fields[name] = value_view(raw, in_group=bool(fm.group) or bool(fm.optional))     # optional: present by not being None
    d = {"sel": sel, "unknown": bytes(m._unknown_fields).hex(), "fields": fields}
    if role == "field":
        blank = d["unknown"] == "" and all(v is None for v in sel.values()) and all(
            (v in BLANK if not isinstance(v, (list, dict)) else len(v) == 0) for v in fields.values())
        if blank and not betterproto.serialized_on_wire(m):
            return "<absent>"
        d["present"] = True
    return d


def value_view(v, in_group=False):
    if isinstance(v, betterproto.Message):
        return view(v, "elem" if in_group else "field")      # a selected oneof member is present by being selected
    if isinstance(v, float):
        return fnum(v)
    if isinstance(v, list):
        return [view(x, "elem") if isinstance(x, betterproto.Message) else value_view(x) for x in v]
    if isinstance(v, dict):
        return {repr(k): (view(x, "elem") if isinstance(x, betterproto.Message) else value_view(x)) for k, x in v.items()}
    if isinstance(v, timedelta):
        us = v // timedelta(microseconds=1)
        return "<absent>" if us == 0 and not in_group else "td:%d" % us     # a zero Duration field is not representable as present
    if isinstance(v, datetime):
        us = (v - EPOCH) // timedelta(microseconds=1)
        return "<absent>" if us == 0 and not in_group else "dt:%d" % us     # the instant, whatever the offset it is written in
    if isinstance(v, bytes):
        return "b:" + v.hex()
    if isinstance(v, betterproto.Enum):
        return int(v)
    return v


def obs(m):
    return view(m)


def norm(o):
    return o


def same(a, b):
    return json.dumps(view(a), sort_keys=True, default=str) == json.dumps(view(b), sort_keys=True, default=str)


def has_nan(m):
    return "f:nan" in json.dumps(view(m), default=str)


def nested_unknown(m):
    for name in m._betterproto.sorted_field_names:
        v = m.__dict__.get(name, betterproto.PLACEHOLDER)
        vs = v if isinstance(v, list) else (list(v.values()) if isinstance(v, dict) else [v])
        for x in vs:
            if isinstance(x, betterproto.Message) and (x._unknown_fields or nested_unknown(x)):
                return True
    return False


def strip_unknown(m):
    """the same message without unknown fields anywhere (done on a private object: callers pass make())"""
    object.__setattr__(m, "_unknown_fields", b"")
    for name in m._betterproto.sorted_field_names:
        v = m.__dict__.get(name, betterproto.PLACEHOLDER)
        vs = v if isinstance(v, list) else (list(v.values()) if isinstance(v, dict) else [v])
        for x in vs:
            if isinstance(x, betterproto.Message):
                strip_unknown(x)
    return m


def to_ref(m):
    r = ref(type(m).__name__)()
    for name in m._betterproto.sorted_field_names:
        v = m.__dict__.get(name, betterproto.PLACEHOLDER)
        if v is betterproto.PLACEHOLDER:
            continue
        meta = m._betterproto.meta_by_field_name[name]
        if meta.group and m._group_current.get(meta.group) != name:
            continue
        if isinstance(v, dict):
            for k, x in v.items():
                if isinstance(x, betterproto.Message):
                    getattr(r, name)[k].CopyFrom(to_ref(x))
                else:
                    getattr(r, name)[k] = int(x) if isinstance(x, betterproto.Enum) else x
        elif isinstance(v, list):
            for x in v:
                if isinstance(x, betterproto.Message):
                    getattr(r, name).add().CopyFrom(to_ref(x))
                elif meta.wraps:
                    getattr(r, name).add().value = x
                elif isinstance(x, datetime):
                    getattr(r, name).add().FromDatetime(x.astimezone(timezone.utc).replace(tzinfo=None))
                elif isinstance(x, timedelta):
                    getattr(r, name).add().FromTimedelta(x)
                else:
                    getattr(r, name).append(int(x) if isinstance(x, betterproto.Enum) else x)
        elif meta.wraps:
            if v is not None:
                getattr(r, name).value = v
        elif v is None:
            continue
        elif isinstance(v, betterproto.Enum):
            setattr(r, name, int(v))
        elif isinstance(v, betterproto.Message):
            if betterproto.serialized_on_wire(v) or meta.group or meta.optional:
                getattr(r, name).CopyFrom(to_ref(v))
        elif isinstance(v, timedelta):
            if v or meta.group or meta.optional:           # a zero Duration in a plain field is not representable as present
                getattr(r, name).FromTimedelta(v)
        elif isinstance(v, datetime):
            if v != EPOCH or meta.group or meta.optional:
                getattr(r, name).FromDatetime(v.astimezone(timezone.utc).replace(tzinfo=None))
        else:
            setattr(r, name, v)
    return r


# ------------------------------------------------------------------------------------------------ instances
def choices():
    return [("Choice()", lambda: Choice()), ("Choice(count=0)", lambda: Choice(count=0)), ("Choice(count=7)", lambda: Choice(count=7)),
            ("Choice(label='')", lambda: Choice(label="")), ("Choice(label='x')", lambda: Choice(label="x")),
            ("Choice(flag=False)", lambda: Choice(flag=False)), ("Choice(flag=True)", lambda: Choice(flag=True)),
            ("Choice(leaf=Leaf())", lambda: Choice(leaf=Leaf())), ("Choice(leaf=Leaf(n=3))", lambda: Choice(leaf=Leaf(n=3)))]


UNK = [b"", bytes.fromhex("0807"), bytes.fromhex("12026869"), bytes.fromhex("0807120268691d01000000"),
       bytes.fromhex("f8ffffff0f01"), bytes.fromhex("5a00")]


def hollows():
    return [("Hollow()", lambda: Hollow())] + [("Hollow().parse(%s)" % u.hex(), lambda u=u: Hollow().parse(u)) for u in UNK[1:]]


def _tz(h, m=0):
    return timezone((1 if h >= 0 else -1) * timedelta(hours=abs(h), minutes=m))


TIMES = [("epoch", EPOCH), ("epoch+1us", EPOCH + timedelta(microseconds=1)), ("epoch-1us", EPOCH - timedelta(microseconds=1)),
         ("1970-01-01T00:00+05:30 (wall clock reads as the epoch)", datetime(1970, 1, 1, tzinfo=_tz(5, 30))),
         ("1970-01-01T00:00-08:00", datetime(1970, 1, 1, tzinfo=_tz(-8))), ("1969-12-31T19:00-05:00 (the epoch instant)", datetime(1969, 12, 31, 19, tzinfo=_tz(-5))),
         ("2020-02-29T12:34:56.789+05:30", datetime(2020, 2, 29, 12, 34, 56, 789000, tzinfo=_tz(5, 30))),
         ("0001-01-01", datetime(1, 1, 1, tzinfo=timezone.utc)), ("0999-12-31T23:59:59.123456", datetime(999, 12, 31, 23, 59, 59, 123456, tzinfo=timezone.utc)),
         ("9999-12-31T23:59:59.999999", datetime(9999, 12, 31, 23, 59, 59, 999999, tzinfo=timezone.utc)),
         ("1960-06-15T01:02:03.25-08:00", datetime(1960, 6, 15, 1, 2, 3, 250000, tzinfo=_tz(-8)))]


def scale_instances():
    """sizes beyond what small examples reach: payload lengths that need 3-byte length prefixes and exceed 64 KiB, element
    counts beyond 127 and 16383, a few hundred map entries / repeated messages"""
    return [
        ("Deep(mid=Mid(name='n'*70000))", lambda: Deep(mid=Mid(name="n" * 70000))),
        ("Deep(r_d=[1.5]*9000)", lambda: Deep(r_d=[1.5] * 9000)),
        ("Deep(rw_bytes=[b'\\xab'*70000, b''])", lambda: Deep(rw_bytes=[b"\xab" * 70000, b""])),
        ("Deep(r_choice=[Choice(count=i) for i in range(300)])", lambda: Deep(r_choice=[Choice(count=i) for i in range(300)])),
        ("Deep(m_choice={str(i): Choice(label=str(i)) for i in range(200)})", lambda: Deep(m_choice={str(i): Choice(label=str(i)) for i in range(200)})),
        ("Deep(m_f={i: i/4 for i in range(-150, 150)})", lambda: Deep(m_f={i: i / 4 for i in range(-150, 150)})),
        ("Wide(big=bytes(range(256))*300)", lambda: Wide(big=bytes(range(256)) * 300)),
        ("Wide(big=b'\\x00'*16384)", lambda: Wide(big=b"\x00" * 16384)),
        ("Wide(r_sint=list(range(-9000, 9000)))", lambda: Wide(r_sint=list(range(-9000, 9000)))),
        ("Wide(r_fx32=[2**32-1]*17000)", lambda: Wide(r_fx32=[2**32 - 1] * 17000)),
        ("Wide(o_str='\\u00e9'*40000)", lambda: Wide(o_str="\u00e9" * 40000)),
        ("Wide(m_i64_leaf={i*2**40: Leaf(n=i) for i in range(-130, 130)})", lambda: Wide(m_i64_leaf={i * 2**40: Leaf(n=i) for i in range(-130, 130)})),
    ] + [
        # payload lengths on both sides of the 2-/3-byte and 3-/4-byte length-prefix boundaries, low and high field number
        (f"Wide(big=b'x'*{n})", lambda n=n: Wide(big=b"x" * n)) for n in (16381, 16382, 16383, 16385, 2097150, 2097151, 2097152)
    ] + [
        (f"High(rs72=['y'*{n}])", lambda n=n: High(rs72=["y" * n])) for n in (16382, 16383, 2097151)
    ] + [
        (f"Deep(r_d=[0.5]*{n})", lambda n=n: Deep(r_d=[0.5] * n)) for n in (2047, 2048)       # packed payload 16376 / 16384 bytes
    ]


def truncation_at_scale(col, prop):
    """C10 / C17: a message whose whole encoding is ONE large field, cut anywhere strictly inside: the decoder raises (never
    a shortened or padded message); the same for the delimited frame.  Cut points: around every length-prefix and
    buffer-size boundary and a seeded sample in between"""
    rnd = random.Random(20261005)
    singles = [(h, mk) for h, mk in scale_instances() if h.startswith(("Deep(mid=Mid(name", "Deep(r_d=", "Wide(big=bytes", "Wide(r_fx32", "Wide(o_str"))]
    for how0, mk in singles:
        m = mk()
        b = bytes(m)
        frame = io.BytesIO()
        m.dump(frame, betterproto.SIZE_DELIMITED)
        frame = frame.getvalue()
        for label, data, dec in (("parse", b, lambda d: type(m)().parse(d)), ("load-size-delimited", frame, lambda d: type(m)().load(io.BytesIO(d), betterproto.SIZE_DELIMITED))):
            if (label == "parse") != (prop == "C17") and prop in ("C10", "C17"):
                continue
            cuts = {1, 2, 3, 4, 5, 127, 128, 129, 130, 4095, 4096, 4097, 8191, 8192, 8193, 16383, 16384, 16385, 32768, 65535, 65536, 65537, 65538, 65540,
                    len(data) - 1, len(data) - 2, len(data) - 3, len(data) // 2}
            cuts |= {rnd.randrange(1, len(data)) for _ in range(25)}
            for cut in sorted(c for c in cuts if 0 < c < len(data)):
                how = f"{how0}: {label} of the first {cut} of {len(data)} bytes"
                col.cases += 1
                col.distinct.add(how0 + label)
                try:
                    got = dec(data[:cut])
                except Exception:
                    continue
                col.fail("truncated-large-field-accepted", how, f"returned a message encoding to {len(bytes(got))} bytes")


def wide_instances():
    T1, T2 = EPOCH + timedelta(seconds=1, microseconds=5), datetime(1960, 6, 15, 1, 2, 3, 250000, tzinfo=_tz(-8))
    D1, D2 = timedelta(microseconds=-500000), timedelta(days=400, microseconds=1)
    und = lambda n: Hue.try_value(n)
    out = [("Wide()", lambda: Wide())]
    singles = [
        ("r_ts=[T1, EPOCH, T2]", lambda: Wide(r_ts=[T1, EPOCH, T2])), ("r_dur=[D1, 0, D2]", lambda: Wide(r_dur=[D1, timedelta(0), D2])),
        ("p_ts=EPOCH", lambda: Wide(p_ts=EPOCH)), ("p_ts=T2", lambda: Wide(p_ts=T2)), ("p_dur=0", lambda: Wide(p_dur=timedelta(0))), ("p_dur=D1", lambda: Wide(p_dur=D1)),
        ("p_w=0", lambda: Wide(p_w=0)), ("p_w=-7", lambda: Wide(p_w=-7)), ("p_e=HUE_NONE", lambda: Wide(p_e=Hue.HUE_NONE)), ("p_e=HUE_NEG", lambda: Wide(p_e=Hue.HUE_NEG)),
        ("p_e=undefined 9", lambda: Wide(p_e=und(9))), ("e=HUE_ROSE", lambda: Wide(e=Hue.HUE_ROSE)), ("e=HUE_NEG", lambda: Wide(e=Hue.HUE_NEG)), ("e=undefined -9", lambda: Wide(e=und(-9))),
        ("e=7 (plain int)", lambda: Wide(e=7)), ("r_e=[NONE, RED, NEG, undefined 9]", lambda: Wide(r_e=[Hue.HUE_NONE, Hue.HUE_RED, Hue.HUE_NEG, und(9)])),
        ("m_e={'': NONE, 'a': BLUE, 'u': undefined 12}", lambda: Wide(m_e={"": Hue.HUE_NONE, "a": Hue.HUE_BLUE, "u": und(12)})),
        ("o_e=HUE_NONE", lambda: Wide(o_e=Hue.HUE_NONE)), ("o_e=HUE_BLUE", lambda: Wide(o_e=Hue.HUE_BLUE)), ("o_leaf=Leaf()", lambda: Wide(o_leaf=Leaf())),
        ("o_leaf=Leaf(n=4)", lambda: Wide(o_leaf=Leaf(n=4))), ("o_str=''", lambda: Wide(o_str="")), ("o_str='s'", lambda: Wide(o_str="s")), ("o_f32=0.0", lambda: Wide(o_f32=0.0)),
        ("o_f32=-0.0", lambda: Wide(o_f32=-0.0)), ("o_f32=1.5", lambda: Wide(o_f32=1.5)), ("m_i64_leaf={0: Leaf(), -64: Leaf(n=1), 2**62: Leaf(n=-1)}", lambda: Wide(m_i64_leaf={0: Leaf(), -64: Leaf(n=1), 2**62: Leaf(n=-1)})),
        ("m_bool_str={False: '', True: 't'}", lambda: Wide(m_bool_str={False: "", True: "t"})), ("fx=-2**63", lambda: Wide(fx=-2**63)), ("fx=2**63-1", lambda: Wide(fx=2**63 - 1)),
        ("r_fx32=[0, 2**32-1]", lambda: Wide(r_fx32=[0, 2**32 - 1])), ("r_sint=[-64, 63, -2**31, 2**31-1]", lambda: Wide(r_sint=[-64, 63, -2**31, 2**31 - 1])),
        ("o_ts=EPOCH", lambda: Wide(o_ts=EPOCH)), ("o_ts=T1", lambda: Wide(o_ts=T1)), ("big=127 bytes", lambda: Wide(big=b"\x01" * 127)), ("big=128 bytes", lambda: Wide(big=b"\x01" * 128)),
        ("big=16384 bytes", lambda: Wide(big=b"\x02" * 16384)),
    ]
    out += [("Wide(%s)" % t, f) for t, f in singles]
    out.append(("Wide(several)", lambda: Wide(r_ts=[T1], p_e=Hue.HUE_BLUE, e=Hue.HUE_RED, r_e=[Hue.HUE_BLUE], o_e=Hue.HUE_NONE, o_leaf=Leaf(n=2), o_str="", m_bool_str={True: ""}, fx=5, big=b"z")))
    return out


def history_instances(rnd, n):
    """messages reached by seeded random operation histories on a Deep (assignments at every depth, in-place container
    changes, reads, observers, decode-merges); the factory replays the recorded history on a fresh message"""
    ops = [
        ("m.mid.name = 'h'", lambda m: setattr(m.mid, "name", "h")), ("m.mid.name = ''", lambda m: setattr(m.mid, "name", "")),
        ("m.mid.leaf = Leaf(n=2)", lambda m: setattr(m.mid, "leaf", Leaf(n=2))), ("m.mid = Mid()", lambda m: setattr(m, "mid", Mid())),
        ("m.one = Choice(count=0)", lambda m: setattr(m, "one", Choice(count=0))), ("m.one.label = 'L'", lambda m: setattr(m.one, "label", "L")),
        ("m.one.flag = False", lambda m: setattr(m.one, "flag", False)), ("m.one.leaf = Leaf()", lambda m: setattr(m.one, "leaf", Leaf())),
        ("m.r_d.append(1.5)", lambda m: m.r_d.append(1.5)), ("m.r_d.clear()", lambda m: m.r_d.clear()), ("m.r_d = [0.0]", lambda m: setattr(m, "r_d", [0.0])),
        ("m.r_choice.append(Choice(flag=True))", lambda m: m.r_choice.append(Choice(flag=True))), ("m.r_choice.append(Choice())", lambda m: m.r_choice.append(Choice())),
        ("m.m_choice['k'] = Choice(label='')", lambda m: m.m_choice.__setitem__("k", Choice(label=""))), ("m.m_choice.pop('k', None)", lambda m: m.m_choice.pop("k", None)),
        ("m.m_d['x'] = -0.0", lambda m: m.m_d.__setitem__("x", -0.0)), ("m.m_f[3] = 1.5", lambda m: m.m_f.__setitem__(3, 1.5)),
        ("m.hollow = Hollow()", lambda m: setattr(m, "hollow", Hollow())), ("m.dur = 1.5s", lambda m: setattr(m, "dur", timedelta(seconds=1, microseconds=500000))),
        ("m.ts = EPOCH + 1s", lambda m: setattr(m, "ts", EPOCH + timedelta(seconds=1))), ("m.rw_i64.append(0)", lambda m: m.rw_i64.append(0)),
        ("m.w_u64 = 0", lambda m: setattr(m, "w_u64", 0)), ("m.w_u64 = None", lambda m: setattr(m, "w_u64", None)),
        ("read m.mid.leaf.n", lambda m: m.mid.leaf.n), ("read m.one", lambda m: m.one), ("len(m)", lambda m: len(m)), ("bytes(m)", lambda m: bytes(m)),
        ("m.to_dict()", lambda m: m.to_dict()), ("m == Deep()", lambda m: m == Deep()), ("repr(m)", lambda m: repr(m)),
        ("m.parse(r_d += [2.5])", lambda m: m.parse(bytes.fromhex("52080000000000000440"))), ("m.parse(one.count = 9)", lambda m: m.parse(bytes.fromhex("1a020809"))),
        ("m.parse(unknown 30)", lambda m: m.parse(bytes.fromhex("f00107"))), ("m.parse(mid.name='p')", lambda m: m.parse(bytes.fromhex("4a03120170"))),
    ]
    out = []
    for _ in range(n):
        hist = [rnd.choice(ops) for _ in range(rnd.randint(2, 7))]

        def make(hist=hist):
            m = Deep()
            for _, f in hist:
                f(m)
            return m
        out.append(("Deep(); " + "; ".join(t for t, _ in hist), make))
    return out


def instances(rnd, n):
    """(text, factory) pairs: every single-feature instance, then seeded random combinations"""
    out = [("Deep()", lambda: Deep())]
    for t, f in choices():
        out.append((f"Deep(one={t})", lambda f=f: Deep(one=f())))
        out.append((f"Deep(r_choice=[{t}])", lambda f=f: Deep(r_choice=[f()])))
        out.append((f"Deep(m_choice={{'k': {t}}})", lambda f=f: Deep(m_choice={"k": f()})))
        out.append((f"Deep(mid=Mid(pick={t}))", lambda f=f: Deep(mid=Mid(pick=f()))))
    # several members of one group handed to the constructor (the last one in field order is the selected one; the
    # earlier values stay behind in their slots, unselected)
    out.append(("Deep(one=Choice(count=300, label='hello'))", lambda: Deep(one=Choice(count=300, label="hello"))))
    out.append(("Deep(r_choice=[Choice(count=1, flag=True, leaf=Leaf(n=2))])", lambda: Deep(r_choice=[Choice(count=1, flag=True, leaf=Leaf(n=2))])))
    out.append(("Deep(mid=Mid(pick=Choice(label='a', count=0)))", lambda: Deep(mid=Mid(pick=Choice(label="a", count=0)))))
    out.append(("Deep(m_choice={'k': Choice(count=7, label='', flag=False)})", lambda: Deep(m_choice={"k": Choice(count=7, label="", flag=False)})))
    out.append(("Deep(r_choice=[Choice(count=0), Choice(), Choice(label='')])", lambda: Deep(r_choice=[Choice(count=0), Choice(), Choice(label="")])))
    out.append(("Deep(m_choice={'': Choice(flag=False), 'b': Choice(count=1)})", lambda: Deep(m_choice={"": Choice(flag=False), "b": Choice(count=1)})))
    for t, f in hollows():
        out.append((f"Deep(hollow={t})", lambda f=f: Deep(hollow=f())))
        out.append((f"Deep(r_hollow=[{t}, Hollow()])", lambda f=f: Deep(r_hollow=[f(), Hollow()])))
        out.append((f"Deep(m_hollow={{'h': {t}}})", lambda f=f: Deep(m_hollow={"h": f()})))
    for v in (0.0, -0.0, 1.5, float("inf"), float("-inf"), float("nan"), 3.4028234663852886e38):
        out.append((f"Deep(m_f={{0: {v!r}, 5: {v!r}}})", lambda v=v: Deep(m_f={0: v, 5: v})))
        out.append((f"Deep(m_d={{'': {v!r}, 'x': {v!r}}})", lambda v=v: Deep(m_d={"": v, "x": v})))
        out.append((f"Deep(r_d=[{v!r}])", lambda v=v: Deep(r_d=[v])))
    out.append(("Deep(r_d=[1.5]*17)", lambda: Deep(r_d=[1.5] * 17)))
    out.append(("Deep(mid=Mid())", lambda: Deep(mid=Mid())))
    out.append(("Deep(mid=Mid(leaf=Leaf()))", lambda: Deep(mid=Mid(leaf=Leaf()))))
    out.append(("Deep(mid=Mid(leaf=Leaf(n=0)))", lambda: Deep(mid=Mid(leaf=Leaf(n=0)))))
    out.append(("Deep(mid=Mid(name='a', leaf=Leaf(n=2)))", lambda: Deep(mid=Mid(name="a", leaf=Leaf(n=2)))))
    out.append(("Deep().parse(mid present and empty)", lambda: Deep().parse(bytes.fromhex("4a00"))))
    out.append(("Deep().parse(mid.leaf present and empty)", lambda: Deep().parse(bytes.fromhex("4a020a00"))))
    out.append(("Deep().parse(one present and empty)", lambda: Deep().parse(bytes.fromhex("1a00"))))
    out.append(("Deep().parse(only unknown fields)", lambda: Deep().parse(bytes.fromhex("f00107fa01026869"))))
    for us in (0, 1, -1, 500000, -500000, -999999, 1500000, -1500000, 315576000000 * 10**6, -315576000000 * 10**6):
        out.append((f"Deep(dur=timedelta(microseconds={us}))", lambda us=us: Deep(dur=timedelta(microseconds=us))))
    for label, dt in TIMES:
        out.append((f"Deep(ts={label})", lambda dt=dt: Deep(ts=dt)))
    out.append(("Deep(rw_i64=[0, 2**63-1, -2**63, 7])", lambda: Deep(rw_i64=[0, 2**63 - 1, -2**63, 7])))
    out.append(("Deep(rw_i64=[0])", lambda: Deep(rw_i64=[0])))
    out.append(("Deep(rw_bytes=[b'', b'\\x00\\xff'])", lambda: Deep(rw_bytes=[b"", b"\x00\xff"])))
    out.append(("Deep(rw_double=[0.0, 1.5, inf, -inf])", lambda: Deep(rw_double=[0.0, 1.5, float("inf"), float("-inf")])))
    out.append(("Deep(rw_double=[nan])", lambda: Deep(rw_double=[float("nan")])))
    out.append(("Deep(rw_bool=[False, True, False])", lambda: Deep(rw_bool=[False, True, False])))
    out.append(("Deep(w_u64=0)", lambda: Deep(w_u64=0)))
    out.append(("Deep(w_u64=2**64-1)", lambda: Deep(w_u64=2**64 - 1)))
    out.append(("Deep().parse(rw_i64 = [default element, 7])", lambda: Deep().parse(bytes.fromhex("6a006a020807"))))
    # the small classes on their own (top level): every choice, several members at once, one-member groups
    for t, f in choices()[1:]:
        out.append((t, f))
    out.append(("Choice(count=300, label='hello')", lambda: Choice(count=300, label="hello")))
    out.append(("Choice(count=1, flag=True, leaf=Leaf(n=2))", lambda: Choice(count=1, flag=True, leaf=Leaf(n=2))))
    out.append(("Choice(label='', count=0)", lambda: Choice(label="", count=0)))
    out.append(("copy.deepcopy(Choice(count=300, label='hello'))", lambda: copy.deepcopy(Choice(count=300, label="hello"))))
    for t, f in (("Solo()", lambda: Solo()), ("Solo(only=0)", lambda: Solo(only=0)), ("Solo(only=5, word='')", lambda: Solo(only=5, word="")),
                 ("Solo(word='w', plain=3)", lambda: Solo(word="w", plain=3)), ("Solo(sub=Leaf())", lambda: Solo(sub=Leaf())),
                 ("s = Solo(); s.only = 0", lambda: _assign(Solo(), "only", 0)), ("s = Solo(); s.word = 'x'", lambda: _assign(Solo(), "word", "x")),
                 ("s = Solo(); s.sub = Leaf(n=1)", lambda: _assign(Solo(), "sub", Leaf(n=1))),
                 ("Solo().parse(only=0, word='')", lambda: Solo().parse(bytes.fromhex("08001200"))), ("Solo().from_dict({'only': 0})", lambda: Solo().from_dict({"only": 0})),
                 ("Solo.from_dict({'word': 'x', 'plain': 2})", lambda: Solo.from_dict({"word": "x", "plain": 2}))):
        out.append((t, f))
    out += wide_instances()
    out += scale_instances()
    out += history_instances(rnd, max(20, n // 5))
    base = list(out)
    while len(out) < n:
        parts = [rnd.choice(base) for _ in range(rnd.randint(2, 4))]

        def make(parts=parts):
            m = Deep()
            for _, f in parts:
                src = f()
                if not isinstance(src, Deep):
                    continue
                for name in src._betterproto.sorted_field_names:
                    v = src.__dict__.get(name, betterproto.PLACEHOLDER)
                    if v is not betterproto.PLACEHOLDER:
                        setattr(m, name, v)
                m._unknown_fields += src._unknown_fields
            return m
        out.append(("merge of [" + "; ".join(t for t, _ in parts) + "]", make))
    return out[:max(n, len(base))]


# ------------------------------------------------------------------------------------------------ relations
class Col:
    def __init__(self, prop):
        self.prop = prop
        self.cases = 0
        self.fails = []
        self.seen = set()
        self.distinct = set()
        self.samples = []

    def fail(self, key, how, detail):
        k = f"{self.prop}:deep:{key}"
        if (k, how) in self.seen:
            return
        self.seen.add((k, how))
        if sum(1 for f in self.fails if f["match"] == k) < 3:
            self.fails.append({"match": k, "class": "Deep", "how": how, "detail": str(detail)[:500]})


def guard(col, key, how, fn):
    try:
        return fn()
    except Exception as e:  # noqa
        col.fail(key + ":raises:" + type(e).__name__, how, "".join(traceback.format_exception_only(type(e), e)).strip())
        return None


def rel_C01(col, how, make):
    m = make()
    b = guard(col, "encode", how, lambda: bytes(m))
    if b is None:
        return
    back = guard(col, "decode", how, lambda: type(m)().parse(b))
    if back is None:
        return
    if not same(back, make()):
        col.fail("roundtrip-changes-observable-state", how, f"bytes={b.hex()} decoded={norm(obs(back))} original={norm(obs(make()))}")
    if bytes(back) != b:
        col.fail("re-encode-differs", how, f"{b.hex()} -> {bytes(back).hex()}")


def rel_C02(col, how, make):
    m = make()
    if m._unknown_fields or nested_unknown(m):
        return rel_C01(col, how, make)      # the field-wise conversion to the reference cannot carry unknown bytes
    try:
        r = to_ref(m)
    except Exception as e:   # values the reference refuses are outside the comparison
        return
    rb = r.SerializeToString(deterministic=True)
    b = guard(col, "encode", how, lambda: bytes(m))
    if b is None:
        return
    r2 = ref(type(m).__name__)()
    try:
        r2.ParseFromString(b)
    except Exception as e:
        col.fail("reference-rejects-our-bytes", how, f"{b.hex()}: {e}")
        return
    if r2.SerializeToString(deterministic=True) != rb and not has_nan(m):
        col.fail("reference-decodes-our-bytes-differently", how, f"ours={b.hex()} reference={rb.hex()}")
    back = guard(col, "decode-reference-bytes", how, lambda: type(m)().parse(rb))
    if back is not None and not same(back, make()):
        col.fail("we-decode-reference-bytes-differently", how, f"reference bytes {rb.hex()} -> {norm(obs(back))} expected {norm(obs(make()))}")


def rel_C09(col, how, make):
    m = make()
    b = guard(col, "encode", how, lambda: bytes(m))
    if b is None:
        return
    n = guard(col, "len", how, lambda: len(m))
    if n is not None and n != len(b):
        col.fail("len-differs-from-encoding", how, f"len(m)={n} len(bytes(m))={len(b)}")
    s = io.BytesIO()
    guard(col, "dump", how, lambda: m.dump(s, betterproto.SIZE_DELIMITED))
    exp = bytes(betterproto.encode_varint(len(b))) + b
    if s.getvalue() != exp:
        col.fail("delimited-dump-differs", how, f"{s.getvalue().hex()} expected {exp.hex()}")
    # the size is a function of the current state: measure, change the message in place (through containers and
    # nested objects, i.e. without assigning a field of m itself), measure again
    if not isinstance(m, Deep):
        return
    steps = [("r_d.append", lambda: m.r_d.append(2.5)), ("m_d[k]=", lambda: m.m_d.__setitem__("zz", 1.5)),
             ("mid.leaf.n=", lambda: setattr(m.mid.leaf, "n", 300)), ("r_choice.append", lambda: m.r_choice.append(Choice(label="x" * 130))),
             ("m_choice[k]=", lambda: m.m_choice.__setitem__("q", Choice(count=7))), ("parse-merge", lambda: m.parse(bytes.fromhex("52080000000000000440"))),
             ("r_d.clear", lambda: m.r_d.clear())]
    for label, step in steps:
        if guard(col, "mutate-" + label, how, lambda: (step(), True)[1]) is None:
            return
        n2 = guard(col, "len-after-" + label, how, lambda: len(m))
        b2 = guard(col, "encode-after-" + label, how, lambda: bytes(m))
        if n2 is None or b2 is None:
            return
        if n2 != len(b2):
            col.fail("len-stale-after-in-place-change", how + " then " + label, f"len(m)={n2} len(bytes(m))={len(b2)}")
            return
        s2 = io.BytesIO()
        m.dump(s2, betterproto.SIZE_DELIMITED)
        if s2.getvalue() != bytes(betterproto.encode_varint(len(b2))) + b2:
            col.fail("delimited-prefix-stale-after-in-place-change", how + " then " + label, s2.getvalue().hex()[:80])
            return


def rel_C08(col, how, make):
    m = make()
    b = guard(col, "encode", how, lambda: bytes(m))
    if b is None:
        return
    back = guard(col, "decode", how, lambda: type(m)().parse(b))
    if back is None:
        return
    if bytes(back) != b:
        col.fail("unknown-bytes-not-kept-verbatim", how, f"{b.hex()} -> {bytes(back).hex()}")
    # "encoded again" through every writer the API offers: a relay that re-frames the decoded message for a delimited
    # stream must write the same bytes behind the right length, and a reader of that stream gets them back
    def delimited():
        s = io.BytesIO()
        back.dump(s, betterproto.SIZE_DELIMITED)
        return s.getvalue()
    def plain_dump():
        s = io.BytesIO()
        back.dump(s)
        return s.getvalue()
    for wname, fn, expect in (("SerializeToString", lambda: back.SerializeToString(), b), ("dump", plain_dump, b),
                              ("dump-size-delimited", delimited, betterproto.encode_varint(len(b)) + b)):
        w = guard(col, wname, how, fn)
        if w is not None and w != expect and bytes(back) == b:
            col.fail("unknown-bytes-not-kept-by-writer:" + wname, how, f"expected {expect.hex()} wrote {w.hex()}")
        if w is not None and wname == "dump-size-delimited" and w == expect:
            again = guard(col, "load-size-delimited", how, lambda: type(m)().load(io.BytesIO(w), betterproto.SIZE_DELIMITED))
            if again is not None and bytes(again) != b:
                col.fail("unknown-bytes-lost-through-delimited-relay", how, f"{b.hex()} -> {bytes(again).hex()}")
    # the same message as the reference encodes it (it keeps unknown fields of nested messages too): decoding and
    # re-encoding those bytes must be invisible to the reference
    def refnorm(x):
        r = ref(type(m).__name__)()
        r.ParseFromString(x)
        return r.SerializeToString(deterministic=True)
    try:
        rb = refnorm(b)
    except Exception:
        return
    back2 = guard(col, "decode-reference-bytes", how, lambda: type(m)().parse(rb))
    if back2 is not None:
        try:
            again = refnorm(bytes(back2))
        except Exception as e:
            col.fail("reference-rejects-our-re-encoding", how, f"{bytes(back2).hex()}: {e}")
            return
        if again != rb:
            col.fail("bytes-lost-against-reference", how, f"reference {rb.hex()} after our decode/encode {again.hex()}")


def rel_C06(col, how, make):
    """reading never creates presence: after reading every field two levels deep the message encodes as before"""
    m = make()
    before = guard(col, "encode", how, lambda: bytes(make()))
    o0 = norm(obs(make()))
    if before is None:
        return

    def reads():
        for name in m._betterproto.sorted_field_names:
            try:
                v = getattr(m, name)
            except AttributeError:
                continue            # an unselected oneof member
            if isinstance(v, betterproto.Message):
                for n2 in v._betterproto.sorted_field_names:
                    try:
                        w = getattr(v, n2)
                    except AttributeError:
                        continue
                    if isinstance(w, betterproto.Message):
                        for n3 in w._betterproto.sorted_field_names:
                            try:
                                getattr(w, n3)
                            except AttributeError:
                                pass
    if guard(col, "read", how, reads) is None and col.fails and col.fails[-1]["how"] == how:
        return
    after = guard(col, "encode-after-reads", how, lambda: bytes(m))
    if after is not None and after != before:
        col.fail("reads-change-the-encoding", how, f"{before.hex()} -> {after.hex()}")
    if norm(obs(m)) != o0:
        col.fail("reads-change-presence", how, f"{o0} -> {norm(obs(m))}")
    d0 = guard(col, "to_dict", how, lambda: make().to_dict())
    d1 = guard(col, "to_dict-after-reads", how, lambda: m.to_dict())
    if d0 is not None and d1 is not None and json.dumps(d0, sort_keys=True, default=str) != json.dumps(d1, sort_keys=True, default=str):
        col.fail("reads-change-to_dict", how, f"{d0} -> {d1}")


def defaults_check(col):
    """C06: an unset field reads as the default of its declared kind (derived here from the dataclass annotation, not
    from the library's own default table): [] for repeated, {} for maps, None for proto3-optional and wrapper fields,
    the zero value for scalars, a message that is not present for message fields - and reading it creates no presence"""
    import typing
    zero = {int: 0, str: "", bool: False, bytes: b"", float: 0.0}
    for cls in (Deep, High, Mid, Choice, Leaf):
        hints = typing.get_type_hints(cls, globals())
        for name, hint in hints.items():
            if name.startswith("_"):
                continue
            how = f"{cls.__name__}().{name}"
            col.cases += 1
            col.distinct.add(how)
            m = cls()
            meta = m._betterproto.meta_by_field_name.get(name)
            if meta is None:
                continue
            try:
                got = getattr(m, name)
            except AttributeError:
                if meta.group:
                    continue            # an unset oneof member is not readable: that is C07's business
                col.fail("unset-field-not-readable", how, "AttributeError")
                continue
            origin = typing.get_origin(hint)
            if origin in (list, typing.List):
                exp, ok = [], (got == [] and isinstance(got, list))
            elif origin in (dict, typing.Dict):
                exp, ok = {}, (got == {} and isinstance(got, dict))
            elif origin is typing.Union:
                exp, ok = None, got is None
            elif hint in zero:
                exp, ok = zero[hint], (got == zero[hint] and type(got) is type(zero[hint]))
            elif isinstance(hint, type) and issubclass(hint, betterproto.Message):
                exp, ok = "an absent message", (isinstance(got, hint) and not betterproto.serialized_on_wire(got) and bytes(got) == b"")
            elif hint is timedelta:
                exp, ok = timedelta(0), got == timedelta(0)
            elif hint is datetime:
                exp, ok = EPOCH, got == EPOCH
            else:
                continue
            if not ok:
                col.fail("unset-field-does-not-read-as-its-default", how, f"got {got!r}, expected {exp!r}")
            if bytes(m) != b"":
                col.fail("reading-an-unset-field-creates-presence", how, bytes(m).hex())


def assign_histories(col):
    """C06: assigning inside a sub-message makes it present - also when the value assigned is the default, also when
    the slot was read before (reads materialise defaults lazily); the reference performs the same assignments"""
    paths = [(("mid",), "name", ""), (("mid",), "name", "x"), (("mid", "leaf"), "n", 0), (("mid", "leaf"), "n", 5),
             (("one",), "count", 0), (("one",), "label", ""), (("mid", "pick"), "flag", False)]
    for path, field, value in paths:
        for read_first in (False, True):
            for twice in (False, True):
                how = "Deep(); %s%s.%s = %r%s" % ("read %s.%s; " % (".".join(path), field) if read_first else "", ".".join(path), field, value,
                                                   " (assigned twice)" if twice else "")
                col.cases += 1
                col.distinct.add(how)

                def run():
                    m, r = Deep(), ref("Deep")()
                    om, orr = m, r
                    for p in path:
                        om, orr = getattr(om, p), getattr(orr, p)
                    if read_first:
                        try:
                            getattr(om, field)
                        except AttributeError:
                            pass
                    for _ in range(2 if twice else 1):
                        setattr(om, field, value)
                        setattr(orr, field, value)
                    return m, r
                got = guard(col, "assign", how, run)
                if got is None:
                    continue
                m, r = got
                rb = r.SerializeToString(deterministic=True)
                b = guard(col, "encode", how, lambda: bytes(m))
                vclass = "default-value" if value in (0, "", False) else "non-default-value"
                if b is not None and b != rb:
                    col.fail("assignment-inside-does-not-create-presence-like-the-reference:%d-level:%s" % (len(path), vclass), how, f"ours {b.hex()} reference {rb.hex()}")
                top = getattr(m, path[0])
                if not betterproto.serialized_on_wire(top):
                    col.fail("assigned-inside-but-not-present:%d-level:%s" % (len(path), vclass), how, f"serialized_on_wire(m.{path[0]}) is False")


def declaration_styles(col):
    """a oneof declared in the optional=True + group style behaves like the plain declaration: for every member x
    {default, non-default} x every way of setting it, the member is the selected one, the encoding is the reference's,
    len agrees, and it survives a decode and a JSON round trip"""
    for label, mk in choices()[1:]:
        src = mk()
        member, value = betterproto.which_one_of(src, "pick")
        rb = to_ref(src).SerializeToString(deterministic=True)
        ways = [("PChoice(%s=...)" % member, lambda: PChoice(**{member: value})),
                ("p = PChoice(); p.%s = ..." % member, lambda: _assign(PChoice(), member, value)),
                ("PChoice().parse(reference bytes)", lambda: PChoice().parse(rb)),
                ("PChoice().from_dict(...)", lambda: PChoice().from_dict(src.to_dict())),
                ("PChoice.from_dict(...)", lambda: PChoice.from_dict(src.to_dict())),
                ("PChoice().from_json(...)", lambda: PChoice().from_json(src.to_json())),
                ("copy.deepcopy(PChoice(%s=...))" % member, lambda: copy.deepcopy(PChoice(**{member: value})))]
        for wname, way in ways:
            how = f"{wname} with the value of {label}"
            col.cases += 1
            col.distinct.add(how)
            p = guard(col, "build", how, way)
            if p is None:
                continue
            sel = guard(col, "which_one_of", how, lambda: betterproto.which_one_of(p, "pick"))
            if sel is None:
                continue
            if sel[0] != member:
                col.fail("optional-style-oneof-member-not-selected", how, f"which_one_of={sel!r}, expected {member!r}")
            b = guard(col, "encode", how, lambda: bytes(p))
            if b is None:
                continue
            if b != rb:
                col.fail("optional-style-oneof-encoding-differs-from-reference", how, f"ours {b.hex()} reference {rb.hex()}")
            n = guard(col, "len", how, lambda: len(p))
            if n is not None and n != len(b):
                col.fail("optional-style-oneof-len-differs", how, f"len={n} len(bytes)={len(b)}")
            back = guard(col, "decode", how, lambda: PChoice().parse(b))
            if back is not None and b == rb and betterproto.which_one_of(back, "pick")[0] != member:
                col.fail("optional-style-oneof-lost-by-decode", how, f"{betterproto.which_one_of(back, 'pick')!r}")
            d = guard(col, "to_dict", how, lambda: p.to_dict())
            if d is not None and b == rb and list(d) != [member]:
                col.fail("optional-style-oneof-json-members", how, f"to_dict={d} expected only {member!r}")
            if d is not None and b == rb:
                j = guard(col, "from_dict", how, lambda: PChoice().from_dict(d))
                if j is not None and bytes(j) != rb:
                    col.fail("optional-style-oneof-json-round-trip", how, f"{rb.hex()} -> {bytes(j).hex()}")


def _assign(m, name, value):
    setattr(m, name, value)
    return m


def failed_decode_states(col):
    """histories that contain a decode which RAISES: afterwards the message is in the state before the decode or in the
    state after decoding some prefix of the input's fields (nothing else is a state any sequence of operations produced);
    whatever that state is, it is a coherent one (the selected member reads, the others raise, the encoding carries it)"""
    bad_tails = [("a truncated string field", bytes.fromhex("12056162")), ("invalid UTF-8 in a string field", bytes.fromhex("1202fffe")),
                 ("field number 0", bytes.fromhex("0001")), ("a truncated varint", bytes.fromhex("0880")), ("a truncated sub-message", bytes.fromhex("22050801"))]
    bases = [("Choice()", lambda: Choice()), ("Choice(count=5)", lambda: Choice(count=5)), ("Choice(label='keep')", lambda: Choice(label="keep")),
             ("Choice(leaf=Leaf(n=2))", lambda: Choice(leaf=Leaf(n=2))), ("Choice().parse(unknown 9)", lambda: Choice().parse(bytes.fromhex("4807")))]
    goods = [("label='hello'", lambda: Choice(label="hello")), ("flag=True", lambda: Choice(flag=True)), ("count=0", lambda: Choice(count=0)),
             ("leaf=Leaf(n=7)", lambda: Choice(leaf=Leaf(n=7))), ("unknown field 9", lambda: Choice().parse(bytes.fromhex("4803")))]
    for bname, base in bases:
        for k in (0, 1, 2):
            for gi in range(len(goods)):
                pieces = [goods[(gi + j) % len(goods)] for j in range(k)]
                for tname, tail in bad_tails:
                    how = f"m = {bname}; m.parse(<{', '.join(p[0] for p in pieces)}> then {tname}) raises; then m is used again"
                    col.cases += 1
                    col.distinct.add(how)
                    data = b"".join(bytes(p[1]()) for p in pieces) + tail
                    m = base()
                    try:
                        m.parse(data)
                        continue                      # accepted: C17's subject, nothing to say here
                    except Exception:
                        pass
                    cands = []
                    for j in range(len(pieces) + 1):
                        c = base()
                        pre = b"".join(bytes(p[1]()) for p in pieces[:j])
                        if pre:
                            c.parse(pre)
                        cands.append(c)
                    st = guard(col, "observe-after-failed-decode", how, lambda: json.dumps(view(m), sort_keys=True, default=str))
                    if st is None:
                        continue
                    if st not in [json.dumps(view(c), sort_keys=True, default=str) for c in cands]:
                        col.fail("state-after-failed-decode-is-no-prefix-state", how, f"{st} not among {[norm(view(c)) for c in cands]}")
                        continue
                    sel = betterproto.which_one_of(m, "pick")[0]
                    b = guard(col, "encode-after-failed-decode", how, lambda: bytes(m))
                    if b is None:
                        continue
                    if b not in [bytes(c) for c in cands]:
                        col.fail("encoding-after-failed-decode-is-no-prefix-state", how, f"{b.hex()} not among {[bytes(c).hex() for c in cands]}")
                    for other in ("count", "label", "flag", "leaf"):
                        if other == sel:
                            continue
                        try:
                            getattr(m, other)
                            col.fail("unselected-member-readable-after-failed-decode", how, f"selected {sel!r}, reading {other!r} did not raise")
                        except AttributeError:
                            pass
                        except Exception as e:
                            col.fail("unselected-member-read-raises-other", how, repr(e))


def decodes_after_failures(col):
    """a rejected input leaves no trace on later decodes: the same valid encodings (flat, nested 40 deep, with unknown
    fields, delimited) decode to the same messages before and after a few hundred rejected inputs of every kind"""
    def chain_bytes(d):
        n = Nest(tag=1, g_s="leaf")
        for i in range(d):
            n = Nest(tag=i, child=n, kids=[Nest(g_n=0)] if i % 7 == 0 else [])
        return bytes(n)
    valid = [("Nest chain of depth 40", Nest, chain_bytes(40)), ("Nest chain of depth 90", Nest, chain_bytes(90)), ("flat Nest", Nest, bytes(Nest(tag=5, g_n=0))),
             ("Deep with everything", Deep, bytes(Deep(one=Choice(label="x"), mid=Mid(name="m", leaf=Leaf(n=1)), r_d=[1.5, 2.5], m_choice={"k": Choice(count=1)})) + bytes.fromhex("f00107")),
             ("Choice", Choice, bytes(Choice(flag=True)))]

    def observe():
        out = []
        for name, cls, data in valid:
            try:
                m = cls().parse(data)
                st = io.BytesIO(betterproto.encode_varint(len(data)) + data)
                m2 = cls().load(st, betterproto.SIZE_DELIMITED)
                out.append((name, bytes(m).hex(), bytes(m2).hex()))
            except Exception as e:
                out.append((name, "raises " + type(e).__name__ + ": " + str(e)[:80], ""))
        return out
    before = observe()
    deep_bad = chain_bytes(30)
    bads = [bytes.fromhex("12056162"), bytes.fromhex("1202fffe"), bytes.fromhex("0001"), bytes.fromhex("0880"), bytes.fromhex("0f"), bytes.fromhex("08" + "ff" * 11),
            deep_bad[:-3], deep_bad[:len(deep_bad) // 2], chain_bytes(12)[:-1], bytes.fromhex("2a02fffe")]
    rejected = 0
    for rnd_i in range(30):
        for bad in bads:
            for cls in (Nest, Choice, Deep):
                try:
                    cls().parse(bad)
                except Exception:
                    rejected += 1
                try:
                    cls().load(io.BytesIO(betterproto.encode_varint(len(bad) + 2) + bad), betterproto.SIZE_DELIMITED)
                except Exception:
                    rejected += 1
    how = f"{len(valid)} valid encodings decoded before and after {rejected} rejected inputs"
    col.cases += 1
    col.distinct.add(how)
    after = observe()
    for x, y in zip(before, after):
        if x != y:
            col.fail("rejected-inputs-change-later-decodes", how, f"{x[0]}: before {x[1][:60]} / {x[2][:60]} after {y[1][:100]} / {y[2][:60]}")
        if x[1].startswith("raises"):
            col.fail("valid-encoding-rejected", how, f"{x[0]}: {x[1]}")


def scalar_encodings_vs_reference(col):
    """C16 / C02: a single-field message of each of the 15 scalar kinds encodes byte for byte like the reference, for the
    boundary values of the kind - including, for float fields, doubles that are not float32 values (they round: the usual
    FLT_MAX literal 3.4028235e38, the largest double that still rounds to a finite float32, 0.1, 2**24+1, an underflow)"""
    from . import corpus as C
    for f in C.SCHEMAS[C.Scalars]:
        if f.kind == "enum":
            continue
        vals = [v.make() for v in C.pool(f.elem_kind)]
        if f.kind == "float":
            vals += list(C._FLOAT32_ROUNDING)
        for v in vals:
            if isinstance(v, float) and v == 0 and math.copysign(1, v) < 0:
                continue        # -0.0 in an implicit-presence field: emitting it is allowed, not required (C06 relation)
            how = f"Scalars({f.name}={v!r})"
            col.cases += 1
            col.distinct.add(how)
            r = C.reference_class(C.Scalars)()
            try:
                setattr(r, f.name, v)
                rb = r.SerializeToString(deterministic=True)
            except Exception as e:
                col.fail("harness:reference-rejects-scalar", how, repr(e)[:200])
                continue
            b = guard(col, "encode-scalar", how, lambda: bytes(C.Scalars(**{f.name: v})))
            if b is None:
                continue
            if b != rb:
                col.fail("scalar-encoding-differs-from-reference:" + f.kind, how, f"ours {b.hex()} reference {rb.hex()}")
            n = guard(col, "len-scalar", how, lambda: len(C.Scalars(**{f.name: v})))
            if n is not None and n != len(rb):
                col.fail("scalar-len-differs-from-reference:" + f.kind, how, f"len {n}, reference writes {len(rb)} bytes")


def _sample_values(m, name):
    """(default, non-default) values for a oneof member, chosen from the type of its default"""
    d = m._get_field_default(name)
    if isinstance(d, bool):
        return [False, True]
    if isinstance(d, betterproto.Enum):
        return [type(d).try_value(0), type(d).try_value(1)]
    if isinstance(d, int):
        return [0, 5]
    if isinstance(d, float):
        return [0.0, 1.5]
    if isinstance(d, str):
        return ["", "x"]
    if isinstance(d, bytes):
        return [b"", b"\x01"]
    if isinstance(d, datetime):
        return [EPOCH, EPOCH + timedelta(seconds=1, microseconds=5)]
    if isinstance(d, timedelta):
        return [timedelta(0), timedelta(microseconds=-500000)]
    if isinstance(d, betterproto.Message):
        return [type(d)(), type(d)().parse(bytes(type(d)(**{type(d)._betterproto.sorted_field_names[0]: 3})) if type(d)._betterproto.sorted_field_names else b"")]
    if d is None:           # wrapper-typed / optional-style member
        meta = m._betterproto.meta_by_field_name[name]
        if meta.wraps:
            return [0, -7]
        return [0, 5] if meta.proto_type.endswith(("32", "64")) else (["", "x"] if meta.proto_type == "string" else ([False, True] if meta.proto_type == "bool" else []))
    return []


def oneof_protocol(col):
    """C07 / C06: for every class with oneof groups (one-member groups included), every member x {default, non-default}:
    assigning it to a fresh message, to a message where another member (or the same one) is selected, or decoding it,
    makes it THE selected member: which_one_of names it with that value, it reads back, every other member of the group
    raises AttributeError, the encoding is the reference's for the same assignments"""
    for cname, cls in (("Choice", Choice), ("Solo", Solo), ("Wide", Wide), ("High", High)):
        proto = cls()
        meta = proto._betterproto
        groups = {}
        for name in meta.sorted_field_names:
            g = meta.meta_by_field_name[name].group
            if g:
                groups.setdefault(g, []).append(name)
        for g, members in groups.items():
            for name in members:
                for value in _sample_values(proto, name):
                    starts = [("fresh", lambda: cls())]
                    for other in members:
                        ov = _sample_values(proto, other)
                        if ov:
                            starts.append((f"after {other}={ov[-1]!r}", lambda other=other, ov=ov: _assign(cls(), other, ov[-1])))
                    for sname, start in starts:
                        how = f"m = {cname}() [{sname}]; m.{name} = {value!r}"
                        col.cases += 1
                        col.distinct.add(how)
                        m = guard(col, "assign", how, lambda: _assign(start(), name, value))
                        if m is None:
                            continue
                        sel = guard(col, "which_one_of", how, lambda: betterproto.which_one_of(m, g))
                        if sel is None:
                            continue
                        if sel[0] != name:
                            col.fail("assigned-member-is-not-the-selected-one", how, f"which_one_of(m, {g!r}) = {sel!r}")
                            continue
                        try:
                            got = getattr(m, name)
                            if not (got == value or (isinstance(value, float) and value != value)):
                                col.fail("selected-member-reads-another-value", how, f"{got!r}")
                        except Exception as e:
                            col.fail("selected-member-not-readable", how, repr(e)[:150])
                        for other in members:
                            if other == name:
                                continue
                            try:
                                getattr(m, other)
                                col.fail("other-member-readable-after-assignment", how, f"reading {other!r} did not raise")
                            except AttributeError:
                                pass
                        b = guard(col, "encode", how, lambda: bytes(m))
                        if b is None:
                            continue
                        try:
                            rb = to_ref(m).SerializeToString(deterministic=True)
                            r2 = ref(cname)()
                            r2.ParseFromString(b)
                        except Exception as e:
                            col.fail("harness:to_ref", how, repr(e)[:200])
                            continue
                        if r2.WhichOneof(g) != name:
                            col.fail("encoding-does-not-carry-the-assigned-member", how, f"bytes {b.hex()}: reference sees {r2.WhichOneof(g)!r}")
                        elif r2.SerializeToString(deterministic=True) != rb:
                            col.fail("encoding-after-assignment-differs-from-reference", how, f"ours {b.hex()} reference {rb.hex()}")
                        back = guard(col, "decode", how, lambda: cls().parse(b))
                        if back is not None and betterproto.which_one_of(back, g)[0] != name:
                            col.fail("decoded-member-is-not-the-selected-one", how, f"{betterproto.which_one_of(back, g)!r}")
                        if len(m) != len(b):
                            col.fail("len-after-assignment-differs", how, f"len {len(m)} bytes {len(b)}")


def oneof_wire_sequences(col):
    """C02 / C06 / C07: an encoding in which members of one oneof group occur several times in any order (what
    concatenating / merging encodings produces): the member that occurs LAST is the selected one, with the reference's
    value; every sequence of up to three occurrences over default and non-default values of all members"""
    recs = [("count=0", "0800"), ("count=5", "0805"), ("label=''", "1200"), ("label='x'", "120178"), ("flag=False", "1800"),
            ("flag=True", "1801"), ("leaf={}", "2200"), ("leaf={n:3}", "22020803")]
    seqs = [[a] for a in recs] + [[a, b] for a in recs for b in recs] + [[a, b, c] for a in recs for b in recs for c in recs]
    for seq in seqs:
        data = bytes.fromhex("".join(h for _, h in seq))
        how = "Choice().parse(<" + ", ".join(n for n, _ in seq) + ">)"
        col.cases += 1
        if len(seq) < 3:
            col.distinct.add(how)
        r = ref("Choice")()
        r.ParseFromString(data)
        m = guard(col, "decode", how, lambda: Choice().parse(data))
        if m is None:
            continue
        sel = betterproto.which_one_of(m, "pick")[0]
        if sel != (r.WhichOneof("pick") or ""):
            col.fail("oneof-occurring-several-times-selects-another-member-than-the-reference", how, f"ours {sel!r} reference {r.WhichOneof('pick')!r}")
            continue
        if len(seq) > 1 and seq[-1][0].startswith("leaf") and seq[-2][0].startswith("leaf"):
            continue    # the same MESSAGE member twice in a row: the reference merges the two, "last one wins" (C02) does not ask for that
        b = guard(col, "encode", how, lambda: bytes(m))
        if b is not None and b != r.SerializeToString(deterministic=True):
            col.fail("oneof-occurring-several-times-decodes-to-another-value", how, f"ours re-encodes {b.hex()} reference {r.SerializeToString(deterministic=True).hex()}")


def groups_in_frames(col):
    """C17 / C10: a (proto2) group - start-group tag, optional content, matching end-group tag - among the fields of a
    message: the decoder may reject the input, but if it accepts it the known fields have the values the reference
    decodes, and inside a delimited frame it consumes exactly the frame (the next frame reads back intact)"""
    groups = [("empty group 5", "2b2c"), ("group 5 with a varint", "2b08012c"), ("group 5 with a string and a nested group 6", "2b12026869333408092c".replace("3334", "3334")),
              ("group 300", "e312" + "0807" + "e412")]
    knowns = [("count=1", "0801"), ("label='ab'", "12026162"), ("leaf={n:3}", "22020803")]
    for gname, ghex in groups:
        for kname, khex in knowns:
            for order in ("group-first", "group-last", "between"):
                body = {"group-first": ghex + khex, "group-last": khex + ghex, "between": khex + ghex + "1801"}[order]
                data = bytes.fromhex(body)
                how = f"Choice: {kname} with {gname} ({order})"
                col.cases += 1
                col.distinct.add(how)
                r = ref("Choice")()
                try:
                    r.ParseFromString(data)
                except Exception:
                    continue            # not well-formed for the reference either
                r.DiscardUnknownFields()
                want = r.SerializeToString(deterministic=True)
                try:
                    m = Choice().parse(data)
                    if bytes(strip_unknown(Choice().parse(data))) != want:
                        col.fail("group-alters-known-fields", how, f"known fields {bytes(strip_unknown(m)).hex()} reference {want.hex()}")
                except Exception:
                    pass
                nxt = bytes(Choice(count=77))
                # a message of known size followed directly by the next one (load(stream, size=n))
                for follow in (nxt, bytes.fromhex("0807"), bytes.fromhex("120178")):
                    st2 = io.BytesIO(data + follow)
                    try:
                        sized = Choice().load(st2, len(data))
                    except Exception:
                        continue
                    if bytes(strip_unknown(sized)) != want:
                        col.fail("group-in-a-sized-load-alters-known-fields", how, f"followed by {follow.hex()}: known fields {bytes(strip_unknown(sized)).hex()} reference {want.hex()}")
                    elif st2.tell() != len(data):
                        col.fail("group-in-a-sized-load-misleads-the-byte-accounting", how, f"consumed {st2.tell()} of {len(data)} bytes")
                stream = io.BytesIO(betterproto.encode_varint(len(data)) + data + betterproto.encode_varint(len(nxt)) + nxt)
                try:
                    first = Choice().load(stream, betterproto.SIZE_DELIMITED)
                except Exception:
                    continue
                if bytes(strip_unknown(first)) != want:
                    col.fail("group-in-a-frame-alters-known-fields", how, f"known fields {bytes(strip_unknown(first)).hex()} reference {want.hex()}")
                if stream.tell() != 1 + len(data):
                    col.fail("group-in-a-frame-misleads-the-byte-accounting", how, f"consumed {stream.tell()} bytes, the frame ends at {1 + len(data)}")
                    continue
                second = guard(col, "load-next-frame", how, lambda: Choice().load(stream, betterproto.SIZE_DELIMITED))
                if second is not None and bytes(second) != nxt:
                    col.fail("frame-after-a-group-read-differently", how, f"{bytes(second).hex()} expected {nxt.hex()}")


def eq_soundness(col):
    """C01 / C14: == is not merely reflexive - messages whose field VALUES differ compare unequal, also when NaN is
    involved (differences that == does not look at on the unchanged tree - which default-valued member of a oneof is
    selected, unknown fields - are deliberately not asked for: no listed property states them); also when NaN is
    involved (the NaN-aware comparison looks into lists and maps: a prefix, an extra entry, another key or another
    element next to a NaN must still make a difference)"""
    nan = float("nan")
    pairs = [
        ("r_d [nan] vs [nan, 1.0]", lambda: Deep(r_d=[nan]), lambda: Deep(r_d=[nan, 1.0])),
        ("r_d [nan, 1.0] vs [nan]", lambda: Deep(r_d=[nan, 1.0]), lambda: Deep(r_d=[nan])),
        ("r_d [nan, 1.0] vs [nan, 2.0]", lambda: Deep(r_d=[nan, 1.0]), lambda: Deep(r_d=[nan, 2.0])),
        ("r_d [1.0, nan] vs [2.0, nan]", lambda: Deep(r_d=[1.0, nan]), lambda: Deep(r_d=[2.0, nan])),
        ("r_d [nan] vs []", lambda: Deep(r_d=[nan]), lambda: Deep(r_d=[])),
        ("r_d [nan] vs [1.0]", lambda: Deep(r_d=[nan]), lambda: Deep(r_d=[1.0])),
        ("m_d {a: nan} vs {a: nan, b: 1.0}", lambda: Deep(m_d={"a": nan}), lambda: Deep(m_d={"a": nan, "b": 1.0})),
        ("m_d {a: nan, b: 1.0} vs {a: nan}", lambda: Deep(m_d={"a": nan, "b": 1.0}), lambda: Deep(m_d={"a": nan})),
        ("m_d {a: nan} vs {b: nan}", lambda: Deep(m_d={"a": nan}), lambda: Deep(m_d={"b": nan})),
        ("m_d {a: nan, b: 1.0} vs {a: nan, b: 2.0}", lambda: Deep(m_d={"a": nan, "b": 1.0}), lambda: Deep(m_d={"a": nan, "b": 2.0})),
        ("m_f {0: nan} vs {0: nan, 5: nan}", lambda: Deep(m_f={0: nan}), lambda: Deep(m_f={0: nan, 5: nan})),
        ("rw_double [nan] vs [nan, nan]", lambda: Deep(rw_double=[nan]), lambda: Deep(rw_double=[nan, nan])),
        ("rw_double [nan, None] vs [nan, 0.0]", lambda: Deep(rw_double=[nan, None]), lambda: Deep(rw_double=[nan, 0.0])),
        ("nan in r_d, other field differs", lambda: Deep(r_d=[nan], mid=Mid(name="a")), lambda: Deep(r_d=[nan], mid=Mid(name="b"))),
        ("nan in nested list element", lambda: Deep(r_choice=[Choice(count=1)], r_d=[nan]), lambda: Deep(r_choice=[Choice(count=2)], r_d=[nan])),
        ("o_f32 nan vs None", lambda: Wide(o_f32=nan), lambda: Wide(o_f32=None)),
        ("o_f32 nan vs 0.0", lambda: Wide(o_f32=nan), lambda: Wide(o_f32=0.0)),
        ("plain: count 1 vs 2", lambda: Choice(count=1), lambda: Choice(count=2)),
        ("plain: r_d [1.0] vs [1.0, 1.0]", lambda: Deep(r_d=[1.0]), lambda: Deep(r_d=[1.0, 1.0])),
    ]
    for name, fa, fb in pairs:
        how = f"a, b differ ({name}); a == b"
        col.cases += 1
        col.distinct.add(how)
        a, b = fa(), fb()
        if bytes(a) == bytes(b):
            continue                    # (cannot happen for the pairs above; kept so that the relation never over-asks)
        r = guard(col, "eq", how, lambda: (a == b, a != b, b == a))
        if r is not None and (r[0] or not r[1] or r[2]):
            col.fail("different-messages-compare-equal", how, f"a == b: {r[0]}, a != b: {r[1]}, b == a: {r[2]}; bytes {bytes(a).hex()} / {bytes(b).hex()}")
        # and equal ones still compare equal
        a2 = fa()
        r = guard(col, "eq-same", how, lambda: (a == a2, a != a2))
        if r is not None and (not r[0] or r[1]):
            col.fail("equal-messages-compare-unequal", how, f"a == copy: {r[0]}, a != copy: {r[1]}")


def json_names_vs_protoc(col):
    """C05: the key to_dict / to_json writes for a field (default casing) is the JSON name protoc assigns to the field
    (taken from the reference descriptor, json_name), and that key is read back; per class of proto field name"""
    import re as _re
    from google.protobuf import descriptor_pb2 as dpb, descriptor_pool
    from betterproto.compile.naming import pythonize_field_name
    plain = ["a", "foo", "foo_bar", "address_line_1", "ipv4_address", "http2_frame", "int32_value", "utf8", "level3", "h264_profile", "x_y_z",
             "very_long_name_with_many_words", "id", "user_id2", "a_1_b"]
    digit_letter = ["u64s", "sha256sum", "x2y", "a1b2", "v1beta", "ipv4addr", "base64data"]
    upper = ["camelCase", "HTTPCode", "Name", "userID", "XMLHttpRequest", "URL"]
    underscores = ["_foo", "foo_", "foo__bar", "_", "__x", "a_"]
    names = [(n, "lower-snake") for n in plain] + [(n, "digit-then-lower-case-letter") for n in digit_letter] + \
            [(n, "upper-case-letters") for n in upper] + [(n, "leading-trailing-or-double-underscore") for n in underscores]
    fdp = dpb.FileDescriptorProto(name="standin_jsonnames.proto", package="standin_jsonnames", syntax="proto3")
    for i, (n, _) in enumerate(names):          # one message per name: protoc refuses two fields with one JSON name
        mp = fdp.message_type.add(name="Names%d" % i)
        mp.field.add(name=n, number=i + 1, type=dpb.FieldDescriptorProto.TYPE_INT32, label=dpb.FieldDescriptorProto.LABEL_OPTIONAL)
    pool = descriptor_pool.DescriptorPool()
    pool.Add(fdp)
    for i, (n, klass) in enumerate(names):
        how = f"proto field `{n}`"
        col.cases += 1
        col.distinct.add(how)
        want = pool.FindMessageTypeByName("standin_jsonnames.Names%d" % i).fields_by_name[n].json_name
        py = guard(col, "pythonize_field_name", how, lambda: pythonize_field_name(n))
        if py is None:
            continue
        cls = dataclass(eq=False, repr=False)(type("N%d" % i, (betterproto.Message,), {"__annotations__": {py: int}, py: betterproto.int32_field(i + 1)}))
        d = guard(col, "to_dict", how, lambda: cls(**{py: 7}).to_dict())
        if d is None:
            continue
        key = list(d)[0] if len(d) == 1 else None
        if key != want:
            col.fail("json-name-differs-from-protoc:" + klass, how, f"python field `{py}`, to_dict key {key!r}, protoc json_name {want!r}")
        for k2 in {want, n}:
            back = guard(col, "from_dict", how, lambda: cls().from_dict({k2: 7}))
            if back is not None and getattr(back, py) != 7:
                col.fail("reference-json-name-not-read-back:" + klass, how, f"from_dict({{{k2!r}: 7}}) left `{py}` at {getattr(back, py)!r}")


def failing_observers(col):
    """C14 for observers that RAISE: a chain nested deeper than the interpreter's stack makes the recursive observers fail
    (RecursionError); a failed observation is still an observation - what the operands later compare equal to, encode to
    (where that is possible) and report is unchanged"""
    depth = sys.getrecursionlimit() * 3

    def chain(top_tag):
        n = Nest(tag=1, g_s="leaf")
        for i in range(depth):
            n = Nest(tag=2, child=n)
        n.tag = top_tag
        return n

    def shallow(n):
        return (n.tag, betterproto.which_one_of(n, "g"), betterproto.serialized_on_wire(n.child), len(n.kids), bytes(n._unknown_fields))

    observers = [("a == b", lambda a, b: a == b), ("a != b", lambda a, b: a != b), ("bytes(a)", lambda a, b: bytes(a)), ("len(a)", lambda a, b: len(a)),
                 ("repr(a)", lambda a, b: repr(a)), ("bool(a)", lambda a, b: bool(a)), ("a.to_dict()", lambda a, b: a.to_dict()), ("a.to_json()", lambda a, b: a.to_json()),
                 ("a.to_pydict()", lambda a, b: a.to_pydict()), ("copy.deepcopy(a)", lambda a, b: copy.deepcopy(a)), ("pickle.dumps(a)", lambda a, b: pickle.dumps(a))]
    a, b = chain(7), chain(7)
    for oname, op in observers:
        how = f"a, b = two equal chains of depth {depth}; {oname} (may raise); then b.tag = 9; a == b"
        col.cases += 1
        col.distinct.add(how)
        sa, sb = shallow(a), shallow(b)
        raised = None
        try:
            op(a, b)
        except (RecursionError, MemoryError) as e:
            raised = type(e).__name__
        except Exception as e:
            col.fail("observer-on-deep-chain-raises-other", how, repr(e)[:200])
        if (shallow(a), shallow(b)) != (sa, sb):
            col.fail("failed-observer-changed-an-operand", how, f"{sa},{sb} -> {shallow(a)},{shallow(b)} (observer raised {raised})")
        b.tag = 9
        try:
            eq, ne = (a == b), (a != b)
            if eq or not ne:
                col.fail("failed-observer-changed-what-the-message-compares-equal-to", how,
                         f"a.tag=7, b.tag=9 but a == b is {eq}, a != b is {ne} (observer raised {raised})")
        except Exception as e:
            col.fail("comparison-after-failed-observer-raises", how, repr(e)[:200])
        # a message of ordinary depth that shares nothing with the chains still behaves
        x, y = Nest(tag=1, child=Nest(tag=2)), Nest(tag=1, child=Nest(tag=3))
        if x == y or not (x == Nest(tag=1, child=Nest(tag=2))) or bytes(x) != bytes.fromhex("080112020802"):
            col.fail("failed-observer-disturbs-other-messages", how, f"x == y: {x == y}, bytes(x) = {bytes(x).hex()}")
        b.tag = 7


def eq_histories(col):
    """C14: == is an observer also when the operands differ: neither operand changes"""
    pool = choices() + [("Choice(count=7, then leaf)", lambda: Choice(leaf=Leaf(n=2)))]
    tops = [("Deep()", lambda: Deep()), ("Deep(mid=Mid(name='a'))", lambda: Deep(mid=Mid(name="a"))), ("Deep(one=Choice(leaf=Leaf(n=1)))", lambda: Deep(one=Choice(leaf=Leaf(n=1)))),
            ("Deep(mid=Mid(leaf=Leaf(n=3)))", lambda: Deep(mid=Mid(leaf=Leaf(n=3)))), ("Deep(hollow=Hollow())", lambda: Deep(hollow=Hollow())), ("Deep(dur=1s)", lambda: Deep(dur=timedelta(seconds=1)))]
    for group in (pool, tops):
        for ta, fa in group:
            for tb, fb in group:
                how = f"({ta}) == ({tb})"
                col.cases += 1
                col.distinct.add(how)
                a, b = fa(), fb()
                va, vb, ba, bb = json.dumps(view(a), sort_keys=True, default=str), json.dumps(view(b), sort_keys=True, default=str), bytes(a), bytes(b)
                if guard(col, "eq", how, lambda: (a == b, True)[1]) is None:
                    continue
                if guard(col, "eq-nested", how, lambda: ((a.mid == b.mid, a.one == b.one, True)[2] if isinstance(a, Deep) else True)) is None:
                    continue
                if (bytes(a), bytes(b)) != (ba, bb):
                    col.fail("comparison-changes-the-encoding-of-an-operand", how, f"{ba.hex()},{bb.hex()} -> {bytes(a).hex()},{bytes(b).hex()}")
                elif (json.dumps(view(a), sort_keys=True, default=str), json.dumps(view(b), sort_keys=True, default=str)) != (va, vb):
                    col.fail("comparison-changes-observable-state-of-an-operand", how, f"{va} / {vb} -> {view(a)} / {view(b)}")


def copy_histories(col):
    """C07 / C14: a copy is a separate message - selecting another member on one of the two objects leaves the other one
    exactly as it was (which_one_of, readable members, encoding)"""
    members = [("count", 3), ("count", 0), ("label", "t"), ("label", ""), ("flag", True), ("leaf", Leaf(n=1))]
    makers = [("copy", copy.copy), ("deepcopy", copy.deepcopy), ("pickle", lambda x: pickle.loads(pickle.dumps(x)))]
    for t0, f0 in choices():
        for mname, val in members:
            for cname, cp in makers:
                for mutate_copy in (True, False):
                    how = f"a = {t0}; b = {cname}(a); {'b' if mutate_copy else 'a'}.{mname} = {val!r}"
                    col.cases += 1
                    col.distinct.add(how)

                    def run():
                        a = f0()
                        b = cp(a)
                        tgt, other = (b, a) if mutate_copy else (a, b)
                        before = (json.dumps(view(other), sort_keys=True, default=str), bytes(other), betterproto.which_one_of(other, "pick")[0])
                        setattr(tgt, mname, copy.deepcopy(val))
                        after = (json.dumps(view(other), sort_keys=True, default=str), bytes(other), betterproto.which_one_of(other, "pick")[0])
                        return before, after, tgt
                    got = guard(col, "history", how, run)
                    if got is None:
                        continue
                    before, after, tgt = got
                    if before != after:
                        col.fail("change-of-one-object-shows-in-its-copy", how, f"{before} -> {after}")
                    sel = betterproto.which_one_of(tgt, "pick")[0]
                    if sel != mname:
                        col.fail("assigned-member-not-selected", how, f"which_one_of -> {sel!r}")
                    for other_member in ("count", "label", "flag", "leaf"):
                        if other_member == mname:
                            continue
                        try:
                            getattr(tgt, other_member)
                            col.fail("unselected-member-readable", how, f"{other_member} readable while {mname} is selected")
                        except AttributeError:
                            pass


def rel_C07(col, how, make):
    """container / nesting part of C07: every Choice reachable from the instance has at most one readable member and
    encodes exactly that member"""
    m = make()

    def walk(x):
        if isinstance(x, Choice):
            yield x
        if isinstance(x, betterproto.Message):
            for name in x._betterproto.sorted_field_names:
                v = x.__dict__.get(name, betterproto.PLACEHOLDER)
                for y in (v if isinstance(v, list) else (list(v.values()) if isinstance(v, dict) else [v])):
                    if isinstance(y, betterproto.Message):
                        yield from walk(y)
    for stage, obj in (("as built", m), ("decoded", guard(col, "decode", how, lambda: type(m)().parse(bytes(make())))),
                       ("deepcopy", guard(col, "deepcopy", how, lambda: copy.deepcopy(make()))),
                       ("from_dict", guard(col, "from_dict", how, lambda: type(m)().from_dict(make().to_dict())) if not nested_unknown(m) and not m._unknown_fields else None)):
        if obj is None:
            continue
        for c in walk(obj):
            sel = betterproto.which_one_of(c, "pick")[0]
            readable = []
            for name in ("count", "label", "flag", "leaf"):
                try:
                    getattr(c, name)
                    readable.append(name)
                except AttributeError:
                    pass
            if readable != ([sel] if sel else ["count", "label", "flag", "leaf"]) and not (sel == "" and readable == []):
                if sel and readable != [sel]:
                    col.fail("readable-members-differ-from-selection", how + f" [{stage}]", f"which_one_of={sel!r} readable={readable}")
            for idv in (False, True):
                d = guard(col, "to_dict", how + f" [{stage}]", lambda: c.to_dict(include_default_values=idv))
                if d is not None:
                    named = sorted(k for k in d if k in ("count", "label", "flag", "leaf"))
                    if named != ([sel] if sel else []):
                        col.fail("json-names-other-members-of-the-group", how + f" [{stage}] include_default_values={idv}", f"which_one_of={sel!r} json={d}")
            r = ref("Choice")()
            try:
                r.ParseFromString(bytes(c))
            except Exception as e:
                col.fail("choice-encoding-rejected", how + f" [{stage}]", str(e))
                continue
            if (r.WhichOneof("pick") or "") != sel:
                col.fail("encoding-carries-another-member", how + f" [{stage}]", f"which_one_of={sel!r} encoded={r.WhichOneof('pick')!r} bytes={bytes(c).hex()}")


def rel_C04(col, how, make):
    m = make()
    if m._unknown_fields or nested_unknown(m):
        # JSON has no place for unknown fields (their survival is C08's subject, on the wire): the round trip is
        # judged on the message without them
        make0 = make
        make = lambda: strip_unknown(make0())
    for cname, casing in (("CAMEL", betterproto.Casing.CAMEL), ("SNAKE", betterproto.Casing.SNAKE)):
        d = guard(col, "to_dict", how, lambda: m.to_dict(casing=casing))
        if d is None:
            return
        for label, back in (("from_dict", lambda: type(m)().from_dict(d)), ("classmethod-from_dict", lambda: type(m).from_dict(d)),
                            ("json-text", lambda: type(m)().from_json(json.dumps(d)))):
            b = guard(col, label, how, back)
            if b is None:
                continue
            if bytes(b) != bytes(make()):
                col.fail(f"{label}-changes-the-message", how + f" [{cname}]", f"dict={d} bytes {bytes(make()).hex()} -> {bytes(b).hex()}")
            elif not same(b, make()):
                col.fail(f"{label}-changes-observable-state", how + f" [{cname}]", f"dict={d} {norm(obs(make()))} -> {norm(obs(b))}")


def rel_C05(col, how, make):
    """the JSON text betterproto writes is read by the reference's parser into the same message, and the text the
    reference writes is read by betterproto into the same message (both judged on the reference's canonical bytes)"""
    from google.protobuf import json_format
    m = make()
    if m._unknown_fields or nested_unknown(m):
        make0 = make
        make = lambda: strip_unknown(make0())
        m = make()
    try:
        want = to_ref(m)
    except Exception as e:
        col.fail("harness:to_ref", how, repr(e)[:200])
        return
    wb = want.SerializeToString(deterministic=True)
    text = guard(col, "to_json", how, lambda: m.to_json())
    if text is not None:
        r = ref(type(m).__name__)()
        try:
            json_format.Parse(text, r)
            if r.SerializeToString(deterministic=True) != wb:
                col.fail("reference-reads-our-json-as-another-message", how, f"json {text[:200]} -> {r.SerializeToString(deterministic=True).hex()[:120]} expected {wb.hex()[:120]}")
        except Exception as e:
            col.fail("reference-rejects-our-json", how, f"{text[:200]}: {str(e)[:200]}")
    try:
        rtext = json_format.MessageToJson(want)
    except Exception as e:
        return      # the reference cannot print this value (e.g. a time outside its range): nothing to compare
    back = guard(col, "from_json-of-reference-text", how, lambda: type(m)().from_json(rtext))
    if back is not None:
        r2 = ref(type(m).__name__)()
        try:
            r2.ParseFromString(bytes(back))
        except Exception as e:
            col.fail("reference-json-read-into-undecodable-message", how, repr(e)[:200])
            return
        if r2.SerializeToString(deterministic=True) != wb:
            col.fail("we-read-reference-json-as-another-message", how, f"json {rtext[:200]} -> {r2.SerializeToString(deterministic=True).hex()[:120]} expected {wb.hex()[:120]}")


def rel_C04_more(col, how, make):
    m = make()
    if nested_unknown(m) or m._unknown_fields or not isinstance(m, Deep):
        return
    # (from_pydict is not part of any listed property: to_pydict is only checked for purity, under C14)
    for cname, casing in (("CAMEL", betterproto.Casing.CAMEL), ("SNAKE", betterproto.Casing.SNAKE)):
        d = guard(col, "to_dict-with-defaults", how, lambda: m.to_dict(casing=casing, include_default_values=True))
        if d is None:
            continue
        try:
            text = json.dumps(d)
        except Exception as e:
            col.fail("to_dict-with-defaults-not-json", how + f" [{cname}]", str(e))
            continue
        b = guard(col, "from_json-of-dict-with-defaults", how, lambda: Deep().from_json(text))
        if b is None:
            continue
        # defaults written explicitly may make absent sub-messages present (that is what "include defaults" means),
        # but every value and every oneof selection must survive
        o, n = make(), b
        for name in ("m_choice", "r_choice", "m_f", "m_d", "r_d"):
            if json.dumps(value_view(getattr(o, name)), sort_keys=True, default=str) != json.dumps(value_view(getattr(n, name)), sort_keys=True, default=str):
                col.fail("dict-with-defaults-changes-a-container", how + f" [{cname}] {name}", f"{value_view(getattr(o, name))} -> {value_view(getattr(n, name))}")
        if betterproto.which_one_of(o.one, "pick")[0] and betterproto.serialized_on_wire(o.one) and \
                betterproto.which_one_of(o.one, "pick") != betterproto.which_one_of(n.one, "pick"):
            col.fail("dict-with-defaults-changes-a-oneof", how + f" [{cname}]", f"{betterproto.which_one_of(o.one, 'pick')} -> {betterproto.which_one_of(n.one, 'pick')}")


def rel_merge(col, rnd, pairs):
    """decoding in two steps into the same message equals decoding the concatenation (for the protobuf wire format
    concatenation IS merging); in particular the unknown fields of both inputs are kept"""
    for (ha, ma), (hb, mb) in pairs:
        how = f"x = bytes({ha}); y = bytes({hb}); Deep().parse(x).parse(y) vs Deep().parse(x + y)"
        col.cases += 1
        col.distinct.add(how)
        x, y = guard(col, "encode", how, lambda: bytes(ma())), guard(col, "encode", how, lambda: bytes(mb()))
        if x is None or y is None:
            continue
        two = guard(col, "two-step-decode", how, lambda: Deep().parse(x).parse(y))
        one = guard(col, "decode-concatenation", how, lambda: Deep().parse(x + y))
        if two is None or one is None:
            continue
        if bytes(two) != bytes(one):
            col.fail("two-step-decode-differs-from-decoding-the-concatenation", how, f"{bytes(two).hex()} vs {bytes(one).hex()}")
        elif not same(two, one):
            col.fail("two-step-decode-differs-in-observable-state", how, f"{view(two)} vs {view(one)}")


def rel_C14(col, how, make):
    m = make()
    o0, b0 = norm(obs(make())), bytes(make())
    for label, f in (("bytes", lambda x: bytes(x)), ("len", lambda x: len(x)), ("eq", lambda x: x == make()), ("repr", lambda x: repr(x)),
                     ("bool", lambda x: bool(x)), ("to_dict", lambda x: x.to_dict()), ("to_json", lambda x: x.to_json()),
                     ("to_pydict", lambda x: x.to_pydict()), ("to_dict-defaults", lambda x: x.to_dict(include_default_values=True))):
        if label == "to_pydict":
            try:
                f(m)            # (to_pydict raising on some valid message is not a purity question; see DESIGN I.5)
            except Exception:
                pass
        else:
            guard(col, "observer-" + label, how, lambda: f(m))
        if bytes(m) != b0:
            col.fail(f"observer-{label}-changes-the-encoding", how, f"{b0.hex()} -> {bytes(m).hex()}")
            return
    for label, f in (("copy", copy.copy), ("deepcopy", copy.deepcopy), ("pickle", lambda x: pickle.loads(pickle.dumps(x)))):
        c = guard(col, label, how, lambda: f(make()))
        if c is None:
            continue
        if bytes(c) != b0:
            col.fail(f"{label}-changes-the-encoding", how, f"{b0.hex()} -> {bytes(c).hex()}")
        elif not same(c, make()):
            col.fail(f"{label}-changes-observable-state", how, f"{o0} -> {norm(obs(c))}")


def rel_C15(col, rnd):
    """Duration / Timestamp JSON strings against google.protobuf's own parsers and printers"""
    from google.protobuf import duration_pb2
    spans = [0, 1, -1, 1000, -1000, 500000, -500000, 999999, -999999, 1000000, -1000000, 1500000, -1500000, -1000001,
             123456789, -123456789, 315576000000 * 10**6, -315576000000 * 10**6, 315575999999999999, -315575999999999999]
    spans += [rnd.randint(-2 * 10**6, 2 * 10**6) for _ in range(40)] + [rnd.randint(-10**15, 10**15) for _ in range(20)]
    for us in spans:
        col.cases += 1
        col.distinct.add(("dur", us))
        how = f"Duration of {us} microseconds"
        r = duration_pb2.Duration()
        r.FromTimedelta(timedelta(microseconds=us))
        text = r.ToJsonString()
        forms = {text}
        sign = "-" if us < 0 else ""
        a = abs(us)
        for digits in (3, 6, 9):
            if (a % 10**6) % 10**(6 - min(digits, 6)) == 0:
                frac = ("%06d" % (a % 10**6))[:min(digits, 6)] + "0" * max(0, digits - 6)
                forms.add(f"{sign}{a // 10**6}.{frac}s")
        for s in sorted(forms):
            got = guard(col, "from_dict", how + f" as {s!r}", lambda: Deep().from_dict({"dur": s}).dur)
            if got is None:
                continue
            exp = duration_pb2.Duration()
            exp.FromJsonString(s)
            if got // timedelta(microseconds=1) != exp.ToTimedelta() // timedelta(microseconds=1):
                col.fail("duration-json-parsed-differently", f"{s!r}", f"betterproto {got!r} reference {exp.ToTimedelta()!r}")
        out = guard(col, "to_dict", how, lambda: Deep(dur=timedelta(microseconds=us)).to_dict().get("dur", "0s"))
        if out is not None:
            exp = duration_pb2.Duration()
            try:
                exp.FromJsonString(out)
                if exp.ToTimedelta() // timedelta(microseconds=1) != us:
                    col.fail("duration-json-printed-differently", how, f"{out!r} reads back as {exp.ToTimedelta()!r}")
            except Exception as e:
                col.fail("duration-json-not-canonical", how, f"{out!r}: {e}")


def high_numbers(col, prop):
    """field numbers whose tags take 2..5 bytes (32, 40, 47, 64, 72, 100, 2048, 16384, 2**29-1), every presence discipline"""
    insts = [("High()", lambda: High()), ("High(a32=-7)", lambda: High(a32=-7)), ("High(s47='x')", lambda: High(s47="x")), ("High(p64=0)", lambda: High(p64=0)),
             ("High(p64=-64)", lambda: High(p64=-64)), ("High(p100='')", lambda: High(p100="")), ("High(p100='q')", lambda: High(p100="q")),
             ("High(o2048=0)", lambda: High(o2048=0)), ("High(o2048=5)", lambda: High(o2048=5)), ("High(r16384=[1, -1, 300])", lambda: High(r16384=[1, -1, 300])),
             ("High(m40=Leaf())", lambda: High(m40=Leaf())), ("High(m40=Leaf(n=9))", lambda: High(m40=Leaf(n=9))), ("High(rs72=['', 'a'])", lambda: High(rs72=["", "a"])),
             ("High(z_max=1)", lambda: High(z_max=1)), ("High(all)", lambda: High(a32=1, s47="s", p100="p", o2048=0, r16384=[7], m40=Leaf(n=1), rs72=[""], z_max=2**32 - 1))]
    for how, make in insts:
        col.cases += 1
        col.distinct.add(how)
        m = make()
        b = guard(col, "encode", how, lambda: bytes(m))
        if b is None:
            continue
        try:
            rb = to_ref(m).SerializeToString(deterministic=True)
        except Exception as e:
            col.fail("harness:to_ref", how, str(e))
            continue
        r2 = ref("High")()
        try:
            r2.ParseFromString(b)
            nb = r2.SerializeToString(deterministic=True)      # the reference orders fields by number, betterproto by declaration
        except Exception as e:
            col.fail("high-field-number-bytes-rejected-by-the-reference", how, f"{b.hex()}: {e}")
            continue
        if nb != rb:
            col.fail("high-field-number-encoded-differently-from-the-reference", how, f"ours {b.hex()} (as read by the reference: {nb.hex()}) reference {rb.hex()}")
        back = guard(col, "decode", how, lambda: High().parse(rb))
        if back is not None and not same(back, make()):
            col.fail("high-field-number-decoded-differently", how, f"{view(back)} expected {view(make())}")
        n = guard(col, "len", how, lambda: len(m))
        if n is not None and n != len(b):
            col.fail("high-field-number-len-differs", how, f"len(m)={n} len(bytes(m))={len(b)}")
        st = io.BytesIO()
        guard(col, "dump-delimited", how, lambda: (make().dump(st, betterproto.SIZE_DELIMITED), make().dump(st, betterproto.SIZE_DELIMITED)))
        st.seek(0)
        for k in range(2):
            got = guard(col, "load-delimited", how, lambda: High().load(st, betterproto.SIZE_DELIMITED))
            if got is not None and not same(got, make()):
                col.fail("high-field-number-delimited-roundtrip", how, f"message {k}: {view(got)}")
        if prop in ("C08", "C17") and b:
            # the same bytes read by a schema that knows none of these fields
            h = guard(col, "decode-as-unknown", how, lambda: Hollow().parse(b))
            if h is not None and bytes(h) != b:
                col.fail("high-field-number-unknown-bytes-changed", how, f"{b.hex()} -> {bytes(h).hex()}")


def twins(col, prop):
    """two message classes of the same shape used alternately in one process, in both orders of first use (the second
    order in a child process): every result must be what the class alone gives"""
    T1, D1 = EPOCH + timedelta(seconds=5400), timedelta(seconds=5400)
    A = [("TwinA(e=A2, r_e=[A1, A2], m_e={'k': A2})", lambda: TwinA(e=EA.A2, r_e=[EA.A1, EA.A2], m_e={"k": EA.A2})),
         ("TwinA(e=undefined 5)", lambda: TwinA(e=EA.try_value(5), r_e=[EA.try_value(5)])),
         ("TwinA(m_t={'t': T1})", lambda: TwinA(m_t={"t": T1})), ("TwinA(address_line_1='x')", lambda: TwinA(address_line_1="x")),
         ("TwinA(m_n={'n': -3})", lambda: TwinA(m_n={"n": -3})), ("TwinA(sub=Leaf(n=4), x=-3)", lambda: TwinA(sub=Leaf(n=4), x=-3))]
    B = [("TwinB(e=B5, r_e=[B1, B5], m_e={'k': B5})", lambda: TwinB(e=EB.B5, r_e=[EB.B1, EB.B5], m_e={"k": EB.B5})),
         ("TwinB(e=undefined 2)", lambda: TwinB(e=EB.try_value(2), r_e=[EB.try_value(2)])),
         ("TwinB(m_t={'t': D1})", lambda: TwinB(m_t={"t": D1})), ("TwinB(address_line1='y')", lambda: TwinB(address_line1="y")),
         ("TwinB(m_n={'n': -3})", lambda: TwinB(m_n={"n": -3})), ("TwinB(sub=Mid(name='m'), x=-3)", lambda: TwinB(sub=Mid(name="m"), x=-3))]
    order = [x for pair in zip(A, B) for x in pair] if os.environ.get("DEEP_TWIN_ORDER", "AB") == "AB" else [x for pair in zip(B, A) for x in pair]
    enum_of = {TwinA: EA, TwinB: EB}
    for how, make in order:
        how = how + f" [first-use order {os.environ.get('DEEP_TWIN_ORDER', 'AB')}]"
        col.cases += 1
        col.distinct.add(how)
        m = make()
        cls = type(m)
        b = guard(col, "encode", how, lambda: bytes(m))
        if b is None:
            continue
        back = guard(col, "decode", how, lambda: cls().parse(b))
        if back is not None:
            if not same(back, make()):
                col.fail("twin-class-roundtrip-changes-observable-state", how, f"{view(back)} expected {view(make())}")
            for v in [back.e] + list(back.r_e) + list(back.m_e.values()):
                if not isinstance(v, enum_of[cls]):
                    col.fail("decoded-enum-value-belongs-to-another-enum", how, f"{v!r} is a {type(v).__name__}, the field's enum is {enum_of[cls].__name__}")
                elif int(v) in [int(x) for x in enum_of[cls]] and not any(v is x for x in enum_of[cls]):
                    col.fail("decoded-enum-value-is-not-the-canonical-member", how, repr(v))
            for v in back.m_t.values():
                if not isinstance(v, datetime if cls is TwinA else timedelta):
                    col.fail("map-value-decoded-with-the-type-of-another-class", how, repr(v))
            if guard(col, "len", how, lambda: len(m)) not in (None, len(b)):
                col.fail("twin-class-len-differs", how, f"{len(m)} vs {len(b)}")
        if prop in ("C04", "C05", "C19", "C07", "C14"):
            for cname, casing in (("CAMEL", betterproto.Casing.CAMEL), ("SNAKE", betterproto.Casing.SNAKE)):
                d = guard(col, "to_dict", how, lambda: m.to_dict(casing=casing))
                if d is None:
                    continue
                j = guard(col, "from_dict", how + f" [{cname}]", lambda: cls().from_dict(json.loads(json.dumps(d))))
                if j is not None and (bytes(j) != b or not same(j, make())):
                    col.fail("twin-class-json-roundtrip-changes-the-message", how + f" [{cname}]", f"dict={d} -> {view(j)}")
                j2 = guard(col, "classmethod-from_dict", how + f" [{cname}]", lambda: cls.from_dict(json.loads(json.dumps(d))))
                if j2 is not None and bytes(j2) != b:
                    col.fail("twin-class-json-roundtrip-changes-the-message", how + f" [{cname}] classmethod", f"dict={d} -> {view(j2)}")


def twins_both_orders(col, prop):
    twins(col, prop)
    if os.environ.get("DEEP_TWIN_ORDER"):
        return
    # the other order of first use needs a fresh interpreter (class-level and module-level tables are per process)
    import subprocess
    env = dict(os.environ, DEEP_TWIN_ORDER="BA", PYTHONPATH=os.path.dirname(os.path.dirname(os.path.abspath(__file__))))
    from pyvc import proc as _proc
    p = _proc.run([sys.executable, "-m", "standin.deep", prop, "--twins-only"], env=env, timeout=600)
    try:
        r = json.loads(p.stdout)
    except Exception:
        col.fail("harness:twin-child", "child process", (p.stdout + p.stderr)[-400:])
        return
    col.cases += r["cases"]
    for f in r["failures"]:
        col.fail(f["match"].split(":deep:", 1)[1], f["how"], f["detail"])


def rel_C15_ts(col):
    from google.protobuf import timestamp_pb2
    for label, dt in TIMES:
        col.cases += 1
        col.distinct.add(("ts", label))
        how = f"Timestamp {label}"
        us = (dt - EPOCH) // timedelta(microseconds=1)
        d = guard(col, "to_dict", how, lambda: Deep(ts=dt).to_dict())
        if d is not None:
            if "ts" not in d:
                if us != 0:
                    col.fail("timestamp-omitted-from-json-although-not-the-epoch", how, f"to_dict() == {d}")
            else:
                exp = timestamp_pb2.Timestamp()
                try:
                    exp.FromJsonString(d["ts"])
                    got_us = exp.seconds * 10**6 + exp.nanos // 1000
                    if got_us != us:
                        col.fail("timestamp-json-denotes-another-instant", how, f"{d['ts']!r} is {got_us} us, expected {us}")
                except Exception as e:
                    col.fail("timestamp-json-not-rfc3339", how, f"{d['ts']!r}: {e}")
        r = timestamp_pb2.Timestamp()
        r.FromDatetime(dt.astimezone(timezone.utc).replace(tzinfo=None))
        text = r.ToJsonString()
        back = guard(col, "from_dict", how + f" as {text!r}", lambda: Deep().from_dict({"ts": text}).ts)
        if back is not None and (back - EPOCH) // timedelta(microseconds=1) != us:
            col.fail("timestamp-json-parsed-differently", how, f"{text!r} -> {back!r}")
        rt = guard(col, "json-roundtrip", how, lambda: Deep().from_json(Deep(ts=dt).to_json()).ts)
        if rt is not None and (rt - EPOCH) // timedelta(microseconds=1) != us:
            col.fail("timestamp-json-roundtrip-changes-the-instant", how, f"{rt!r}")
        wire = guard(col, "binary-roundtrip", how, lambda: Deep().parse(bytes(Deep(ts=dt))).ts)
        if wire is not None and (wire - EPOCH) // timedelta(microseconds=1) != us:
            col.fail("timestamp-binary-roundtrip-changes-the-instant", how, f"{wire!r}")


def stream_kinds(col):
    """C10 / C16: the same delimited stream read through different kinds of binary streams (BytesIO, BufferedReader with
    small buffers, a real file): every load returns the message written; load_varint agrees with decode_varint at every
    offset of a long run of varints"""
    import tempfile
    msgs = [Deep(mid=Mid(name="n" * k), r_d=[1.5] * (k % 5)) for k in (0, 1, 5, 120, 130, 300, 2)] + [Deep(), Deep(one=Choice(count=0))] * 3
    data = io.BytesIO()
    for m in msgs:
        m.dump(data, betterproto.SIZE_DELIMITED)
    raw = data.getvalue()
    tmp = tempfile.NamedTemporaryFile(prefix="standin_deep_", delete=False)
    tmp.write(raw)
    tmp.close()
    try:
        kinds = [("BytesIO", lambda: io.BytesIO(raw))] + [(f"BufferedReader(buffer_size={bs})", lambda bs=bs: io.BufferedReader(io.BytesIO(raw), buffer_size=bs)) for bs in (1, 7, 8, 16, 64)]
        kinds.append(("file", lambda: open(tmp.name, "rb")))
        for kname, mk in kinds:
            how = f"{len(msgs)} delimited messages read from {kname}"
            col.cases += 1
            col.distinct.add(how)
            st = mk()
            try:
                for i, m in enumerate(msgs):
                    got = guard(col, "load-delimited", how + f" message {i}", lambda: Deep().load(st, betterproto.SIZE_DELIMITED))
                    if got is None:
                        break
                    if bytes(got) != bytes(m):
                        col.fail("delimited-message-read-differently-from-this-stream-kind", how + f" message {i}", f"{bytes(got).hex()[:80]} expected {bytes(m).hex()[:80]}")
                        break
            finally:
                st.close()
        vals = [0, 1, 127, 128, 300, 16383, 16384, 2**21, 2**35, 2**63, 2**64 - 1] * 120
        enc = b"".join(bytes(betterproto.encode_varint(v)) for v in vals)
        with open(tmp.name, "wb") as fh:
            fh.write(enc)
        for kname, mk in [("BytesIO", lambda: io.BytesIO(enc)), ("BufferedReader(16)", lambda: io.BufferedReader(io.BytesIO(enc), buffer_size=16)),
                          ("BufferedReader(4096)", lambda: io.BufferedReader(io.BytesIO(enc), buffer_size=4096)), ("file", lambda: open(tmp.name, "rb"))]:
            how = f"{len(vals)} varints read from {kname}"
            col.cases += 1
            col.distinct.add(how)
            st = mk()
            try:
                for i, v in enumerate(vals):
                    r = guard(col, "load_varint", how + f" #{i}", lambda: betterproto.load_varint(st))
                    if r is None:
                        break
                    if r[0] != v or bytes(r[1]) != bytes(betterproto.encode_varint(v)):
                        col.fail("varint-read-differently-from-this-stream-kind", how + f" #{i}", f"{r!r} expected {v}")
                        break
            finally:
                st.close()
    finally:
        os.unlink(tmp.name)


def shared_state_after_copy(col):
    """C08 / C14: a copy shares nothing mutable with its original - decoding more data into one of them (unknown fields
    included) leaves the other one exactly as it was"""
    srcs = [("Deep().parse(unknown 30)", lambda: Deep().parse(bytes.fromhex("f00107"))), ("Deep(mid=Mid(name='a'))", lambda: Deep(mid=Mid(name="a"))),
            ("Deep()", lambda: Deep()), ("Deep(r_d=[1.5], m_d={'k': 2.5})", lambda: Deep(r_d=[1.5], m_d={"k": 2.5}))]
    more = [("unknown bytes 31", bytes.fromhex("fa01026869")), ("r_d += [2.5]", bytes.fromhex("52080000000000000440")), ("m_d['z']=1.0", bytes.fromhex("2a0c0a017a11000000000000f03f"))]
    for sname, src in srcs:
        for cname, cp in (("copy", copy.copy), ("deepcopy", copy.deepcopy), ("pickle", lambda x: pickle.loads(pickle.dumps(x)))):
            for mname, mb in more:
                for into_copy in (True, False):
                    if cname == "copy" and "unknown" not in mname:
                        continue        # a shallow copy shares its containers by definition
                    how = f"a = {sname}; b = {cname}(a); {'b' if into_copy else 'a'}.parse({mname})"
                    col.cases += 1
                    col.distinct.add(how)
                    a = src()
                    b = guard(col, cname, how, lambda: cp(a))
                    if b is None:
                        continue
                    tgt, other = (b, a) if into_copy else (a, b)
                    before = bytes(other)
                    if guard(col, "parse", how, lambda: (tgt.parse(mb), True)[1]) is None:
                        continue
                    if bytes(other) != before:
                        col.fail("decoding-into-one-object-changes-its-copy", how, f"{before.hex()} -> {bytes(other).hex()}")


class LibraryHang(BaseException):
    """raised by the watchdog inside an operation that does not return (BaseException: not swallowed by `except Exception`)"""


class watchdog:
    """one relation on one instance takes milliseconds (the largest instances: a few seconds); an evaluation still
    running after LIMIT seconds is an operation of the library that does not terminate"""
    LIMIT = int(os.environ.get("STANDIN_WATCHDOG", "180"))      # (the variable only exists to test the watchdog itself)

    def __init__(self, what, limit=None):
        self.what = what
        self.limit = limit or self.LIMIT

    def _fire(self, *a):
        raise LibraryHang(self.what)

    def __enter__(self):
        import signal
        self.old = signal.signal(signal.SIGALRM, self._fire)
        signal.setitimer(signal.ITIMER_REAL, self.limit)

    def __exit__(self, *a):
        import signal
        signal.setitimer(signal.ITIMER_REAL, 0)
        signal.signal(signal.SIGALRM, self.old)
        return False


def extra(col, name, fn):
    if getattr(col, "hangs", 0) >= 2:
        return          # the run was stopped after repeated non-termination (already reported)
    """run one group of relations; an exception that escapes it FROM THE LIBRARY (innermost frame in the repository's
    source) is a reported failure of that group, an exception of the harness itself stays a crash (no verdict)"""
    try:
        with watchdog(name, 4 * watchdog.LIMIT):          # a whole group of relations: normally seconds
            fn()
    except LibraryHang:
        col.fail("operation-does-not-terminate", name, f"a relation of the group {name} was still running after {4 * watchdog.LIMIT} s")
        col.hangs = getattr(col, "hangs", 0) + 2
    except Exception as e:
        tb = traceback.extract_tb(e.__traceback__)
        if tb and "/betterproto/" in tb[-1].filename.replace("\\", "/") and "/standin" not in tb[-1].filename:
            col.fail("library-raised:" + type(e).__name__, name, traceback.format_exc()[-500:])
        else:
            raise


RELS = {"C01": rel_C01, "C02": rel_C02, "C04": rel_C04, "C05": rel_C05, "C06": rel_C06, "C07": rel_C07, "C08": rel_C08, "C09": rel_C09, "C10": rel_C09, "C14": rel_C14}


def main(argv=None):
    ap = argparse.ArgumentParser()
    ap.add_argument("prop")
    ap.add_argument("--seed", type=int, default=0)
    ap.add_argument("--n", type=int, default=150)
    ap.add_argument("--twins-only", action="store_true")
    a = ap.parse_args(argv)
    rnd = random.Random(a.seed * 7919 + 13)
    col = Col(a.prop)
    if a.twins_only:
        extra(col, "twins", lambda: twins(col, a.prop))
        json.dump({"property": a.prop, "cases": col.cases, "failures": col.fails}, sys.stdout, default=str)
        return 0
    if a.prop in ("C01", "C02", "C04", "C05", "C07", "C09", "C14", "C17", "C19", "C20"):
        extra(col, "twins", lambda: twins_both_orders(col, a.prop))
    if a.prop == "C15":
        extra(col, "rel_C15", lambda: rel_C15(col, rnd))
        extra(col, "rel_C15_ts", lambda: rel_C15_ts(col))
    else:
        rel = RELS.get(a.prop)
        for how, make in (instances(rnd, a.n) if rel is not None else []):
            if getattr(col, "hangs", 0) >= 2:
                break
            col.cases += 1
            col.distinct.add(how)
            try:
                with watchdog(how):
                    rel(col, how, make)
            except LibraryHang:
                col.fail("operation-does-not-terminate", how, f"still running after {watchdog.LIMIT} s")
                col.hangs = getattr(col, "hangs", 0) + 1
                if col.hangs >= 2:
                    col.fail("operation-does-not-terminate", "(run stopped)", "two evaluations did not terminate: the remaining instances were not evaluated")
                    break
            except Exception as e:      # harness problem: reported, never silently passed
                col.fail("harness:" + type(e).__name__, how, traceback.format_exc()[-400:])
            if len(col.samples) < 3 and col.cases % 17 == 3:
                col.samples.append({"instance": how, "bytes": bytes(make()).hex()})
        if a.prop == "C04":
            for how, make in instances(rnd, a.n):
                try:
                    rel_C04_more(col, how, make)
                except Exception as e:
                    col.fail("harness:" + type(e).__name__, how, traceback.format_exc()[-400:])
        if a.prop in ("C01", "C02", "C08"):
            inst = [x for x in instances(rnd, a.n) if x[0].startswith(("Deep", "merge of"))]
            base = inst[:140]
            pairs = [(rnd.choice(base), rnd.choice(base)) for _ in range(a.n)]
            carriers = [("Deep().parse(unknown varint 30)", lambda: Deep().parse(bytes.fromhex("f00107"))),
                        ("Deep().parse(unknown bytes 31)", lambda: Deep().parse(bytes.fromhex("fa01026869"))),
                        ("Deep().parse(unknown fixed32 33 + known r_d)", lambda: Deep().parse(bytes.fromhex("8d020100000052080000000000000440"))),
                        ("Deep(mid=Mid(name='n')) + unknown", lambda: Deep().parse(bytes.fromhex("4a0312016ef00109")))]
            pairs += [(x, y) for x in carriers for y in carriers]
            extra(col, "rel_merge", lambda: rel_merge(col, rnd, pairs))
        if a.prop == "C06":
            extra(col, "assign_histories", lambda: assign_histories(col))
            extra(col, "defaults_check", lambda: defaults_check(col))
        if a.prop in ("C01", "C04", "C06", "C07", "C09"):
            extra(col, "declaration_styles", lambda: declaration_styles(col))
        if a.prop in ("C07", "C14"):
            extra(col, "copy_histories", lambda: copy_histories(col))
        if a.prop == "C05":
            extra(col, "json_names_vs_protoc", lambda: json_names_vs_protoc(col))
        if a.prop in ("C01", "C14"):
            extra(col, "eq_soundness", lambda: eq_soundness(col))
        if a.prop == "C14":
            extra(col, "eq_histories", lambda: eq_histories(col))
            extra(col, "failing_observers", lambda: failing_observers(col))
        if a.prop in ("C06", "C07", "C09"):
            extra(col, "oneof_protocol", lambda: oneof_protocol(col))
        if a.prop in ("C02", "C06", "C07"):
            extra(col, "oneof_wire_sequences", lambda: oneof_wire_sequences(col))
        if a.prop in ("C07", "C17"):
            extra(col, "failed_decode_states", lambda: failed_decode_states(col))
        if a.prop in ("C01", "C02", "C08", "C10", "C17"):
            extra(col, "decodes_after_failures", lambda: decodes_after_failures(col))
        if a.prop in ("C08", "C14"):
            extra(col, "shared_state_after_copy", lambda: shared_state_after_copy(col))
        if a.prop in ("C10", "C16"):
            extra(col, "stream_kinds", lambda: stream_kinds(col))
        if a.prop in ("C02", "C09", "C16"):
            extra(col, "scalar_encodings_vs_reference", lambda: scalar_encodings_vs_reference(col))
        if a.prop in ("C10", "C17"):
            extra(col, "truncation_at_scale", lambda: truncation_at_scale(col, a.prop))
            extra(col, "groups_in_frames", lambda: groups_in_frames(col))
        if a.prop in ("C01", "C02", "C08", "C09", "C10", "C17"):
            extra(col, "high_numbers", lambda: high_numbers(col, a.prop))
    if not col.samples:
        col.samples.append({"instance": "Duration JSON strings" if a.prop == "C15" else "Deep()", "cases": col.cases})
    json.dump({"property": a.prop, "cases": col.cases, "distinct_nontrivial": len(col.distinct) - 1 if a.prop != "C15" else len(col.distinct),
               "failures": col.fails, "n_failures": len(col.fails), "samples": col.samples,
               "repo": os.environ.get("PYVC_REPO", "/repo")}, sys.stdout, default=str)
    return 0


if __name__ == "__main__":
    sys.exit(main())
