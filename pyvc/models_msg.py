"""Object model of a betterproto Message with a SYMBOLIC class (DESIGN §2.6).

A message type enters the runtime only as its field table; the proofs treat that table as symbolic:
uninterpreted functions of the field index i in [0, NF).  "for every message type" = "for every table
satisfying WF".  The instance state is (raw, gc, sow, unk) + a heap of list / dict contents.
"""
import ast
import itertools
import z3

from .sym import SV, NONE, IntS, BoolS, BytesS, StrS, PyObj, sv_int, sv_bool, sv_bytes, sv_str, sv_tuple, to_obj, concrete_int
from .exec import Unsupported, Raised, fresh, State
from .speclib import OBJSEQ

RAW_S = z3.ArraySort(IntS, PyObj)
GC_S = z3.ArraySort(StrS, IntS)
HEAP_S = z3.ArraySort(IntS, OBJSEQ)

F_name = z3.Function("F_name", IntS, StrS)
F_number = z3.Function("F_number", IntS, IntS)
F_ptype = z3.Function("F_ptype", IntS, StrS)
F_group = z3.Function("F_group", IntS, StrS)      # "" = not in a oneof group
F_wraps = z3.Function("F_wraps", IntS, StrS)      # "" = no wrapper
F_optional = z3.Function("F_optional", IntS, BoolS)
F_mapk = z3.Function("F_mapk", IntS, StrS)
F_mapv = z3.Function("F_mapv", IntS, StrS)
F_dkind = z3.Function("F_dkind", IntS, StrS)      # kind of the default generator: list dict none message datetime timedelta float str bytes int
DEFOBJ = z3.Function("DEFOBJ", IntS, PyObj)       # the materialised default of field i
F_ckind = z3.Function("F_ckind", IntS, StrS)      # class kind of the field's element type: datetime timedelta message enum other
ENTRY_KEY = z3.Function("ENTRY_KEY", PyObj, PyObj)
ENTRY_VAL = z3.Function("ENTRY_VAL", PyObj, PyObj)
GROUP_MEMBERS = z3.Function("GROUP_MEMBERS", StrS, z3.SeqSort(IntS))   # field indices of a oneof group (some order)
POS_IN_GROUP = z3.Function("POS_IN_GROUP", IntS, IntS)
MSG_HASFIELDS = z3.Function("MSG_HASFIELDS", PyObj, BoolS)
IDX_OF_NUMBER = z3.Function("IDX_OF_NUMBER", IntS, IntS)   # field index for a wire number, -1 if unknown
NF = z3.Int("NF")
SORTED_AT = z3.Function("SORTED_AT", IntS, IntS)       # k-th field index in name order
SORTED_POS = z3.Function("SORTED_POS", IntS, IntS)     # its inverse
DEEPCOPY = z3.Function("DEEPCOPY", PyObj, PyObj)
MSG_SOW = z3.Function("MSG_SOW", PyObj, BoolS)    # value._serialized_on_wire of a nested message value

EMPTY = z3.Empty(BytesS)


def group_obj(i):
    return z3.If(F_group(i) == z3.StringVal(""), PyObj.PNone, PyObj.PStr(F_group(i)))


def wraps_obj(i):
    return z3.If(F_wraps(i) == z3.StringVal(""), PyObj.PNone, PyObj.PStr(F_wraps(i)))


def val_of(raw, i):
    return z3.If(raw[i] == PyObj.PPlaceholder, DEFOBJ(i), raw[i])


def cn_of(hl, hdk, v):
    return z3.If(PyObj.is_PList(v), z3.Length(hl[PyObj.plist(v)]),
                 z3.If(PyObj.is_PDict(v), z3.Length(hdk[PyObj.pdict(v)]), z3.IntVal(0)))


_newctr = itertools.count()


class MsgPlugin:
    SPEC_NAMES = {"NF", "F_number", "F_ptype", "F_group", "F_wraps", "F_optional", "F_dkind", "F_mapk", "F_mapv",
                  "VAL", "RAWV", "SEL", "INGROUP", "READABLE", "WIREUPTO", "WIRE", "EMIT_AT", "WF", "TY", "GCV",
                  "HEAP_LIST", "HEAP_DK", "HEAP_DV", "CN", "XS", "KS", "VS", "SOWV", "FNAME_IDX", "RAWARR", "GCARR",
                  "TY_AT", "WF_AT", "F_ckind", "IDXN", "SELECT", "DEFOBJ", "UNKF", "SOWF", "GROUP_RESET", "DICTSET_K",
                  "DICTSET_V", "ENTRY_KEY", "ENTRY_VAL", "F_name", "VALOF", "SHAPE", "STRUCT", "MEMBER", "NMEMBERS", "GROUPS_WF", "INITIALISED", "GCLOCAL", "NAMES_WF", "ALLSENT", "LASTSET", "ISSETV", "POS_OF", "DEFAULTS", "KWARR", "SORTED_IDX", "SORTED_RANK", "IS_SCALAR_VALUE"}

    SPEC_CONSTS = {"NF"}

    def __init__(self):
        self._wire_fn = None

    # ---------------------------------------------------------------- state access
    def cells(self, st, key="self"):
        return (st.heap[(key, "raw")].t, st.heap[(key, "gc")].t,
                st.heap[("$H", "list")].t, st.heap[("$H", "dk")].t, st.heap[("$H", "dv")].t)

    def make_model_param(self, ex, st, p, model):
        if model == "fname":
            v = z3.Int(f"{p}.idx")
            ex.inputs[f"{p}.idx"] = v
            return SV("fname", v)
        if model == "meta":
            comps = {"number": sv_int(z3.Int(f"{p}.number")), "proto_type": sv_str(z3.String(f"{p}.proto_type")),
                     "group": SV("obj", z3.Const(f"{p}.group", PyObj)), "wraps": SV("obj", z3.Const(f"{p}.wraps", PyObj)),
                     "optional": sv_bool(z3.Bool(f"{p}.optional"))}
            for k, v in comps.items():
                ex.inputs[f"{p}.{k}"] = v.t
            st.assume(z3.Or(PyObj.is_PNone(comps["wraps"].t), PyObj.is_PStr(comps["wraps"].t)))
            st.assume(z3.Or(PyObj.is_PNone(comps["group"].t), PyObj.is_PStr(comps["group"].t)))
            return SV("rec", comps, "FieldMetadata")
        if model not in ("msg", "rawmsg"):
            return None
        key = p
        st.heap[(key, "raw")] = SV("arr", z3.Const(f"{p}.raw", RAW_S))
        st.heap[(key, "gc")] = SV("arr", z3.Const(f"{p}.gc", GC_S))
        st.heap[(key, "_serialized_on_wire")] = sv_bool(z3.Bool(f"{p}.sow"))
        st.heap[(key, "_unknown_fields")] = sv_bytes(z3.Const(f"{p}.unk", BytesS))
        if ("$H", "list") not in st.heap:
            st.heap[("$H", "list")] = SV("arr", z3.Const("H.list", HEAP_S))
            st.heap[("$H", "dk")] = SV("arr", z3.Const("H.dk", HEAP_S))
            st.heap[("$H", "dv")] = SV("arr", z3.Const("H.dv", HEAP_S))
        for k in ("raw", "gc"):
            ex.inputs[f"{p}.{k}"] = st.heap[(key, k)].t
        ex.inputs[f"{p}.sow"] = st.heap[(key, "_serialized_on_wire")].t
        ex.inputs[f"{p}.unk"] = st.heap[(key, "_unknown_fields")].t
        ex.inputs["NF"] = NF
        st.assume(NF >= 0)
        if model == "rawmsg":
            st.heap[(key, "_init")] = sv_bool(z3.Bool(f"{p}.initialised"))
            ex.inputs[f"{p}.initialised"] = st.heap[(key, "_init")].t
            return SV("ref", key, "rawmsg")
        return SV("ref", key, "msg")

    # ---------------------------------------------------------------- the per-message encoding
    def emit_at(self, ex, st, raw, gc, hl, hdk, hdv, i):
        v = val_of(raw, i)
        ingroup = F_group(i) != z3.StringVal("")
        sel = z3.And(ingroup, gc[F_group(i)] == i)
        spec = ex.eng.spec
        args = [sv_int(F_number(i)), sv_str(F_ptype(i)), sv_str(F_wraps(i)), sv_bool(ingroup), sv_bool(F_optional(i)),
                sv_str(F_dkind(i)), sv_bool(sel), SV("obj", v), sv_bool(MSG_SOW(v)), sv_int(cn_of(hl, hdk, v)),
                SV("objseq", hl[PyObj.plist(v)]), SV("objseq", hdk[PyObj.pdict(v)]), SV("objseq", hdv[PyObj.pdict(v)]),
                sv_str(F_mapk(i)), sv_str(F_mapv(i))]
        e = spec.call(ex, "EMITC", args, st).t
        # an unselected member of a oneof group is not readable (AttributeError) and contributes nothing
        return z3.If(z3.And(ingroup, gc[F_group(i)] != i), EMPTY, e)

    def wire_fn(self, ex, st):
        if self._wire_fn is None:
            f = z3.RecFunction("WIREUPTO", RAW_S, GC_S, HEAP_S, HEAP_S, HEAP_S, IntS, BytesS)
            raw, gc = z3.Const("raw!w", RAW_S), z3.Const("gc!w", GC_S)
            hl, hdk, hdv = z3.Const("hl!w", HEAP_S), z3.Const("hdk!w", HEAP_S), z3.Const("hdv!w", HEAP_S)
            k = z3.Int("k!w")
            body = z3.If(k <= 0, EMPTY, z3.Concat(f(raw, gc, hl, hdk, hdv, k - 1), self.emit_at(ex, st, raw, gc, hl, hdk, hdv, k - 1)))
            z3.RecAddDefinition(f, [raw, gc, hl, hdk, hdv, k], body)
            self._wire_fn = f
        return self._wire_fn

    def ty_at(self, ex, st, raw, hl, hdk, hdv, i):
        v = val_of(raw, i)
        args = [sv_str(F_ptype(i)), sv_str(F_wraps(i)), sv_bool(F_optional(i)), sv_str(F_dkind(i)), SV("obj", v),
                sv_int(cn_of(hl, hdk, v)), SV("objseq", hl[PyObj.plist(v)]), SV("objseq", hdk[PyObj.pdict(v)]),
                SV("objseq", hdv[PyObj.pdict(v)]), sv_str(F_mapk(i)), sv_str(F_mapv(i))]
        return ex.eng.spec.call(ex, "TYFIELD", args, st).t

    def wf_at(self, ex, st, i, hl, hdk, hdv):
        return self.wf_per(ex, st, i)

    def wf_per(self, ex, st, i):
        S = z3.StringVal
        known = lambda t: ex.eng.spec.call(ex, "KNOWN_KIND", [sv_str(t)], st).t
        dk = F_dkind(i)
        t = F_ptype(i)
        scalar_dk = z3.If(z3.Or(t == S("float"), t == S("double")), S("float"),
                    z3.If(t == S("string"), S("str"), z3.If(t == S("bytes"), S("bytes"), S("int"))))
        per = z3.And(
            F_number(i) >= 1, F_number(i) < 2 ** 29, known(t),
            IDX_OF_NUMBER(F_number(i)) == i,
            (t == S("map")) == (dk == S("dict")),
            z3.Implies(t == S("map"), z3.And(known(F_mapk(i)), known(F_mapv(i)), F_mapv(i) != S("map"), F_mapk(i) != S("map"),
                                             F_mapk(i) != S("message"), F_wraps(i) == S(""))),
            z3.Implies(F_wraps(i) != S(""), t == S("message")),
            z3.Or(dk == S("list"), dk == S("dict"), dk == S("none"), dk == S("message"), dk == S("datetime"),
                  dk == S("timedelta"), dk == S("float"), dk == S("str"), dk == S("bytes"), dk == S("int")),
            # singular fields: optional / wrapper fields default to None, scalars to their zero value
            z3.Implies(z3.And(dk != S("list"), dk != S("dict")),
                       z3.If(z3.Or(F_optional(i), F_wraps(i) != S("")), dk == S("none"),
                             z3.If(t == S("message"), z3.Or(dk == S("message"), dk == S("datetime"), dk == S("timedelta")),
                                   dk == scalar_dk))),
            # the materialised default is a value of the default kind (its contents are heap state: DEFAULTS())
            DEFOBJ(i) != PyObj.PPlaceholder,
            (dk == S("list")) == PyObj.is_PList(DEFOBJ(i)),
            (dk == S("dict")) == PyObj.is_PDict(DEFOBJ(i)),
            z3.Or(F_ckind(i) == S("datetime"), F_ckind(i) == S("timedelta"), F_ckind(i) == S("message"),
                  F_ckind(i) == S("enum"), F_ckind(i) == S("other")),
            (t == S("enum")) == (F_ckind(i) == S("enum")),
            # members of a oneof group are singular fields
            z3.Implies(F_group(i) != S(""), z3.And(dk != S("list"), dk != S("dict"))),
            z3.Implies(dk == S("datetime"), F_ckind(i) == S("datetime")),
            z3.Implies(dk == S("timedelta"), F_ckind(i) == S("timedelta")),
            z3.Implies(dk == S("message"), F_ckind(i) == S("message")),
            z3.Implies(z3.Or(F_ckind(i) == S("datetime"), F_ckind(i) == S("timedelta"), F_ckind(i) == S("message")),
                       z3.And(t == S("message"), F_wraps(i) == S(""))),
        )
        return per

    def wf(self, ex, st):
        """well-formedness of the symbolic field table (what ProtoClassMetadata derives from the dataclass)"""
        i, j = z3.Int("i!wf"), z3.Int("j!wf")
        per = self.wf_per(ex, st, i)
        uniq = z3.Implies(z3.And(0 <= i, i < NF, 0 <= j, j < NF, i != j),
                          z3.And(F_number(i) != F_number(j), F_name(i) != F_name(j)))
        idx = z3.ForAll([j], z3.Or(IDX_OF_NUMBER(j) == -1,
                                   z3.And(0 <= IDX_OF_NUMBER(j), IDX_OF_NUMBER(j) < NF, F_number(IDX_OF_NUMBER(j)) == j)))
        return z3.And(z3.ForAll([i], z3.Implies(z3.And(0 <= i, i < NF), per)), z3.ForAll([i, j], uniq), idx)

    def defobj_facts(self, ex, st, hl, hdk, hdv):
        i = z3.Int("i!df")
        v = DEFOBJ(i)
        isdef = ex.eng.spec.call(ex, "ISDEF", [sv_str(F_dkind(i)), SV("obj", v), sv_int(cn_of(hl, hdk, v))], st).t
        return z3.ForAll([i], z3.Implies(z3.And(0 <= i, i < NF),
                                         z3.And(isdef, z3.Implies(PyObj.is_PMsg(v), z3.Not(MSG_SOW(v))))))

    def group_reset(self, raw, i, v, st=None):
        """raw[i := v] with every other member of i's oneof group reset to PLACEHOLDER.  Returned as a fresh
        array constant defined by a universally quantified equation (first-order, so both back ends read it)."""
        j = z3.Int("j!gr")
        g = F_group(i)
        new = fresh("raw_set", RAW_S)
        body = new[j] == z3.If(j == i, v, z3.If(z3.And(g != z3.StringVal(""), F_group(j) == g, 0 <= j, j < NF),
                                                PyObj.PPlaceholder, raw[j]))
        defn = z3.ForAll([j], body, patterns=[new[j]])
        if st is not None:
            st.assume(defn)
            st.assume(new[i] == v)
        return new

    def init_fns(self):
        """what __post_init__ must compute, as recursive functions over the field table:
        ALLSENT(raw, k): the first k fields hold only sentinels (PLACEHOLDER, or None for an optional field);
        LASTSET(raw, g, k): -2 if none of the first k fields is in group g, else the last of them holding a
        non-sentinel value, else -1 (None)."""
        if getattr(self, "_init_fns", None) is None:
            fa = z3.RecFunction("ALLSENT", RAW_S, IntS, BoolS)
            fl = z3.RecFunction("LASTSET", RAW_S, StrS, IntS, IntS)
            raw = z3.Const("raw!i", RAW_S)
            g = z3.String("g!i")
            k = z3.Int("k!i")
            j = k - 1
            unset = z3.Or(raw[j] == PyObj.PPlaceholder, z3.And(F_optional(j), raw[j] == PyObj.PNone))
            z3.RecAddDefinition(fa, [raw, k], z3.If(k <= 0, True, z3.And(fa(raw, k - 1), unset)))
            prev = fl(raw, g, k - 1)
            z3.RecAddDefinition(fl, [raw, g, k], z3.If(k <= 0, z3.IntVal(-2),
                                 z3.If(z3.And(F_group(j) == g, g != z3.StringVal("")),
                                       z3.If(z3.Not(unset), j, z3.If(prev == -2, z3.IntVal(-1), prev)), prev)))
            self._init_fns = (fa, fl)
        return self._init_fns

    def model_setattr(self, ex, st, selfv, i, v):
        """contract of Message.__setattr__ for a field (DESIGN A.5): sow' = True; if the field is a oneof member it
        becomes the selected one and every sibling is reset to PLACEHOLDER; raw'[i] = v; nothing else changes."""
        ex.assumption("C-SETATTR")
        raw, gc, hl, hdk, hdv = self.cells(st, selfv.t)
        st2 = st.clone()
        st2.heap[(selfv.t, "_serialized_on_wire")] = sv_bool(True)
        ingroup = F_group(i) != z3.StringVal("")
        st2.heap[(selfv.t, "gc")] = SV("arr", z3.If(ingroup, z3.Store(gc, F_group(i), i), gc))
        st2.heap[(selfv.t, "raw")] = SV("arr", self.group_reset(raw, i, v, st2))
        return st2

    # ---------------------------------------------------------------- spec-language names
    def spec_has(self, name):
        return name in self.SPEC_NAMES or (name.endswith("_OF") and name[:-3] in self.SPEC_NAMES)

    def spec_call(self, ex, name, pos, st):
        key = "self"
        slf = st.env.get("self")
        if slf is not None and slf.kind == "ref" and slf.extra in ("msg", "rawmsg"):
            key = slf.t            # inside a modular call `self` may be another message object
        if name.endswith("_OF") and name[:-3] in self.SPEC_NAMES:
            # X_OF(m, ...): the state function X of another message object m (a parameter of model type msg / rawmsg)
            if not pos or pos[0].kind != "ref" or pos[0].extra not in ("msg", "rawmsg"):
                raise Unsupported(f"{name}: first argument must be a message object")
            key, name, pos = pos[0].t, name[:-3], pos[1:]
        if name == "NF":
            return sv_int(NF)
        if name == "KWARR":
            return SV("arr", pos[0].t)
        if name == "IS_SCALAR_VALUE":
            t = to_obj(pos[0])
            return sv_bool(z3.Or(PyObj.is_PNone(t), PyObj.is_PPlaceholder(t), PyObj.is_PBool(t), PyObj.is_PInt(t), PyObj.is_PFloat(t),
                                 PyObj.is_PStr(t), PyObj.is_PBytes(t), PyObj.is_PEnum(t), PyObj.is_PDatetime(t), PyObj.is_PTimedelta(t)))
        if name == "SORTED_IDX":
            return sv_int(SORTED_AT(ex.as_int(pos[0], st)))
        if name == "SORTED_RANK":
            return sv_int(SORTED_POS(ex.as_int(pos[0], st)))
        if name == "FNAME_IDX":
            if pos[0].kind == "fname":
                return sv_int(pos[0].t)
            if pos[0].kind == "str":
                # a plain string: its index in the field table, if any (uninterpreted; no field is named "")
                return sv_int(z3.Function("NAME_IDX", StrS, IntS)(pos[0].t))
            raise Unsupported(f"FNAME_IDX of {pos[0].kind}")
        simple = {"F_number": (F_number, sv_int), "F_ptype": (F_ptype, sv_str), "F_group": (F_group, sv_str),
                  "F_wraps": (F_wraps, sv_str), "F_optional": (F_optional, sv_bool), "F_dkind": (F_dkind, sv_str),
                  "F_mapk": (F_mapk, sv_str), "F_mapv": (F_mapv, sv_str)}
        if name in simple:
            f, mk = simple[name]
            return mk(f(ex.as_int(pos[0], st)))
        raw, gc, hl, hdk, hdv = self.cells(st, key)
        if name == "F_ckind":
            return sv_str(F_ckind(ex.as_int(pos[0], st)))
        if name == "IDXN":
            return sv_int(IDX_OF_NUMBER(ex.as_int(pos[0], st)))
        if name == "SELECT":
            a = pos[0]
            if a.t.sort() == GC_S:
                return sv_int(a.t[pos[1].t])
            r = a.t[ex.as_int(pos[1], st)]
            return SV("objseq" if a.t.sort() == HEAP_S else "obj", r)
        if name == "DEFOBJ":
            return SV("obj", DEFOBJ(ex.as_int(pos[0], st)))
        if name == "VALOF":
            return SV("obj", val_of(pos[0].t, ex.as_int(pos[1], st)))
        if name in ("ALLSENT", "LASTSET"):
            fa, fl = self.init_fns()
            if name == "ALLSENT":
                return sv_bool(fa(raw, ex.as_int(pos[0], st)))
            return sv_int(fl(raw, pos[0].t, ex.as_int(pos[1], st)))
        if name == "ISSETV":
            j = ex.as_int(pos[0], st)
            return sv_bool(z3.Not(z3.Or(raw[j] == PyObj.PPlaceholder, z3.And(F_optional(j), raw[j] == PyObj.PNone))))
        if name == "POS_OF":
            return sv_int(POS_IN_GROUP(ex.as_int(pos[0], st)))
        if name == "MEMBER":
            return sv_int(GROUP_MEMBERS(pos[0].t)[ex.as_int(pos[1], st)])
        if name == "NMEMBERS":
            return sv_int(z3.Length(GROUP_MEMBERS(pos[0].t)))
        if name == "INITIALISED":
            return st.heap[(key, "_init")]
        if name == "GROUPS_WF":
            # the member list of every group enumerates exactly the fields declared with that group, once each
            j, q = z3.Int("j!gw"), z3.Int("q!gw")
            g = z3.String("g!gw")
            mem = GROUP_MEMBERS(g)
            a1 = z3.ForAll([g, q], z3.Implies(z3.And(0 <= q, q < z3.Length(mem)),
                                             z3.And(0 <= mem[q], mem[q] < NF, F_group(mem[q]) == g, POS_IN_GROUP(mem[q]) == q)))
            mj = GROUP_MEMBERS(F_group(j))
            a2 = z3.ForAll([j], z3.Implies(z3.And(0 <= j, j < NF, F_group(j) != z3.StringVal("")),
                                          z3.And(0 <= POS_IN_GROUP(j), POS_IN_GROUP(j) < z3.Length(mj), mj[POS_IN_GROUP(j)] == j)))
            return sv_bool(z3.And(a1, a2))
        if name == "NAMES_WF":
            j = z3.Int("j!nw")
            bad = [z3.StringVal(x) for x in ("__class__", "_betterproto", "_group_current", "_serialized_on_wire", "_unknown_fields")]
            return sv_bool(z3.ForAll([j], z3.Implies(z3.And(0 <= j, j < NF), z3.And(*[F_name(j) != b for b in bad]))))
        if name == "STRUCT":
            # container-kind consistency: a repeated field holds a list, a map field a dict, others neither
            a = z3.Int("a!st")
            va = val_of(raw, a)
            return sv_bool(z3.ForAll([a], z3.Implies(z3.And(0 <= a, a < NF), z3.And(
                (F_dkind(a) == z3.StringVal("list")) == PyObj.is_PList(va),
                (F_dkind(a) == z3.StringVal("dict")) == PyObj.is_PDict(va)))))
        if name == "SHAPE":
            # containers of different fields are different objects (the value graph is a tree)
            a, b = z3.Int("a!sh"), z3.Int("b!sh")
            va, vb = val_of(raw, a), val_of(raw, b)
            return sv_bool(z3.ForAll([a, b], z3.Implies(z3.And(0 <= a, a < NF, 0 <= b, b < NF, a != b), z3.And(
                z3.Implies(z3.And(PyObj.is_PList(va), PyObj.is_PList(vb)), PyObj.plist(va) != PyObj.plist(vb)),
                z3.Implies(z3.And(PyObj.is_PDict(va), PyObj.is_PDict(vb)), PyObj.pdict(va) != PyObj.pdict(vb))))))
        if name == "ENTRY_KEY":
            return SV("obj", ENTRY_KEY(to_obj(pos[0])))
        if name == "ENTRY_VAL":
            return SV("obj", ENTRY_VAL(to_obj(pos[0])))
        if name == "UNKF":
            return st.heap[(key, "_unknown_fields")]
        if name == "SOWF":
            return st.heap[(key, "_serialized_on_wire")]
        if name == "GROUP_RESET":
            # GROUP_RESET(raw_before, i, v): the raw array after assigning v to field i (siblings of its group reset)
            raise Unsupported("GROUP_RESET in spec expressions")
        if name == "VAL":
            return SV("obj", val_of(raw, ex.as_int(pos[0], st)))
        if name == "RAWV":
            return SV("obj", raw[ex.as_int(pos[0], st)])
        if name == "RAWARR":
            return SV("arr", raw)
        if name == "GCARR":
            return SV("arr", gc)
        if name == "GCV":
            return sv_int(gc[pos[0].t])
        if name == "INGROUP":
            return sv_bool(F_group(ex.as_int(pos[0], st)) != z3.StringVal(""))
        if name == "SEL":
            i = ex.as_int(pos[0], st)
            return sv_bool(z3.And(F_group(i) != z3.StringVal(""), gc[F_group(i)] == i))
        if name == "READABLE":
            i = ex.as_int(pos[0], st)
            return sv_bool(z3.Or(F_group(i) == z3.StringVal(""), gc[F_group(i)] == i))
        if name == "WIREUPTO":
            f = self.wire_fn(ex, st)
            return sv_bytes(f(raw, gc, hl, hdk, hdv, ex.as_int(pos[0], st)))
        if name == "WIRE":
            f = self.wire_fn(ex, st)
            return sv_bytes(z3.Concat(f(raw, gc, hl, hdk, hdv, NF), st.heap[(key, "_unknown_fields")].t))
        if name == "EMIT_AT":
            return sv_bytes(self.emit_at(ex, st, raw, gc, hl, hdk, hdv, ex.as_int(pos[0], st)))
        if name == "WF":
            return sv_bool(self.wf(ex, st))
        if name == "DEFAULTS":
            # heap-dependent: the default objects of container / message kind are empty / not on the wire
            return sv_bool(self.defobj_facts(ex, st, hl, hdk, hdv))
        if name == "TY":
            i = z3.Int("i!ty")
            return sv_bool(z3.ForAll([i], z3.Implies(z3.And(0 <= i, i < NF), self.ty_at(ex, st, raw, hl, hdk, hdv, i))))
        if name == "TY_AT":
            return sv_bool(self.ty_at(ex, st, raw, hl, hdk, hdv, ex.as_int(pos[0], st)))
        if name == "WF_AT":
            return sv_bool(self.wf_at(ex, st, ex.as_int(pos[0], st), hl, hdk, hdv))
        if name == "HEAP_LIST":
            return SV("arr", hl)
        if name == "HEAP_DK":
            return SV("arr", hdk)
        if name == "HEAP_DV":
            return SV("arr", hdv)
        if name == "CN":
            return sv_int(cn_of(hl, hdk, to_obj(pos[0])))
        if name == "XS":
            return SV("objseq", hl[PyObj.plist(to_obj(pos[0]))])
        if name == "KS":
            return SV("objseq", hdk[PyObj.pdict(to_obj(pos[0]))])
        if name == "VS":
            return SV("objseq", hdv[PyObj.pdict(to_obj(pos[0]))])
        if name == "SOWV":
            return sv_bool(MSG_SOW(to_obj(pos[0])))
        raise Unsupported(f"spec name {name}")

    # ---------------------------------------------------------------- attribute protocol
    def getattr_hook(self, ex, st, v, attr):
        if v.extra == "rawmsg":
            # plain attribute lookup on the instance (non-field names), as Message.__getattribute__ does for them
            if attr == "_betterproto":
                return [(st, SV("bp", v.t))]
            if attr == "__dict__":
                return [(st, SV("selfdict", v.t))]
            if attr == "_group_current":
                init = st.heap[(v.t, "_init")].t
                out = []
                s_r = st.clone()
                s_r.assume(z3.Not(init))
                if ex.feasible(s_r):
                    out.append((s_r, Raised(SV("exc", "AttributeError"))))
                s_n = st.clone()
                s_n.assume(init)
                if ex.feasible(s_n):
                    out.append((s_n, SV("gcdict", v.t)))
                return out
            if attr in ("_serialized_on_wire", "_unknown_fields"):
                return None
            if attr == "__class__":
                return [(st, SV("func", ("msgcls_ctor", v.t)))]
            return [(st, SV("func", ("method", v, attr)))]
        if v.extra != "msg":
            return None
        if attr == "_betterproto":
            return [(st, SV("bp", v.t))]
        if attr == "_group_current":
            return [(st, SV("gcdict", v.t))]
        if attr in ("_serialized_on_wire", "_unknown_fields"):
            return None
        if attr == "__class__":
            return [(st, SV("msgcls", v.t))]
        if (v.t, attr) in st.heap:
            return None
        return [(st, SV("func", ("method", v, attr)))]

    def attr_hook(self, ex, st, v, attr):
        if v.kind == "objbp" and attr == "meta_by_field_name":
            return [(st, sv_bool(MSG_HASFIELDS(v.t)))]
        if v.kind in ("super", "selfdict", "gclocal"):
            return [(st, SV("func", ("method", v, attr)))]
        if v.kind == "msgcls" and attr in ("FromString",):
            # a bound classmethod, only ever passed along (pickle's reconstructor); never called symbolically
            return [(st, SV("func", ("method", v, attr)))]
        if v.kind == "func" and v.t[0] == "fieldcls":
            return [(st, SV("func", ("method", v, attr)))]
        if v.kind in ("fieldmsg", "wkmsg", "wkparsed") and not (v.kind == "wkparsed" and attr == "value"):
            return [(st, SV("func", ("method", v, attr)))]
        if v.kind == "wkparsed" and attr == "value":
            kind, b = v.t
            ex.assumption("C-SUBPARSE")
            w = ex.coerce(kind[1], "str", st, "wraps")
            return [(st, ex.eng.spec.call(ex, "WRAPPARSE", [w, sv_bytes(b)], st))]
        if v.kind == "bp":
            if attr in ("meta_by_field_name", "default_gen", "cls_by_field", "field_name_by_number",
                        "oneof_group_by_field", "oneof_field_by_group", "sorted_field_names"):
                return [(st, SV("bpattr", (v.t, attr)))]
        if v.kind == "bpattr":
            return [(st, SV("func", ("method", v, attr)))]
        if v.kind == "gcdict":
            return [(st, SV("func", ("method", v, attr)))]
        if v.kind == "fname":
            return [(st, SV("func", ("method", v, attr)))]
        return None

    def value_attr_hook(self, ex, st, v, attr):
        if v.kind == "obj" and attr == "_serialized_on_wire":
            return [(st, sv_bool(MSG_SOW(v.t)))]
        if v.kind == "obj" and attr == "_betterproto":
            return [(st, SV("objbp", v.t))]
        if v.kind == "obj" and attr == "key":
            return [(st, SV("obj", ENTRY_KEY(v.t)))]
        if v.kind == "obj" and attr == "value":
            return [(st, SV("obj", ENTRY_VAL(v.t)))]
        return None

    def setattr_other(self, ex, st, recv, attr, v):
        if recv.kind == "obj" and attr == "_serialized_on_wire" and ex.qualname.endswith("Message.__setattr__"):
            # marking an assigned field-less message as present: state of the NESTED object, recorded as ghost only
            st.heap[("$L", "nested_marked")] = recv
            ex.assumption("A-NESTED-MARK")
            return True
        if recv.kind == "obj" and attr == "_serialized_on_wire":
            # only ever set to True on a freshly parsed nested message, which already reports it
            ex.oblige(st, f"nested-presence-flag@{ex.cur_line}", z3.And(ex.truth(v), MSG_SOW(recv.t)), "safety")
            return True
        return None

    def setattr_hook(self, ex, st, recv, attr, v):
        if recv.extra != "msg":
            return None
        if attr in ("_unknown_fields", "_serialized_on_wire"):
            # Message.__setattr__ for a non-field attribute: stores it; any attribute but the flag itself sets the flag
            st.heap[(recv.t, attr)] = v
            if attr != "_serialized_on_wire":
                st.heap[(recv.t, "_serialized_on_wire")] = sv_bool(True)
            return True
        return None

    def list_literal(self, ex, st):
        raw, gc, hl, hdk, hdv = self.cells(st)
        r = fresh("newlist", IntS)
        st2 = st.clone()
        st2.heap[("$H", "list")] = SV("arr", z3.Store(hl, r, z3.Empty(OBJSEQ)))
        j = z3.Int("j!fr")
        # freshness: the new list is no field's list and no field default
        st2.assume(z3.ForAll([j], z3.And(z3.Implies(PyObj.is_PList(raw[j]), PyObj.plist(raw[j]) != r),
                                         z3.Implies(PyObj.is_PList(DEFOBJ(j)), PyObj.plist(DEFOBJ(j)) != r))))
        return [(st2, SV("obj", PyObj.PList(r)))]

    def set_item(self, ex, st, recv, key, v):
        from .sym import concrete_str
        if recv.kind == "selfdict" and key.kind == "fname":
            # obj.__dict__[field name] = value: the raw slot, no bookkeeping
            raw = st.heap[(recv.t, "raw")].t
            st.heap[(recv.t, "raw")] = SV("arr", z3.Store(raw, key.t, to_obj(v)))
            return True
        if recv.kind == "selfdict":
            k = concrete_str(key.t) if key.kind == "str" else None
            if k in ("_serialized_on_wire", "_unknown_fields"):
                st.heap[(recv.t, k)] = v
                return True
            if k == "_group_current" and v.kind == "gclocal":
                st.heap[(recv.t, "gc")] = SV("arr", v.t)
                st.heap[(recv.t, "_init")] = sv_bool(True)
                return True
            raise Unsupported("self.__dict__[...] = ... for another key")
        if recv.kind == "gcdict" and v.kind == "fname":
            g = ex.coerce(key, "str", st, "group name")
            raw, gc, hl, hdk, hdv = self.cells(st, recv.t)
            st.heap[(recv.t, "gc")] = SV("arr", z3.Store(gc, g.t, v.t))
            return True
        if recv.kind == "kwlocal" and key.kind == "fname":
            for k_, v_ in list(st.env.items()):
                if v_ is recv:
                    st.env[k_] = SV("kwlocal", z3.Store(recv.t, key.t, to_obj(v)))
                    return True
            raise Unsupported("item assignment on an untracked keyword table")
        if recv.kind == "gclocal" and v.kind == "fname":
            g = ex.coerce(key, "str", st, "group name")
            for k_, v_ in list(st.env.items()):
                if v_ is recv:
                    st.env[k_] = SV("gclocal", z3.Store(recv.t, g.t, v.t))
                    return True
            raise Unsupported("item assignment on an untracked dict")
        if recv.kind != "obj":
            return None
        raw, gc, hl, hdk, hdv = self.cells(st)
        ex.oblige(st, f"type[item assignment target is a dict]@{ex.cur_line}", PyObj.is_PDict(recv.t), "safety")
        r = PyObj.pdict(recv.t)
        ks, vs = hdk[r], hdv[r]
        ko, vo = to_obj(key), to_obj(v)
        idx = z3.IndexOf(ks, z3.Unit(ko), 0)
        n = z3.Length(ks)
        nks = z3.If(idx >= 0, ks, z3.Concat(ks, z3.Unit(ko)))
        nvs = z3.If(idx >= 0, z3.Concat(z3.SubSeq(vs, 0, idx), z3.Unit(vo), z3.SubSeq(vs, idx + 1, n - idx - 1)),
                    z3.Concat(vs, z3.Unit(vo)))
        st.heap[("$H", "dk")] = SV("arr", z3.Store(hdk, r, nks))
        st.heap[("$H", "dv")] = SV("arr", z3.Store(hdv, r, nvs))
        return True

    def identical_hook(self, ex, a, b, st):
        if a.kind == "obj" and b.kind == "obj":
            def singletons(t):
                if z3.is_app(t) and t.decl().name() in ("PPlaceholder", "PNone"):
                    return True
                return z3.is_app(t) and t.decl().kind() == z3.Z3_OP_ITE and singletons(t.arg(1)) and singletons(t.arg(2))
            for x, y in ((a, b), (b, a)):
                if singletons(y.t):
                    return x.t == y.t
        for x, y in ((a, b), (b, a)):
            if x.kind == "defgen" and y.kind == "func" and y.t == ("builtin", "list"):
                return F_dkind(x.t) == z3.StringVal("list")
        return None

    def call_other(self, ex, tag, pos, kw, st, node):
        if tag[0] == "msgcls_ctor" and not pos and set(kw) <= {"**"}:
            # type(self)(**kwargs): the dataclass __init__ stores every keyword (PLACEHOLDER where absent) and then runs
            # __post_init__ (its contract, verified in this area) on the new object  (A-DATACLASS-INIT)
            ex.assumption("A-DATACLASS-INIT")
            key = f"new!{next(_newctr)}"
            st2 = st.clone()
            st2.heap[(key, "raw")] = SV("arr", kw["**"].t if "**" in kw else z3.K(IntS, PyObj.PPlaceholder))
            st2.heap[(key, "gc")] = SV("arr", z3.Const(f"{key}.gc0", GC_S))
            st2.heap[(key, "_serialized_on_wire")] = sv_bool(z3.Bool(f"{key}.sow0"))
            st2.heap[(key, "_unknown_fields")] = sv_bytes(z3.Const(f"{key}.unk0", BytesS))
            st2.heap[(key, "_init")] = sv_bool(False)
            new = SV("ref", key, "rawmsg")
            out = []
            for st3, r in ex.call_repo("betterproto.Message.__post_init__", [], {}, st2, node, recv=new):
                out.append((st3, r if isinstance(r, Raised) else new))
            return out
        if tag[0] == "fieldcls" and not pos and not kw:
            return [(st, SV("fieldmsg", tag[1]))]
        if tag[0] == "wrapper_cls" and not pos and not kw:
            return [(st, SV("wkmsg", ("wrap", tag[1])))]
        return None

    def call_class(self, ex, tag, pos, kw, st, node):
        if tag[0] == "class" and tag[1].endswith(".Placeholder") and not pos and not kw:
            return [(st, SV("obj", PyObj.PPlaceholder))]
        if tag[0] == "class" and tag[1].endswith("._Timestamp") and not pos and not kw:
            return [(st, SV("wkmsg", ("ts", None)))]
        if tag[0] == "class" and tag[1].endswith("._Duration") and not pos and not kw:
            return [(st, SV("wkmsg", ("dur", None)))]
        return None

    def truth_hook(self, ex, v):
        if v.kind == "fname":
            return z3.And(v.t != -1, v.t != -2)     # -1: None entry / missing number; -2: key absent from the selection table
        if v.kind == "maptypes":
            return F_ptype(v.t) == z3.StringVal("map")
        if v.kind == "arr":
            return None
        return None

    def metarec(self, i):
        return SV("rec", {"number": sv_int(F_number(i)), "proto_type": sv_str(F_ptype(i)), "group": SV("obj", group_obj(i)),
                          "wraps": SV("obj", wraps_obj(i)), "optional": sv_bool(F_optional(i)),
                          "map_types": SV("maptypes", i)}, "FieldMetadata")

    def index_hook(self, ex, seq, idx, st):
        if seq.kind == "maptypes":
            c = concrete_int(ex.as_int(idx, st))
            if c not in (0, 1):
                raise Unsupported("map_types index")
            return [(st, sv_str((F_mapk if c == 0 else F_mapv)(seq.t)))]
        if seq.kind == "bpattr" and seq.t[1] == "oneof_group_by_field" and idx.kind == "fname":
            ex.oblige(st, f"key-present@{ex.cur_line}", F_group(idx.t) != z3.StringVal(""), "safety")
            return [(st, sv_str(F_group(idx.t)))]
        if seq.kind == "bpattr" and seq.t[1] == "oneof_field_by_group":
            g = ex.coerce(idx, "str", st, "group name")
            return [(st, SV("groupfields", g.t))]
        if seq.kind == "gcdict":
            g = ex.coerce(idx, "str", st, "group name")
            raw, gc, hl, hdk, hdv = self.cells(st, seq.t)
            return [(st, SV("fname", gc[g.t]))]
        if seq.kind == "bpattr" and seq.t[1] == "default_gen" and idx.kind == "fname":
            ex.oblige(st, f"key-present@{ex.cur_line}", z3.And(idx.t >= 0, idx.t < NF), "safety")
            return [(st, SV("defgen", idx.t))]
        if seq.kind == "bpattr" and seq.t[1] == "cls_by_field" and idx.kind == "fname":
            ex.oblige(st, f"key-present@{ex.cur_line}", z3.And(idx.t >= 0, idx.t < NF), "safety")
            return [(st, SV("func", ("fieldcls", idx.t)))]
        if seq.kind == "bpattr" and seq.t[1] == "meta_by_field_name" and idx.kind == "fname":
            ex.oblige(st, f"key-present@{ex.cur_line}", z3.And(idx.t >= 0, idx.t < NF), "safety")
            return [(st, self.metarec(idx.t))]
        return None

    def iter_hook(self, ex, st, itv):
        if itv.kind == "iter_fields":
            return NF, (lambda k: sv_tuple([SV("fname", k), self.metarec(k)]))
        if itv.kind == "groupfields":
            mem = GROUP_MEMBERS(itv.t)
            return z3.Length(mem), (lambda k: SV("rec", {"name": SV("fname", mem[k])}, "Field"))
        if itv.kind == "iter_fieldnames":
            return NF, (lambda k: SV("fname", k))
        if itv.kind == "bpattr" and itv.t[1] == "sorted_field_names":
            # the field names in sorted order: a permutation of the field indices (A-SORTED-PERM)
            ex.assumption("A-SORTED-PERM")
            q, i = z3.Int("q!sp"), z3.Int("i!sp")
            st.assume(z3.ForAll([q], z3.Implies(z3.And(0 <= q, q < NF), z3.And(0 <= SORTED_AT(q), SORTED_AT(q) < NF, SORTED_POS(SORTED_AT(q)) == q))))
            st.assume(z3.ForAll([i], z3.Implies(z3.And(0 <= i, i < NF), z3.And(0 <= SORTED_POS(i), SORTED_POS(i) < NF, SORTED_AT(SORTED_POS(i)) == i))))
            return NF, (lambda k: SV("fname", SORTED_AT(k)))
        raw, gc, hl, hdk, hdv = self.cells(st)
        if itv.kind == "obj":
            # iteration over a dynamically typed value: a list by the path condition
            ex.oblige(st, f"type[iterable is a list]@{ex.cur_line}", PyObj.is_PList(itv.t), "safety")
            xs = hl[PyObj.plist(itv.t)]
            return z3.Length(xs), (lambda k: SV("obj", xs[k]))
        if itv.kind == "iter_dictitems":
            ks, vs = hdk[PyObj.pdict(itv.t)], hdv[PyObj.pdict(itv.t)]
            return z3.Length(ks), (lambda k: sv_tuple([SV("obj", ks[k]), SV("obj", vs[k])]))
        return None

    def call_method(self, ex, recv, name, pos, kw, st, node):
        if recv.kind == "bpattr" and recv.t[1] == "meta_by_field_name" and name == "items":
            return [(st, SV("iter_fields", recv.t[0]))]
        if recv.kind == "super":
            key = recv.t
            raw, gc, hl, hdk, hdv = self.cells(st, key)
            from .sym import concrete_str
            if name == "__getattribute__":
                nm = pos[0]
                if nm.kind == "fname":
                    ex.oblige(st, f"field-index@{ex.cur_line}", z3.And(nm.t >= 0, nm.t < NF), "safety")
                    return [(st, SV("obj", raw[nm.t]))]
                if nm.kind == "str" and concrete_str(nm.t) == "_group_current":
                    init = st.heap[(key, "_init")].t
                    out = []
                    s_r = st.clone()
                    s_r.assume(z3.Not(init))
                    if ex.feasible(s_r):
                        out.append((s_r, Raised(SV("exc", "AttributeError"))))
                    s_n = st.clone()
                    s_n.assume(init)
                    if ex.feasible(s_n):
                        out.append((s_n, SV("gcdict", key)))
                    return out
                raise Unsupported("super().__getattribute__ of another name")
            if name == "__setattr__":
                nm, v = pos[0], pos[1]
                if nm.kind == "fname":
                    st2 = st.clone()
                    st2.heap[(key, "raw")] = SV("arr", z3.Store(raw, nm.t, to_obj(v)))
                    return [(st2, NONE)]
                raise Unsupported("super().__setattr__ of a non-field name")
        if recv.kind == "gclocal" and name == "setdefault":
            g = ex.coerce(pos[0], "str", st, "group name").t
            arr = recv.t
            new = z3.If(arr[g] == -2, z3.Store(arr, g, z3.IntVal(-1)), arr)
            # rebinding: the local variable holding this dict is updated in place
            for k_, v_ in list(st.env.items()):
                if v_ is recv:
                    st2 = st.clone()
                    st2.env[k_] = SV("gclocal", new)
                    return [(st2, NONE)]
            raise Unsupported("setdefault on an untracked dict")
        if recv.kind == "bpattr" and recv.t[1] == "oneof_group_by_field" and name == "get":
            nm = pos[0]
            if nm.kind != "fname":
                raise Unsupported("oneof_group_by_field.get of a non-field name")
            return [(st, SV("obj", group_obj(nm.t)))]
        if recv.kind == "bpattr" and recv.t[1] == "field_name_by_number" and name == "get":
            n = ex.as_int(pos[0], st)
            return [(st, SV("fname", IDX_OF_NUMBER(n)))]
        if recv.kind == "func" and recv.t[0] == "fieldcls" and name == "try_value":
            # contract of Enum.try_value (enum area): an instance of the field's enum class whose int value is the argument
            ex.assumption("C-TRYVALUE")
            return [(st, SV("obj", PyObj.PEnum(recv.t[1], ex.as_int(pos[0], st))))]
        if recv.kind == "fieldmsg" and name == "parse":
            i = recv.t
            b = ex.as_bytes(pos[0], st)
            spec = ex.eng.spec
            ex.assumption("C-SUBPARSE")
            m = spec.call(ex, "MSGPARSE", [sv_int(i), sv_bytes(b)], st).t
            e = spec.call(ex, "ENTRYPARSE", [sv_int(i), sv_bytes(b)], st).t
            r = z3.If(F_ptype(i) == z3.StringVal("map"), e, m)
            st2 = st.clone()
            st2.assume(z3.Implies(F_ptype(i) != z3.StringVal("map"), z3.And(PyObj.is_PMsg(m), MSG_SOW(m))))
            out = [(st2, SV("obj", r))]
            for exc in ("ValueError", "EOFError", "UnicodeDecodeError", "StructError"):
                out.append((st, Raised(SV("exc", exc))))
            return out
        if recv.kind == "wkmsg" and name == "parse":
            b = ex.as_bytes(pos[0], st)
            out = [(st, SV("wkparsed", (recv.t, b)))]
            for exc in ("ValueError", "EOFError", "UnicodeDecodeError", "StructError"):
                out.append((st, Raised(SV("exc", exc))))
            return out
        if recv.kind == "wkparsed" and name in ("to_datetime", "to_timedelta"):
            kind, b = recv.t
            spec = ex.eng.spec
            ex.assumption("C-SUBPARSE")
            if name == "to_datetime":
                r = spec.call(ex, "TSPARSE", [sv_bytes(b)], st).t
                fact = PyObj.is_PDatetime(r)
            else:
                r = spec.call(ex, "DURPARSE", [sv_bytes(b)], st).t
                fact = PyObj.is_PTimedelta(r)
            st2 = st.clone()
            st2.assume(fact)
            return [(st2, SV("obj", r)), (st, Raised(SV("exc", "OverflowError")))]
        if recv.kind == "obj" and name in ("append", "extend"):
            raw, gc, hl, hdk, hdv = self.cells(st)
            ex.oblige(st, f"type[.{name}() receiver is a list]@{ex.cur_line}", PyObj.is_PList(recv.t), "safety")
            r = PyObj.plist(recv.t)
            if name == "append":
                add = z3.Unit(to_obj(pos[0]))
            else:
                a = to_obj(pos[0])
                ex.oblige(st, f"type[.extend() argument is a list]@{ex.cur_line}", PyObj.is_PList(a), "safety")
                add = hl[PyObj.plist(a)]
            st2 = st.clone()
            st2.heap[("$H", "list")] = SV("arr", z3.Store(hl, r, z3.Concat(hl[r], add)))
            return [(st2, NONE)]
        if recv.kind == "gcdict" and name == "get":
            g = pos[0]
            raw, gc, hl, hdk, hdv = self.cells(st, recv.t)
            gs = ex.coerce(g, "str", st, "group name")
            return [(st, SV("fname", gc[gs.t]))]
        if recv.kind == "obj" and name == "items" and not pos:
            ex.oblige(st, f"type[.items() receiver is a dict]@{ex.cur_line}", PyObj.is_PDict(recv.t), "safety")
            return [(st, SV("iter_dictitems", recv.t))]
        if recv.kind == "ref" and recv.extra == "rawmsg":
            if name == "_get_field_default":
                fn = pos[0] if pos else kw["field_name"]
                return [(st, SV("obj", DEFOBJ(fn.t), ("defaultof", fn.t)))]
            plain = name[len("_Message"):] if name.startswith("_Message__") else name
            q = f"betterproto.Message.{plain}"
            return list(ex.call_repo(q, pos, kw, st, node, recv=recv))
        if recv.kind == "ref" and recv.extra == "msg":
            if name == "_get_field_default":
                fn = pos[0] if pos else kw["field_name"]
                return [(st, SV("obj", DEFOBJ(fn.t), ("defaultof", fn.t)))]
            q = f"betterproto.Message.{name}"
            if q in ex.eng.contracts:
                return list(ex.call_repo(q, pos, kw, st, node, recv=recv))
            raise Unsupported(f"message method {name} has no contract")
        return None

    def call_builtin(self, ex, name, pos, kw, st, node):
        if name == "getattr" and len(pos) == 2 and pos[0].kind == "ref" and pos[0].extra == "msg" and pos[1].kind == "fname":
            return self.model_getattr(ex, st, pos[0], pos[1].t)
        if name == "getattr" and len(pos) == 3 and pos[0].kind == "ref" and pos[0].extra == "msg" and pos[1].kind == "fname":
            # getattr(m, name, default): the default replaces an AttributeError
            out = []
            for st1, v in self.model_getattr(ex, st, pos[0], pos[1].t):
                if isinstance(v, Raised) and v.exc.t == "AttributeError":
                    out.append((st1, pos[2]))
                else:
                    out.append((st1, v))
            return out
        if name == "super" and not pos and "self" in st.env:
            return [(st, SV("super", st.env["self"].t))]
        if name in ("copy.deepcopy", "deepcopy") and len(pos) == 1 and pos[0].kind == "obj":
            # A-DEEPCOPY: immutable scalars (and the PLACEHOLDER singleton, whose __deepcopy__ returns itself) are their
            # own deep copies; containers and messages become new objects about which nothing is assumed here
            ex.assumption("A-DEEPCOPY")
            t = pos[0].t
            d = DEEPCOPY(t)
            scalar = z3.Or(PyObj.is_PNone(t), PyObj.is_PPlaceholder(t), PyObj.is_PBool(t), PyObj.is_PInt(t), PyObj.is_PFloat(t),
                           PyObj.is_PStr(t), PyObj.is_PBytes(t), PyObj.is_PEnum(t), PyObj.is_PDatetime(t), PyObj.is_PTimedelta(t))
            st2 = st.clone()
            st2.assume(z3.Implies(scalar, d == t))
            st2.assume(z3.Implies(z3.Not(scalar), z3.Not(PyObj.is_PPlaceholder(d))))
            return [(st2, SV("obj", d))]
        if name == "dict" and len(pos) == 1 and not kw and pos[0].kind in ("gcdict", "gclocal"):
            # dict(d): a new dictionary with the same entries (the selection table of a message)
            if pos[0].kind == "gclocal":
                return [(st, SV("gclocal", pos[0].t))]
            raw, gc, hl, hdk, hdv = self.cells(st, pos[0].t)
            return [(st, SV("gclocal", gc))]
        if name == "hasattr" and len(pos) == 2 and pos[0].kind == "ref" and pos[0].extra == "rawmsg":
            nm = pos[1]
            from .sym import concrete_str
            if nm.kind == "str" and concrete_str(nm.t) == "_group_current":
                return [(st, sv_bool(st.heap[(pos[0].t, "_init")].t))]
            raise Unsupported("hasattr(self, ...) for another name")
        if name == "hasattr" and len(pos) == 2 and pos[0].kind == "obj":
            return [(st, sv_bool(PyObj.is_PMsg(pos[0].t)))]      # hasattr(value, "_betterproto"): every Message has it
        if name == "setattr" and len(pos) == 3 and pos[0].kind == "ref" and pos[0].extra == "msg" and pos[1].kind == "fname":
            return [(self.model_setattr(ex, st, pos[0], pos[1].t, to_obj(pos[2])), NONE)]
        if name == "len" and pos and pos[0].kind == "ref" and pos[0].extra == "msg":
            return list(ex.call_repo("betterproto.Message.__len__", [], {}, st, node, recv=pos[0]))
        if name == "bytes" and pos and pos[0].kind == "ref" and pos[0].extra == "msg":
            return list(ex.call_repo("betterproto.Message.__bytes__", [], {}, st, node, recv=pos[0]))
        return None

    def model_getattr(self, ex, st, selfv, i):
        """contract of Message.__getattribute__ for a field name (DESIGN A.4): AttributeError for an unselected
        oneof member; otherwise the stored value, materialising the default (raw' = raw[i := default])."""
        ex.assumption("C-GETATTR")
        raw, gc, hl, hdk, hdv = self.cells(st, selfv.t)
        out = []
        unsel = z3.And(F_group(i) != z3.StringVal(""), gc[F_group(i)] != i)
        s_r = st.clone()
        s_r.assume(unsel)
        if ex.feasible(s_r):
            out.append((s_r, Raised(SV("exc", "AttributeError"))))
        s_n = st.clone()
        s_n.assume(z3.Not(unsel))
        v = val_of(raw, i)
        s_n.heap[(selfv.t, "raw")] = SV("arr", z3.Store(raw, i, v))
        if ex.feasible(s_n):
            out.append((s_n, SV("obj", v)))
        return out

    def compare_hook(self, ex, op, a, b, st):
        if isinstance(op, (ast.Eq, ast.NotEq)):
            r = None
            isd = lambda x: x.kind == "obj" and isinstance(x.extra, tuple) and x.extra[0] == "defaultof"
            if isd(a) or isd(b):
                d, v = (a, b) if isd(a) else (b, a)
                raw, gc, hl, hdk, hdv = self.cells(st)
                vo = to_obj(v)
                r = ex.eng.spec.call(ex, "ISDEF", [sv_str(F_dkind(d.extra[1])), SV("obj", vo), sv_int(cn_of(hl, hdk, vo))], st).t
            elif (a.kind == "func" and a.t[0] == "fieldcls") or (b.kind == "func" and b.t[0] == "fieldcls"):
                c, o = (a, b) if (a.kind == "func" and a.t[0] == "fieldcls") else (b, a)
                if o.kind == "func" and o.t[0] == "builtin" and o.t[1].split(".")[-1] in ("datetime", "timedelta"):
                    r = F_ckind(c.t[1]) == z3.StringVal(o.t[1].split(".")[-1])
            elif a.kind == "fname" and b.kind == "fname":
                r = a.t == b.t
            elif a.kind == "fname" and b.kind == "none" or b.kind == "fname" and a.kind == "none":
                f = a if a.kind == "fname" else b
                r = f.t == -1
            if r is not None:
                return z3.Not(r) if isinstance(op, ast.NotEq) else r
        if isinstance(op, (ast.Is, ast.IsNot)) and (a.kind == "fname" and b.kind == "none" or b.kind == "fname" and a.kind == "none"):
            f = a if a.kind == "fname" else b
            r = f.t == -1
            return z3.Not(r) if isinstance(op, ast.IsNot) else r
        return None

    def contains_hook(self, ex, a, b, st):
        if b.kind == "bpattr" and b.t[1] == "oneof_group_by_field" and a.kind == "fname":
            return F_group(a.t) != z3.StringVal("")
        return None

    def equal_hook(self, ex, a, b, st):
        for x, y in ((a, b), (b, a)):
            if x.kind == "fname" and y.kind == "str":
                return F_name(x.t) == y.t
        return None

    def dict_literal(self, ex, st):
        if ex.qualname.endswith(("Message.__copy__", "Message.__deepcopy__")):
            # kwargs = {}: a keyword table indexed by field; an absent keyword is the dataclass default PLACEHOLDER
            return [(st, SV("kwlocal", z3.K(IntS, PyObj.PPlaceholder)))]
        if not ex.qualname.endswith("__post_init__"):
            return None
        return [(st, SV("gclocal", z3.K(StrS, z3.IntVal(-2))))]

    def havoc_hook(self, ex, st, refs):
        return None


MSG_ASSUMPTIONS = {
    "A-DEEPCOPY": "copy.deepcopy of an immutable scalar value (None, bool, int, float, str, bytes, Enum member, datetime, timedelta) and of the PLACEHOLDER singleton is the value itself; of a list / dict / message it is some other non-PLACEHOLDER object (its contents are the subject of the bounded stand-in)",
    "A-SORTED-PERM": "ProtoClassMetadata.sorted_field_names enumerates every field name exactly once (a permutation of the field table)",
    "A-DATACLASS-INIT": "the dataclass-generated __init__ stores each keyword argument in the slot of its field, PLACEHOLDER (the declared default) for absent keywords, and then calls __post_init__",
    "C-GETATTR": "getattr(self, field) behaves as the contract of Message.__getattribute__ (DESIGN A.4): AttributeError iff the field is an unselected oneof member, else the stored value with the default materialised in place",
    "A-DEFAULT-CANON": "the read-only proofs identify the freshly created default of a field with one canonical default object per field (DEFOBJ(i)); sound for code that does not mutate defaults",
    "A-OBJ": "dataclass instances are plain __dict__ objects; field access goes through __getattribute__/__setattr__ only",
}
