"""Helpers shared by the relation checkers."""
import os
import sys

sys.path.insert(0, os.path.join(os.environ.get("PYVC_REPO", "/repo"), "src"))

import signal
from contextlib import contextmanager
from datetime import datetime, timedelta

import betterproto

from . import corpus as C


class Fail(str):
    """A failure string carrying a stable ``match`` key."""

    def __new__(cls, match, detail):
        self = super().__new__(cls, "%s: %s" % (match, detail))
        self.match = match
        self.detail = detail
        return self


class Collector:
    """Collects failures of one case, at most one per match key."""

    def __init__(self, prop):
        self.prop = prop
        self.items = []
        self._seen = set()

    def add(self, what, detail):
        match = "%s:%s" % (self.prop, what)
        if match in self._seen:
            return
        self._seen.add(match)
        self.items.append(Fail(match, str(detail)[:600]))

    def add_diffs(self, site, diffs, prefix="", origin=None, collapse=False, skip_keys=(), norm=None):
        deep_fields = set()
        if origin is not None:
            deep_fields = {st.path.split(".")[0] for st in C.steps_of(origin) if st.path and "." in st.path}
        for d in diffs:
            key = d.base_key if collapse else d.key
            if key in skip_keys:
                continue
            if norm is not None:
                key = "%s:%s" % (d.what, norm(d.tag))
            if deep_fields and d.path and d.path[0] in deep_fields:
                key = "deep-assigned-submessage:%s" % getattr(d, "what", "diff")
            self.add("%s:%s" % (site, key), prefix + str(d))

    def result(self):
        return self.items


def short(v, limit=120):
    try:
        r = repr(v)
    except Exception as e:  # repr itself may be broken by a seeded defect
        r = "<repr raises %s>" % type(e).__name__
    return r if len(r) <= limit else r[: limit - 3] + "..."


def exc(e):
    return "%s(%s)" % (type(e).__name__, str(e)[:160])


import re as _re


def strip_label(tag):
    return _re.sub(r"^(optional-|oneof-|repeated-|map-[a-z0-9]+key-)", "", tag)


def blame(m, fails, collapse=False, norm=None):
    tags = _blame(m, fails)
    if collapse:
        tags = sorted({strip_label(t) for t in tags})
    if norm is not None:
        tags = sorted({norm(t) for t in tags})
    return tags


_INTS = "(?:u|s)?int(?:32|64)|s?fixed(?:32|64)"


def json_tag(tag):
    """Root-cause level normalisation of tags for the JSON properties."""
    if "duration-" in tag or "timestamp-" in tag:
        tag = strip_label(tag)
    tag = _re.sub(r"timestamp-(utc|offset)-epoch$", "timestamp-epoch", tag)
    tag = _re.sub(r"bytes-(empty|nonempty)$", "bytes", tag)
    tag = tag.replace("enum-undefined-negative", "enum-undefined")
    tag = _re.sub(r"(%s)-(zero|pos|neg)(-beyond2p53)?$" % _INTS, r"\1", tag)
    tag = _re.sub(r"(float|double)-(inf|nan)$", r"\1-nonfinite", tag)
    return tag


def _blame(m, fails):
    """Attribute a failure of instance m to recipe steps: tags of the
    single-step (single-element) variants for which ``fails(inst)`` is true."""
    tags = []
    try:
        for tag, inst in C.single_step_variants(m):
            try:
                bad = bool(fails(inst))
            except Exception:
                bad = True
            if bad:
                tags.append(tag)
    except Exception:
        pass
    if tags:
        return sorted(set(tags))
    steps = C.steps_of(m)
    if not steps:
        return ["default-instance"]
    return ["combination"]


def raises(fn, *a, **k):
    try:
        fn(*a, **k)
    except Exception as e:
        return e
    return None


class Timeout(Exception):
    pass


@contextmanager
def time_limit(seconds):
    def handler(signum, frame):
        raise Timeout()

    try:
        old = signal.signal(signal.SIGALRM, handler)
        signal.setitimer(signal.ITIMER_REAL, seconds)
        armed = True
    except (ValueError, AttributeError):
        armed = False
    try:
        yield
    finally:
        if armed:
            signal.setitimer(signal.ITIMER_REAL, 0)
            signal.signal(signal.SIGALRM, old)


def parse_fresh(cls, data):
    return cls().parse(data)


def same_message(exp, got, presence=True, nan_tolerant=False):
    """Diffs between two betterproto messages: structural diff plus the
    library's own ``==`` (both directions)."""
    diffs = C.bp_diff(exp, got, presence=presence)
    if not diffs:
        try:
            if nan_tolerant and _nan_in_container(exp):
                pass
            elif not (exp == got) or not (got == exp):
                tag = "eq-operator-nan-in-container" if _nan_in_container(exp) else "eq-operator"
                diffs.append(C.Diff(type(exp), None, "value", tag, "fields agree but == is False"))
        except Exception as e:
            diffs.append(C.Diff(type(exp), None, "error", "eq-raises", exc(e)))
    return diffs


def _nan_in_container(m, depth=0):
    if depth > 6:
        return False
    for f in C.SCHEMAS[type(m)]:
        if C._lazy_unset(m, f):
            continue
        ok, v = C._get(m, f.name)
        if not ok:
            continue
        items = v if isinstance(v, list) else (list(v.values()) if isinstance(v, dict) else None)
        if items is not None:
            for x in items:
                if isinstance(x, float) and x != x:
                    return True
                if isinstance(x, betterproto.Message) and _nan_in_container(x, depth + 1):
                    return True
        elif isinstance(v, betterproto.Message) and _nan_in_container(v, depth + 1):
            return True
    return False


def oneof_state(m):
    return {g: C._selected(m, g) for g in C.groups(type(m))}


def noneness(m):
    out = {}
    for f in C.SCHEMAS[type(m)]:
        if f.label == "optional" or f.wraps:
            ok, v = C._get(m, f.name)
            out[f.name] = v is None
    return out


# ------------------------------------------------------------- type checking

_INT_KINDS = {
    "int32",
    "int64",
    "uint32",
    "uint64",
    "sint32",
    "sint64",
    "fixed32",
    "fixed64",
    "sfixed32",
    "sfixed64",
}


def _scalar_typed(kind, type_name, v):
    if kind in _INT_KINDS:
        return isinstance(v, int) and not isinstance(v, bool)
    if kind in ("float", "double"):
        return isinstance(v, float)
    if kind == "bool":
        return isinstance(v, bool)
    if kind == "string":
        return isinstance(v, str)
    if kind == "bytes":
        return isinstance(v, bytes)
    if kind == "enum":
        return isinstance(v, C.ENUM_BY_NAME[type_name])
    return False


def _elem_typed(f_kind, type_name, wraps, v, depth):
    if wraps:
        return _scalar_typed(wraps, None, v)
    if f_kind == "message":
        if type_name == "Timestamp":
            return isinstance(v, datetime)
        if type_name == "Duration":
            return isinstance(v, timedelta)
        cls = C.CLASS_BY_NAME[type_name]
        return isinstance(v, cls) and not typed_problems(v, depth + 1)
    return _scalar_typed(f_kind, type_name, v)


def decl_class(f, part=None):
    """Coarse declared class of a field (or of its map key / value)."""
    if part == "key":
        kind, tn, wraps = f.key_kind, None, None
    elif part == "value":
        kind, tn, wraps = f.value_kind, f.value_type_name, None
    else:
        kind, tn, wraps = f.kind, f.type_name, f.wraps
    if wraps:
        return "wrapper"
    if kind == "message":
        return {"Timestamp": "timestamp", "Duration": "duration"}.get(tn, "message")
    if kind in ("string", "bytes", "enum", "bool", "map"):
        return kind
    if kind in ("float", "double"):
        return "float"
    return "int"


def _holds(v):
    if isinstance(v, betterproto.Message):
        return "Message"
    return type(v).__name__


def typed_problems(m, depth=0):
    """List of (field, tag, description) where a field of m does not hold a
    value of its declared Python type.  tag: <declared class>-holds-<type>."""
    out = []
    if depth > 12:
        return out
    cls = type(m)
    for f in C.SCHEMAS[cls]:
        if f.group and C._selected(m, f.group) != f.name:
            continue
        if C._lazy_unset(m, f):
            continue
        ok, v = C._get(m, f.name)
        if not ok:
            out.append((f, "unreadable", "selected/declared field unreadable"))
            continue
        if f.kind == "map":
            if not isinstance(v, dict):
                out.append((f, "map-holds-%s" % _holds(v), "%s holds %s" % (f.name, short(v))))
                continue
            for k, item in v.items():
                if not _scalar_typed(f.key_kind, None, k):
                    out.append((f, "map-key-%s-holds-%s" % (decl_class(f, "key"), _holds(k)), "%s key %s" % (f.name, short(k))))
                if not _elem_typed(f.value_kind, f.value_type_name, None, item, depth):
                    out.append((f, "map-value-%s-holds-%s" % (decl_class(f, "value"), _holds(item)), "%s value %s" % (f.name, short(item))))
            continue
        dc = decl_class(f)
        if f.label == "repeated":
            if not isinstance(v, list):
                out.append((f, "repeated-%s-holds-%s" % (dc, _holds(v)), "%s holds %s" % (f.name, short(v))))
                continue
            for item in v:
                if not _elem_typed(f.kind, f.type_name, f.wraps, item, depth):
                    out.append((f, "repeated-%s-element-holds-%s" % (dc, _holds(item)), "%s element %s" % (f.name, short(item))))
                    break
            continue
        if v is None:
            if not (f.label == "optional" or f.wraps):
                out.append((f, "%s-holds-NoneType" % dc, "%s is None (not optional)" % f.name))
            continue
        if not _elem_typed(f.kind, f.type_name, f.wraps, v, depth):
            out.append((f, "%s-holds-%s" % (dc, _holds(v)), "%s holds %s" % (f.name, short(v))))
    return out
