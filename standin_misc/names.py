"""Exhaustive name-mapping check for betterproto (property C19).

Quantifier: every identifier ([A-Za-z_][A-Za-z0-9_]*) of length <= maxlen over the alphabet {a, b, A, B, 1, _}, every
Python keyword / soft keyword / builtin name used as a proto name, and a corpus of real-world field names.

Checks (every failure class has a stable "match" key that never contains the identifier):
 (1) pythonize_field_name / pythonize_method_name / pythonize_class_name / pythonize_enum_member_name produce valid,
     non-keyword identifiers;
 (2) pythonize_field_name, pythonize_method_name, pythonize_class_name and sanitize_name are idempotent;
 (3) for names protoc accepts as field names (first character a letter): with py = pythonize_field_name(name), the key
     to_dict emits (casing(py).rstrip("_") for camel and snake casing) and the proto name itself are mapped back to py
     by safe_snake_case (what from_dict applies to every key); plus the same thing end to end through a real
     betterproto.Message with that single int32 field.

CLI: python -m standin_misc.names --maxlen 6 --seed N     (one JSON object on stdout, exit code always 0)
"""
import os, sys; sys.path.insert(0, os.path.join(os.environ.get("PYVC_REPO", "/repo"), "src"))  # noqa: E401,E702

import argparse
import builtins
import dataclasses
import itertools
import json
import keyword
import random
import re
import time

import betterproto  # noqa: E402
from betterproto import casing as _casing  # noqa: E402
from betterproto.compile import naming as _naming  # noqa: E402

PROPERTY = "C19"
ALPHABET = "abAB1_"
IDENT = re.compile(r"[A-Za-z_][A-Za-z0-9_]*\Z")

CORPUS = [
    "address_line_1", "address_line_2", "ipv4_address", "ipv6_address", "x_y_z", "HTTPStatus", "userID", "user_id_2",
    "_leading", "trailing_", "double__underscore", "camelCaseName", "PascalCaseName", "SCREAMING_SNAKE", "a1b2",
    "id", "name", "type", "value", "user_id", "created_at", "updated_at", "first_name", "last_name", "email_address",
    "phone_number", "zip_code", "postal_code", "country_code", "is_active", "has_children", "page_token",
    "next_page_token", "page_size", "total_count", "error_code", "error_message", "http_status_code", "HTTPResponse",
    "URL", "url", "URLPath", "requestID", "request_id", "sha256", "sha256_hash", "md5_sum", "utf8_string", "int32_value",
    "int64_value", "uint32Value", "float_value_1", "point_x", "point_y", "x", "y", "z", "x1", "y1", "x_1", "y_2",
    "a_b", "a_b_c", "a_b_c_d", "rgb_r_g_b", "oauth2_token", "oauth_2_token", "s3_bucket", "s3Bucket", "ec2_instance_id",
    "field_1", "field_2a", "field1", "Field", "FIELD", "field_", "field__name", "fieldName", "FieldName", "FIELD_NAME",
    "field_NAME", "fieldNAME", "fieldName2", "field_name_2", "field2name", "field2Name", "k8s_pod", "K8sPod",
    "lat_lng", "latLng", "e2e_test", "b2b_account", "level_3_data", "line_1", "line1", "tax_id_1", "iOSVersion",
    "ios_version", "macOS", "mac_os", "XMLHttpRequest", "xml_http_request", "getHTTPResponseCode", "HTTP2Enabled",
    "http2_enabled", "is_3d", "is3D", "class", "from", "import", "lambda", "None", "self", "cls", "def", "async", "await",
    "_", "__", "_private", "__dunder__", "a", "A", "aA", "Aa", "AA", "a1", "A1", "a_1", "A_1", "a__1", "a_1_b", "a_b1",
]


_CORPUS_SET = set(CORPUS)


def _identifiers(maxlen):
    """All strings over ALPHABET of length 1..maxlen (the count is reported), filtered to identifiers."""
    total = 0
    out = []
    for n in range(1, maxlen + 1):
        for tup in itertools.product(ALPHABET, repeat=n):
            total += 1
            if tup[0] != "1":
                out.append("".join(tup))
    return total, out


def _valid(name):
    return isinstance(name, str) and name.isidentifier()


def _words(py):
    return [w for w in py.strip("_").split("_")]


_SINGLE = re.compile(r"[a-z]\Z")
_SINGLE_DIG = re.compile(r"[a-z][0-9]*\Z")


def camel_shapes(py):
    """Shape(s) of a python field name that explain why camelCase loses word boundaries (root causes by shape)."""
    ws = _words(py)
    shapes = []
    if any(w[:1].isdigit() for w in ws[1:]):
        # foo_1 -> foo1 : the underscore in front of a word that starts with a digit is not recoverable
        shapes.append("digit-after-underscore")
    for i in range(1, len(ws) - 1):
        if _SINGLE.match(ws[i]) and _SINGLE_DIG.match(ws[i + 1]):
            # x_y_z -> xYZ : two adjacent single letter words become one upper-case run
            shapes.append("single-letter-words")
            break
    if "" in ws:
        shapes.append("empty-word")
    return shapes or ["other"]


class Collector:
    def __init__(self):
        self.by_key = {}
        self.failed = set()

    def add(self, key, name, detail):
        e = self.by_key.get(key)
        if e is None:
            e = self.by_key[key] = {"match": key, "example": name, "detail": detail, "count": 0, "_seen": set()}
        if name not in e["_seen"]:
            e["_seen"].add(name)
            e["count"] += 1
            if name in _CORPUS_SET and "corpus_example" not in e:
                e["corpus_example"] = name
            # prefer a short example, keep the first among equals
            if len(name) < len(e["example"]):
                e["example"], e["detail"] = name, detail
        self.failed.add(name)

    def result(self):
        out = []
        for k in sorted(self.by_key):
            e = dict(self.by_key[k])
            e.pop("_seen")
            out.append(e)
        return out


_MSG_CACHE = {}


def _message_class(py):
    cls = _MSG_CACHE.get(py)
    if cls is None:
        cls = dataclasses.make_dataclass(
            "M", [(py, int, betterproto.int32_field(1))], bases=(betterproto.Message,), eq=False, repr=False
        )
        _MSG_CACHE[py] = cls
    return cls


def check_end_to_end(name, py, col, model_fail):
    """Round trip through a real message with that one field. model_fail: {"camel": bool, "snake": bool}."""
    try:
        M = _message_class(py)
    except Exception as e:  # noqa: BLE001
        col.add("C19:e2e:cannot-declare-field", name, "dataclass field %r (from %r): %s: %s" % (py, name, type(e).__name__, e))
        return
    want = M(**{py: 7})
    for label, cas in (("camel", betterproto.Casing.CAMEL), ("snake", betterproto.Casing.SNAKE)):
        try:
            d = want.to_dict(casing=cas)
            got = M().from_dict(d)
            ok = got == want
            info = "%r: field %r -> to_dict(%s) = %r -> from_dict gives %s = %r" % (name, py, label, d, py, getattr(got, py))
        except Exception as e:  # noqa: BLE001
            ok = False
            info = "%r: field %r: %s: %s" % (name, py, type(e).__name__, e)
        if not ok:
            for shape in (camel_shapes(py) if label == "camel" else ["any"]):
                col.add("C19:roundtrip-drops-field:%s:%s" % (label, shape), name, info)

    try:
        got = M().from_dict({name: 7})
        if got != want:
            col.add("C19:roundtrip-drops-field:proto-name", name,
                    "%r: from_dict({%r: 7}) gives %s = %r" % (name, name, py, getattr(got, py)))
    except Exception as e:  # noqa: BLE001
        col.add("C19:roundtrip-drops-field:proto-name", name, "%r: %s: %s" % (name, type(e).__name__, e))


_NB_CACHE = {}


def check_neighbours(name, py, col):
    """The key <-> field mapping inside a message that also has fields with RELATED names: a map field called like the
    name with a scalar sibling `<name>_value` (both declaration orders), and a sibling `<name>_` / `<name>_1`.  Every field
    must survive to_dict -> from_dict in both casings."""
    for variant, specs in (
        ("map-then-sibling", [(py, "map"), (py + "_value", "int"), (py + "_key", "int")]),
        ("sibling-then-map", [(py + "_value", "int"), (py, "map")]),
        ("numbered-siblings", [(py, "int"), (py + "_1", "int"), (py + "1", "int")]),
    ):
        key = (py, variant)
        cls = _NB_CACHE.get(key)
        if cls is None:
            try:
                fields = []
                for i, (fname, kind) in enumerate(specs):
                    if kind == "map":
                        fields.append((fname, dict, betterproto.map_field(i + 1, betterproto.TYPE_STRING, betterproto.TYPE_INT32)))
                    else:
                        fields.append((fname, int, betterproto.int32_field(i + 1)))
                if len({f[0] for f in fields}) != len(fields) or not all(_valid(f[0]) and not keyword.iskeyword(f[0]) for f in fields):
                    _NB_CACHE[key] = False
                    continue
                cls = dataclasses.make_dataclass("N", fields, bases=(betterproto.Message,), eq=False, repr=False)
            except Exception:  # noqa: BLE001
                cls = False
            _NB_CACHE[key] = cls
        if not cls:
            continue
        kw = {}
        for i, (fname, kind) in enumerate(specs):
            kw[fname] = {"w": 3} if kind == "map" else 10 + i
        want = cls(**kw)
        for label, cas in (("camel", betterproto.Casing.CAMEL), ("snake", betterproto.Casing.SNAKE)):
            try:
                d = want.to_dict(casing=cas)
                if len(d) != len(specs):
                    continue        # two fields share one key in this casing: not a name-mapping question of this check
                got = cls().from_dict(d)
                ok = bytes(got) == bytes(want)
                info = "%r: %s: to_dict(%s) = %r -> from_dict gives %r" % (name, variant, label, d, got)
            except Exception as e:  # noqa: BLE001
                ok, info = False, "%r: %s: %s: %s" % (name, variant, type(e).__name__, e)
            if not ok:
                col.add("C19:roundtrip-drops-field:related-names:%s:%s" % (variant, label), name, info)


def check_name(name, col, e2e):
    fns = (
        ("field", _naming.pythonize_field_name),
        ("method", _naming.pythonize_method_name),
        ("class", _naming.pythonize_class_name),
    )
    outs = {}
    for label, fn in fns:
        try:
            out = fn(name)
        except Exception as e:  # noqa: BLE001
            col.add("C19:raises:%s" % label, name, "%s(%r): %s: %s" % (fn.__name__, name, type(e).__name__, e))
            continue
        outs[label] = out
        # (1)
        if not _valid(out):
            shape = "empty" if out == "" else "leading-digit" if str(out)[:1].isdigit() else "other"
            col.add("C19:not-identifier:%s:%s" % (label, shape), name, "%s(%r) = %r" % (fn.__name__, name, out))
        elif keyword.iskeyword(out):
            col.add("C19:keyword:%s" % label, name, "%s(%r) = %r" % (fn.__name__, name, out))
        # (2)
        try:
            again = fn(out)
            if again != out:
                col.add("C19:not-idempotent:%s" % fn.__name__, name, "%r -> %r -> %r" % (name, out, again))
        except Exception as e:  # noqa: BLE001
            col.add("C19:raises:%s" % label, name, "%s(%r): %s: %s" % (fn.__name__, out, type(e).__name__, e))
    s1 = _casing.sanitize_name(name)
    if _casing.sanitize_name(s1) != s1:
        col.add("C19:not-idempotent:sanitize_name", name, "%r -> %r -> %r" % (name, s1, _casing.sanitize_name(s1)))
    # enum members: an unrelated enum name, the conventional ENUM_ prefix, and the prefix glued to the name
    for variant, member, enum_name in (("plain", name, "Foo"), ("prefixed", "FOO_" + name, "Foo"),
                                       ("glued", "FOO" + name, "Foo"), ("self", name, name)):
        try:
            out = _naming.pythonize_enum_member_name(member, enum_name)
        except Exception as e:  # noqa: BLE001
            col.add("C19:raises:enum_member", name, "pythonize_enum_member_name(%r, %r): %s: %s"
                    % (member, enum_name, type(e).__name__, e))
            continue
        if not _valid(out):
            col.add("C19:not-identifier:enum_member:%s" % variant, name,
                    "pythonize_enum_member_name(%r, %r) = %r" % (member, enum_name, out))
        elif keyword.iskeyword(out):
            col.add("C19:keyword:enum_member:%s" % variant, name,
                    "pythonize_enum_member_name(%r, %r) = %r" % (member, enum_name, out))
    # (3) only for names protoc accepts as field names
    if not name[0].isalpha() or "field" not in outs:
        return outs
    py = outs["field"]
    model_fail = {}
    for label, cas in (("camel", _casing.camel_case), ("snake", _casing.snake_case)):
        key = cas(py).rstrip("_")
        back = _casing.safe_snake_case(key)
        # (the pure re-casing model `safe_snake_case(key) == field` is only a MECHANISM; what the property demands
        #  is decided end to end below: from_dict must find the field for the key to_dict emitted)
        model_fail[label] = None
    if e2e and _valid(py) and not keyword.iskeyword(py):
        check_end_to_end(name, py, col, model_fail)
        if len(name) <= 3 or "_" in name[1:-1] and len(name) <= 12 and not name.isupper():
            check_neighbours(name, py, col)
    return outs


def run(maxlen=6, seed=0, e2e="all"):
    t0 = time.monotonic()
    rng = random.Random(seed)
    total_strings, exhaustive = _identifiers(maxlen)
    kw = sorted(set(keyword.kwlist) | set(keyword.softkwlist) | set(dir(builtins)))
    # ... and their case variants (none / NONE / None all become the class name None)
    kw = sorted(set(kw) | {v for k in keyword.kwlist + keyword.softkwlist for v in (k.lower(), k.upper(), k.capitalize())})
    kw = [k for k in kw if IDENT.match(k)]
    names = []
    seen = set()
    origin = {"corpus": 0, "keywords_builtins": 0, "exhaustive": 0}
    for src, lst in (("corpus", CORPUS), ("keywords_builtins", kw), ("exhaustive", exhaustive)):
        for n in lst:
            if n not in seen and IDENT.match(n):
                seen.add(n)
                names.append((src, n))
                origin[src] += 1
    # end-to-end sample: corpus + keywords + everything up to length 4 + a seeded sample of the longer ones,
    # or (default) every name -- classes are cached per python field name so this stays cheap
    if e2e == "all":
        e2e_set = None
    else:
        longer = [n for s, n in names if s == "exhaustive" and len(n) > 4 and n[0].isalpha()]
        e2e_set = {n for s, n in names if s != "exhaustive" or len(n) <= 4}
        e2e_set.update(rng.sample(longer, min(len(longer), int(e2e))))
    col = Collector()
    nontrivial = 0
    n_e2e = 0
    samples = []
    want_samples = {"address_line_1", "x_y_z", "HTTPStatus", "class"}
    for src, n in names:
        do_e2e = e2e_set is None or n in e2e_set
        outs = check_name(n, col, do_e2e)
        if do_e2e and n[0].isalpha():
            n_e2e += 1
        py = outs.get("field")
        if py is not None and (py != n or _casing.camel_case(py) != n):
            nontrivial += 1
        if n in want_samples and py is not None:
            key = _casing.camel_case(py).rstrip("_")
            samples.append({"proto": n, "field": py, "class": outs.get("class"), "camel_key": key,
                            "from_dict_lookup": _casing.safe_snake_case(key)})
    return {
        "property": PROPERTY,
        "cases": len(names),
        "distinct_nontrivial": nontrivial,
        "exhaustive": True,
        "maxlen": maxlen,
        "alphabet": ALPHABET,
        "strings_enumerated": total_strings,
        "identifiers_from_alphabet": origin["exhaustive"],
        "keywords_builtins": origin["keywords_builtins"],
        "corpus": origin["corpus"],
        "end_to_end_messages": n_e2e,
        "distinct_message_classes": len(_MSG_CACHE),
        "failures": col.result(),
        "n_failures": len(col.failed),
        "samples": samples,
        "seed": seed,
        "repo": os.environ.get("PYVC_REPO", "/repo"),
        "seconds": round(time.monotonic() - t0, 2),
    }


def main(argv=None):
    ap = argparse.ArgumentParser(prog="standin_misc.names")
    ap.add_argument("--maxlen", type=int, default=6)
    ap.add_argument("--seed", type=int, default=0)
    ap.add_argument("--e2e", default="all", help="'all' or the number of longer (len > 4) names to sample for the "
                                                 "end-to-end message round trip")
    a = ap.parse_args(argv)
    try:
        print(json.dumps(run(a.maxlen, a.seed, a.e2e)))
    except Exception as e:  # noqa: BLE001  (exit code is always 0)
        import traceback
        print(json.dumps({"property": PROPERTY, "error": "%s: %s" % (type(e).__name__, e),
                          "traceback": traceback.format_exc()[-2000:], "cases": 0, "failures": [], "n_failures": 0}))
    return 0


if __name__ == "__main__":
    sys.exit(main())
