"""Contracts for the Message encode side: dump / __len__ / __bytes__ / SerializeToString (C09; C06 C08 C01 C02).

The message class is symbolic (pyvc.models_msg): WF() constrains the field table, TY() says every field holds an
in-range value.  WIRE() = EMITC(field 0) ++ ... ++ EMITC(field NF-1) ++ unknown fields, over the entry state."""
from pyvc.contracts import FN, LOOP, LEMMA
from pyvc.models_wire import WirePlugin
from pyvc.models_msg import MsgPlugin
from contracts import varint as _v, single as _s

DEPENDS = ['varint', 'single']
SPEC_MODULES = ("wire", "msg")
PLUGINS = [MsgPlugin(), WirePlugin()]

MSG = {"self": "model:msg"}
PRE = [("well-formed-class", "WF()"), ("fresh-defaults", "DEFAULTS()"), ("in-range-values", "TY()")]
FRAME = ("observer-frame", "forall(0, NF, lambda jq: same(VAL(jq), old(VAL(jq)))) and GCARR() == old(GCARR())"
                           " and self._unknown_fields == old(self._unknown_fields)"
                           " and self._serialized_on_wire == old(self._serialized_on_wire)"
                           " and HEAP_LIST() == old(HEAP_LIST()) and HEAP_DK() == old(HEAP_DK()) and HEAP_DV() == old(HEAP_DV())")

LEMMAS = _s.LEMMAS + [
    LEMMA("ALLTY_NTH", {"t": "str", "w": "str", "xs": "objseq", "k": "int", "q": "int"},
          ["ALLTY(t, w, xs, k)", "0 <= q < k"], "TYV(t, w, xs[q]) and not is_none(xs[q])",
          measure="k", ih=[("q < k - 1", {"k": "k - 1"})], props=["C09", "C01", "C06"]),
    LEMMA("VARINT_NONEMPTY", {"v": "int"}, ["v >= 0"], "len(VARINT(v)) >= 1", props=["C09", "C06"]),
    LEMMA("AX_PAYLOAD_NONEMPTY", {"us": "int", "s": "str", "fmt": "str", "v": "obj"}, [],
          "implies(us != 0, len(TSWIRE(us)) > 0 and len(DURWIRE(us)) > 0) and (len(UTF8(s)) == 0) == (s == '')"
          " and len(PACKF(fmt, v)) > 0",
          assumed=True, props=["C06", "C01"],
          notes="A-UTF8 / A-STRUCT / time area: a non-zero Timestamp or Duration, a non-empty string and any fixed-width value have non-empty payloads"),
    LEMMA("C06_EMISSION_FOLLOWS_PRESENCE",
          {"n": "int", "t": "str", "w": "str", "g": "bool", "opt": "bool", "dk": "str", "sel": "bool", "v": "obj", "vsow": "bool",
           "cn": "int", "xs": "objseq", "ks": "objseq", "vs": "objseq", "mk": "str", "mv": "str"},
          ["1 <= n < (1 << 29)", "KNOWN_KIND(t)", "TYFIELD(t, w, opt, dk, v, cn, xs, ks, vs, mk, mv)", "cn >= 0",
           "g == sel", "implies(w != '', t == 'message')",
           "dk == 'list' or dk == 'dict' or dk == 'none' or dk == 'message' or dk == 'datetime' or dk == 'timedelta' or dk == 'float' or dk == 'str' or dk == 'bytes' or dk == 'int'",
           "(t == 'map') == (dk == 'dict')",
           "implies(dk != 'list' and dk != 'dict', (dk == 'none') if (opt or w != '') else ((dk == 'message' or dk == 'datetime' or dk == 'timedelta') if t == 'message'"
           " else (dk == ('float' if (t == 'float' or t == 'double') else ('str' if t == 'string' else ('bytes' if t == 'bytes' else 'int'))))))",
           "implies(dk == 'message', is_msg(v))", "implies(dk == 'datetime', is_dt(v))", "implies(dk == 'timedelta', is_td(v))",
           "implies(dk == 'str', is_str(v))", "implies(dk == 'bytes', is_bytes(v))", "implies(dk == 'float', is_float(v))",
           "implies(dk == 'int', is_int(v))", "(dk == 'list') == is_list(v)", "(dk == 'dict') == is_dict(v)",
           "implies(dk == 'none', opt or w != '' or is_none(v))",
           "implies(dk == 'str', t == 'string')", "implies(dk == 'bytes', t == 'bytes')",
           "implies(dk == 'float', t == 'float' or t == 'double')", "implies(dk == 'int', IS_VARINT_KIND(t) or IS_FIXED32(t) or IS_FIXED64(t))",
           "implies(dk == 'message' or dk == 'datetime' or dk == 'timedelta', t == 'message' and w == '')",
           # recorded defect K-C06-deep-assign: a sub-message that is not default although it does not report serialized_on_wire
           "not (dk == 'message' and not vsow and not ISDEF(dk, v, cn) and not g and not opt)"],
          "EMITC(n, t, w, g, opt, dk, sel, v, vsow, cn, xs, ks, vs, mk, mv) == EMITP(n, t, w, g, opt, dk, sel, v, vsow, cn, xs, ks, vs, mk, mv)",
          use=[("AX_PAYLOAD_NONEMPTY", {"us": "dt_us(v)", "s": "as_str(v)", "fmt": "FMT(t)", "v": "v"}),
               ("AX_PAYLOAD_NONEMPTY", {"us": "td_us(v)", "s": "as_str(v)", "fmt": "FMT(t)", "v": "v"}),
               ("VARINT_NONEMPTY", {"v": "U64(as_int(v))"}), ("VARINT_NONEMPTY", {"v": "ZZ(as_int(v))"}),
               ("VARINT_NONEMPTY", {"v": "n * 8"}), ("VARINT_NONEMPTY", {"v": "n * 8 + 1"}), ("VARINT_NONEMPTY", {"v": "n * 8 + 5"}),
               ("ZZ_NONNEG", {"v": "as_int(v)"})],
          props=["C06", "C01", "C02"],
          notes="what dump() emits for a readable field (EMITC, proved equal to the code) is exactly what the presence rules of "
                "the property demand (EMITP): defaults of implicit-presence fields are skipped, set optional / oneof / wrapper "
                "fields are emitted even when default, a plain sub-message iff serialized_on_wire"),
]


def _loops(acc, lenmode):
    """invariants of the field loop and its three inner loops; acc(x) wraps a byte expression"""
    W = (lambda e: f"len({e})") if lenmode else (lambda e: e)
    if lenmode:
        outer = ("size", "size == len(old(WIREUPTO(fi)))")
        l2 = ("items", "size == SL + len(ITEMS(F_number(fi), F_ptype(fi), F_wraps(fi), XS(value), ji))")
        l3 = ("entries", "size == SL + len(ENTRIES(F_number(fi), F_mapk(fi), F_mapv(fi), KS(value), VS(value), ji))")
        init = {"SL": "size"}
    else:
        outer = ("written", "stream.data == old(stream.data) + PFX + old(WIREUPTO(fi)) and stream.pos == len(stream.data)")
        l2 = ("items", "stream.data == SL + ITEMS(F_number(fi), F_ptype(fi), F_wraps(fi), XS(value), ji) and stream.pos == len(stream.data)")
        l3 = ("entries", "stream.data == SL + ENTRIES(F_number(fi), F_mapk(fi), F_mapv(fi), KS(value), VS(value), ji) and stream.pos == len(stream.data)")
        init = {"SL": "stream.data"}
    return {
        0: LOOP(index="fi", inv=[FRAME, outer]),
        1: LOOP(index="ji", inv=[FRAME, ("buf", "buf == PACKED(F_ptype(fi), XS(value), ji) and ji <= CN(value)")]),
        2: LOOP(index="ji", inv=[FRAME, l2, ("bound", "ji <= CN(value)")], ghost_init=init),
        3: LOOP(index="ji", inv=[FRAME, l3, ("bound", "ji <= CN(value)")], ghost_init=init),
    }


ELEM_USE = [("ALLTY_NTH", {"t": "F_ptype(fi)", "w": "F_wraps(fi)", "xs": "XS(value)", "k": "CN(value)", "q": "ji"}),
            ("ALLTY_NTH", {"t": "F_mapk(fi)", "w": "''", "xs": "KS(value)", "k": "CN(value)", "q": "ji"}),
            ("ALLTY_NTH", {"t": "F_mapv(fi)", "w": "''", "xs": "VS(value)", "k": "CN(value)", "q": "ji"})]

INST = ["fi", "fi - 1"]

CONTRACTS = [
    FN("betterproto.Message._include_default_value_for_oneof", types={**MSG, "field_name": "any", "meta": "any"}, inline=True),
    FN("betterproto.Message.dump",
       types={**MSG, "stream": "stream", "delimit": "int"}, returns="none", modifies=["self", "stream"],
       requires=PRE + [("append-position", "stream.pos == len(stream.data)")],
       ghost={"PFX": "VARINT(len(WIRE())) if delimit == -1 else b''"},
       ensures=[("C09-dump-writes-the-encoding", "stream.data == old(stream.data) + PFX + old(WIRE())"), FRAME],
       top=["C09-dump-writes-the-encoding"],
       loops=_loops(None, False), use=ELEM_USE, inst_terms=INST,
       props=["C09", "C06", "C08", "C10", "C01", "C02", "C14", "C07"]),
    FN("betterproto.Message.__len__",
       types={**MSG}, returns="int", modifies=["self"],
       requires=PRE,
       ensures=[("C09-len-is-encoded-size", "result == len(old(WIRE()))"), FRAME],
       top=["C09-len-is-encoded-size"],
       loops=_loops(None, True), use=ELEM_USE, inst_terms=INST,
       props=["C09", "C08", "C10", "C14"]),
    FN("betterproto.Message.__bytes__",
       types={**MSG}, returns="bytes", modifies=["self"],
       requires=PRE,
       ensures=[("C09-bytes-is-the-encoding", "result == old(WIRE())"), FRAME],
       top=["C09-bytes-is-the-encoding"],
       props=["C09", "C01", "C02", "C14"]),
    FN("betterproto.Message.SerializeToString",
       types={**MSG}, returns="bytes", modifies=["self"],
       requires=PRE,
       ensures=[("C09-same-as-bytes", "result == old(WIRE())"), FRAME],
       top=["C09-same-as-bytes"],
       props=["C09", "C14"]),
    FN("betterproto.Message.__getstate__",
       types={**MSG}, returns="bytes", modifies=["self"],
       requires=PRE,
       ensures=[("C14-pickle-state-is-the-encoding", "result == old(WIRE())"), FRAME],
       top=["C14-pickle-state-is-the-encoding"],
       props=["C14"]),
    FN("betterproto.Message.__reduce__",
       types={**MSG}, returns="any", modifies=["self"],
       requires=PRE,
       ensures=[("C14-pickle-arguments-are-the-encoding", "result[1][0] == old(WIRE())"), FRAME],
       top=["C14-pickle-arguments-are-the-encoding"],
       props=["C14"]),
]
EXTRA_CONTRACTS = _s.CONTRACTS + _v.CONTRACTS
