"""C05 — canonical proto3 JSON mapping."""
AREAS = ["time", "jsonscalar"]
LEVEL = "other"
EXPLANATION = (
    "Bounded differential against google.protobuf.json_format in both directions on the stand-in corpus; deductive part: "
    "the scalar helpers _scalar_to_json / _dump_float produce exactly the canonical form JSONS (64-bit integers as decimal "
    "strings, bytes as base64, non-finite floats as the three strings), _scalar_from_json / _map_key_from_json read it back "
    "(spec/jsonmap.py, written from the proto3 JSON mapping), plus the Timestamp / Duration converters. The per-field composition "
    "in to_dict / _from_dict_init is decided by the bounded differential.")
ASSUMED = ["to_dict / _from_dict_init are not under contract: bounded differential only"]
from pyvc.check import standin_bounded
from pyvc.check import external_bounded
BOUNDED = [standin_bounded("C05"),
           external_bounded("deep-schema:C05", "standin.deep", ["C05", "--n", "150"], ["C05", "--n", "800"],
                            "nested schema + twin classes: our JSON read by the reference, the reference JSON read by us")]
