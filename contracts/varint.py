"""Contracts for the varint primitives (C16; used by C01 C02 C09 C10 C17).

Top-level postconditions come from the statement of C16; invariants and helper clauses from the code.
"""
from pyvc.contracts import FN, LOOP, LEMMA

INT64_DOMAIN = "-(1 << 63) <= old(value) < (1 << 64)"

LEMMAS = [
    # ---- facts about the spec functions, proved by well-founded induction ---------------------------
    LEMMA("VARINT_LEN", {"v": "int"}, ["v >= 0"], "len(VARINT(v)) == NB(v)",
          measure="v", ih=[("v >= 128", {"v": "v // 128"})], props=["C16", "C09"]),
    LEMMA("NB_BOUNDS", {"v": "int", "k": "int"},
          ["1 <= k <= 10", "(1 << (7 * (k - 1))) <= v or (k == 1 and v >= 0)", "v < (1 << (7 * k))"],
          "NB(v) == k",
          measure="k", ih=[("k > 1", {"v": "v // 128", "k": "k - 1"})], props=["C16", "C09"],
          notes="128**(k-1) <= v < 128**k  =>  the canonical varint of v has exactly k bytes"),
    LEMMA("VDEC_VARINT", {"v": "int"}, ["v >= 0"], "VDEC(VARINT(v)) == v",
          measure="v", ih=[("v >= 128", {"v": "v // 128"})], props=["C16", "C01"],
          notes="decoding the canonical encoding gives the value back"),
    LEMMA("CONT_LAST", {"s": "bytes"}, ["len(s) >= 1"],
          "CONT(s) == (CONT(s[:len(s) - 1]) and s[len(s) - 1] >= 128)",
          measure="len(s)", ih=[("len(s) > 1", {"s": "s[1:]"})], props=["C16"]),
    LEMMA("CONT_NTH", {"s": "bytes", "i": "int"}, ["CONT(s)", "0 <= i < len(s)"], "s[i] >= 128",
          measure="len(s)", ih=[("i > 0", {"s": "s[1:]", "i": "i - 1"})], props=["C16"]),
    LEMMA("VARINT_CANON", {"v": "int"}, ["0 <= v < (1 << 64)"],
          "VWF(VARINT(v)) and (VARINT(v)[len(VARINT(v)) - 1] != 0 or v == 0)",
          measure="v", ih=[("v >= 128", {"v": "v // 128"})],
          use=[("VARINT_LEN", {"v": "v"}), ("VARINT_LEN", {"v": "v // 128"}),
               ("NB_BOUNDS", {"v": "v", "k": "NB(v)"})],
          props=["C16"],
          notes="canonical + minimal: a well-formed varint of <= 10 bytes whose last byte is non-zero unless v == 0"),
    LEMMA("VARINT_LEN_MAX", {"v": "int", "k": "int"}, ["0 <= v < (1 << 64)", "1 <= k <= 10", "(1 << (7 * (k - 1))) <= v or (k == 1)", "v < (1 << (7 * k))"],
          "len(VARINT(v)) == k and k <= 10 and implies(v >= (1 << 63), k == 10)",
          use=[("VARINT_LEN", {"v": "v"}), ("NB_BOUNDS", {"v": "v", "k": "k"})], props=["C16"],
          notes="negatives (U64 >= 2**63) take exactly 10 bytes; nothing in the 64-bit domain takes more"),
    LEMMA("SLICE_TAIL", {"d": "bytes", "p": "int", "q": "int"}, ["0 <= p < q <= len(d)"],
          "d[p:q][1:] == d[p + 1:q] and d[p:q][0] == d[p] and len(d[p:q]) == q - p",
          props=["C08", "C10", "C17"], notes="pure sequence fact used to unfold head-first spec functions on slices"),
    LEMMA("SLICE_CONCAT", {"d": "bytes", "p": "int", "q": "int", "r": "int"}, ["0 <= p <= q <= r <= len(d)"],
          "d[p:q] + d[q:r] == d[p:r]", props=["C08", "C10", "C17"], notes="pure sequence fact"),
    LEMMA("VLEN_UNIQUE", {"s": "bytes", "k": "int"}, ["1 <= k <= len(s)", "VWF(s[:k])"], "VLEN(s) == k",
          measure="k", ih=[("k > 1", {"s": "s[1:]", "k": "k - 1"})],
          props=["C16", "C08", "C10", "C17"],
          notes="a well-formed varint prefix is the unique first varint of the buffer"),
    LEMMA("VDEC_LAST", {"s": "bytes"}, ["1 <= len(s) <= 10"],
          "VDEC(s) == VDEC(s[:len(s) - 1]) + ((s[len(s) - 1] % 128) << (7 * (len(s) - 1)))",
          measure="len(s)", ih=[("len(s) > 1", {"s": "s[1:]"})], props=["C16", "C02"],
          notes="decoder step: appending byte b at position k adds (b mod 128)*128**k"),
    LEMMA("VDEC_BOUND", {"s": "bytes"}, ["len(s) <= 10"], "0 <= VDEC(s) < (1 << (7 * len(s)))",
          measure="len(s)", ih=[("len(s) > 0", {"s": "s[1:]"})], props=["C16"]),
    LEMMA("U64_RANGE", {"x": "int"}, ["-(1 << 63) <= x < (1 << 64)"],
          "0 <= U64(x) < (1 << 64) and (U64(x) == x if x >= 0 else U64(x) == x + (1 << 64)) and implies(x < 0, U64(x) >= (1 << 63))",
          props=["C16"]),
    LEMMA("ZIGZAG_INV", {"v": "int"}, [], "UNZZ(ZZ(v)) == v and ZZ(v) >= 0", props=["C16", "C01"]),
    LEMMA("ZIGZAG_RANGE", {"v": "int", "n": "int"}, ["n == 32 or n == 64", "-(1 << (n - 1)) <= v < (1 << (n - 1))"],
          "0 <= ZZ(v) < (1 << n)", props=["C16"]),
    LEMMA("SX_INV", {"v": "int", "n": "int"}, ["n == 32 or n == 64", "-(1 << (n - 1)) <= v < (1 << (n - 1))"],
          "SX(U64(v), n) == v", props=["C16", "C01"],
          notes="sign recovery inverts the 64-bit two's-complement encoding for int32 and int64"),
]

CONTRACTS = [
    FN("betterproto.dump_varint",
       types={"value": "int", "stream": "stream"}, returns="none", modifies=["stream"],
       requires=[("append-position", "stream.pos == len(stream.data)")],
       ghost={"V0": "value + (1 << 64) if value < 0 else value"},
       ensures=[
           ("writes-encoding", "stream.data == old(stream.data) + VARINT(V0) and stream.pos == len(stream.data)"),
           ("C16-canonical", f"implies({INT64_DOMAIN}, stream.data == old(stream.data) + VARINT(U64(old(value))))"),
       ],
       top=["C16-canonical"],
       raises=[("ValueError", "iff", "value < -(1 << 63)")],
       loops={0: LOOP(inv=[("range", "0 <= bits < 128 and value >= 0 and stream.pos == len(stream.data)"),
                           ("written", "stream.data + VARINT(bits + 128 * value) == old(stream.data) + VARINT(V0)")],
                      decreases="value")},
       use=[("U64_RANGE", {"x": "old(value)"})],
       props=["C16", "C09", "C10"],
       witness={"value": 300, "stream": (b"ab", 2)}),
    FN("betterproto.encode_varint",
       types={"value": "int"}, returns="bytes",
       ensures=[
           ("encoding", "result == VARINT(old(value) + (1 << 64) if old(value) < 0 else old(value))"),
           ("C16-canonical", f"implies({INT64_DOMAIN}, result == VARINT(U64(old(value))))"),
       ],
       top=["C16-canonical"],
       raises=[("ValueError", "iff", "value < -(1 << 63)")],
       use=[("U64_RANGE", {"x": "old(value)"})],
       props=["C16", "C01", "C02", "C09"],
       witness={"value": -1}),
    FN("betterproto.size_varint",
       types={"value": "int"}, returns="int",
       ensures=[
           ("C16-size", f"implies({INT64_DOMAIN}, result == len(VARINT(U64(old(value)))))"),
           ("size-range", f"implies({INT64_DOMAIN}, 1 <= result <= 10)"),
           ("size-nonneg", "implies(0 <= old(value) < (1 << 64), result == len(VARINT(old(value))))"),
       ],
       top=["C16-size"],
       raises=[("ValueError", "iff", "value < -(1 << 63)")],
       use=[("U64_RANGE", {"x": "old(value)"}), ("VARINT_LEN", {"v": "U64(old(value))"}),
            ("NB_BOUNDS", {"v": "U64(old(value))", "k": "result"})],
       props=["C16", "C09", "C10"],
       witness={"value": 1 << 35}),
    FN("betterproto.load_varint",
       types={"stream": "stream"}, returns="tuple:int,bytes", modifies=["stream"],
       ghost={"P0": "stream.pos", "D0": "stream.data"},
       ensures=[
           ("frame", "stream.data == D0"),
           ("raw-is-consumed", "result[1] == D0[P0:P0 + len(result[1])] and stream.pos == P0 + len(result[1])"
                               " and P0 + len(result[1]) <= len(D0)"),
           ("wellformed", "VWF(result[1])"),
           ("C16-value", "result[0] == VDEC(result[1]) and result[0] >= 0"),
           ("first-varint", "len(result[1]) == VLEN(D0[P0:])"),
       ],
       top=["C16-value", "raw-is-consumed", "wellformed"],
       raises=[
           ("ValueError", "iff", "len(stream.data) - stream.pos >= 10 and CONT(stream.data[stream.pos:stream.pos + 10])"),
           ("EOFError", "iff", "len(stream.data) - stream.pos < 10 and CONT(stream.data[stream.pos:])"),
       ],
       loops={0: LOOP(index="k",
                      inv=[("count", "k <= 10"),
                           ("raw", "raw == D0[P0:P0 + k] and len(raw) == k and P0 + k <= len(D0)"),
                           ("cont", "CONT(raw)"),
                           ("value", "result == VDEC(raw) and 0 <= result < (1 << (7 * k))"),
                           ("pos", "stream.pos == P0 + k and stream.data == D0")],
                      decreases="10 - k",
                      use=[("VDEC_LAST", {"s": "raw"}), ("CONT_LAST", {"s": "raw"})])},
       on_raise=[("EOFError", "stream.pos == len(D0) and stream.data == D0"),
                 ("ValueError", "stream.pos == P0 + 10 and stream.data == D0")],
       use=[("CONT_NTH", {"s": "D0[P0:P0 + 10]", "i": "k"}), ("CONT_NTH", {"s": "D0[P0:]", "i": "k"}),
            ("CONT_LAST", {"s": "result[1]"}), ("VDEC_LAST", {"s": "result[1]"}),
            ("VLEN_UNIQUE", {"s": "D0[P0:]", "k": "len(result[1])"}), ("VDEC_BOUND", {"s": "result[1]"})],
       props=["C16", "C01", "C02", "C10", "C17"],
       witness={"stream": b"\xac\x02rest"}),
    FN("betterproto.decode_varint",
       types={"buffer": "bytes", "pos": "int"}, returns="tuple:int,int",
       requires=[("pos-nonneg", "pos >= 0")],
       ensures=[
           ("C16-consumed", "pos < result[1] <= pos + 10 and result[1] <= len(buffer)"),
           ("C16-value", "result[0] == VDEC(buffer[pos:result[1]])"),
           ("wellformed", "VWF(buffer[pos:result[1]])"),
           ("first-varint", "result[1] == pos + VLEN(buffer[pos:]) and result[0] >= 0"),
       ],
       top=["C16-value", "C16-consumed"],
       raises=[
           ("ValueError", "iff", "len(buffer) - pos >= 10 and CONT(buffer[pos:pos + 10])"),
           ("EOFError", "iff", "len(buffer) - pos < 10 and CONT(buffer[pos:])"),
       ],
       props=["C16", "C02", "C17"],
       witness={"buffer": b"\x00\xac\x02", "pos": 1}),
]


# ---- sampled inputs for the run-time (CPython) reading of the same contracts ---------------------------
def _ints(rnd, n):
    vals = {0, 1, -1, 127, 128, 255, 256, 300, -(1 << 63), -(1 << 63) - 1, -(1 << 70), (1 << 64) - 1, 1 << 64, (1 << 64) + 5}
    for k in list(range(0, 71, 7)) + [31, 32, 33, 62, 63, 64, 65]:
        for d in (-1, 0, 1):
            vals.add((1 << k) + d)
            vals.add(-(1 << k) + d)
    out = sorted(vals)
    while len(out) < n:
        b = rnd.choice([7, 14, 21, 32, 63, 64, 66])
        out.append(rnd.randrange(-(1 << b), 1 << b))
    return out[:max(n, len(vals))]


def _enc(v):
    out = bytearray()
    while True:
        b = v & 0x7F
        v >>= 7
        if v:
            out.append(b | 0x80)
        else:
            out.append(b)
            return bytes(out)


def _varint_bytes(rnd, n):
    out = [b"", b"\x00", b"\x80", b"\x80\x00", b"\xff" * 9 + b"\x01", b"\xff" * 9 + b"\x7f", b"\xff" * 10, b"\x80" * 10 + b"\x00",
           b"\x80" * 9 + b"\x00", b"\xac\x02", b"\xac\x02tail", b"\xff" * 3]
    for v in _ints(rnd, 0):
        if 0 <= v < (1 << 70):
            e = _enc(v)
            out.append(e)
            out.append(e[:-1])                                   # truncated
            out.append(e[:-1] + bytes([e[-1] | 0x80]) + b"\x00")  # padded (non-minimal)
    while len(out) < n:
        ln = rnd.randrange(0, 12)
        out.append(bytes(rnd.choice([0, 1, 0x7f, 0x80, 0x81, 0xff, rnd.randrange(256)]) for _ in range(ln)))
    return out


SAMPLES = {
    "betterproto.dump_varint": lambda rnd, n: [{"value": v, "stream": (d, len(d))} for v in _ints(rnd, n)
                                               for d in [bytes(rnd.randrange(256) for _ in range(rnd.randrange(3)))]],
    "betterproto.encode_varint": lambda rnd, n: [{"value": v} for v in _ints(rnd, n)],
    "betterproto.size_varint": lambda rnd, n: [{"value": v} for v in _ints(rnd, n)],
    "betterproto.load_varint": lambda rnd, n: [{"stream": (pre + b, len(pre))} for b in _varint_bytes(rnd, n) for pre in (b"", b"\x81")],
    "betterproto.decode_varint": lambda rnd, n: [{"buffer": pre + b, "pos": len(pre)} for b in _varint_bytes(rnd, n) for pre in (b"", b"\x81")],
}

DEPENDS = []
