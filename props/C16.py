"""C16 — scalar codec primitives are total, canonical and mutually inverse."""
AREAS = ["varint", "single", "msgload"]
LEVEL = "proof"
EXPLANATION = (
    "Contracts on the real dump_varint/encode_varint/size_varint/load_varint/decode_varint/_pack_fmt/"
    "_preprocess_single bodies (re-read from /repo each run) are discharged for all integers and all byte "
    "strings: encode == canonical VARINT(U64(x)) on [-2**63, 2**64), ValueError iff below; decoders accept every "
    "well-formed (also non-minimal) varint, report the exact bytes consumed, raise ValueError iff ten continuation "
    "bytes and EOFError iff the input ends first; size == encoded length. Lemmas (well-founded induction over the "
    "spec functions): canonical/minimal form, <= 10 bytes and exactly 10 for negatives, VDEC(VARINT(v)) == v, "
    "zig-zag and sign-extension inverses, injective fixed-width format table. The decode half of the scalar kinds is "
    "Message._postprocess_single (msgload area): its result equals DECV (sign extension of int32/int64/enum, zig-zag inverse, "
    "fixed-width unpack, bool, utf-8) for every payload.")
ASSUMED = [
    "byte-identity of the fixed-width/float encodings with the reference rests on A-STRUCT (struct.pack little-endian layout); "
    "spec functions == reference implementation is validated only by the bounded differential (thorough tier), not proved",
]
from pyvc.check import external_bounded
BOUNDED = [external_bounded("deep-schema:C16", "standin.deep", ["C16", "--n", "150"], ["C16", "--n", "800"],
                            "delimited messages and long runs of varints read through BytesIO / BufferedReader with small buffers / a real file")]
