"""Contracts for the single-value layer: payload encoding and record framing
(C09 scalar layer, C16 zig-zag/fixed, C01/C02 encode direction)."""
from pyvc.contracts import FN, LOOP, LEMMA
from pyvc.models_wire import WirePlugin
from contracts import varint as _v

DEPENDS = ['varint']
SPEC_MODULES = ("wire",)
PLUGINS = [WirePlugin()]

TY = ("typed", "KNOWN_KIND(proto_type) and TYV(proto_type, wraps, value)")
FN_RANGE = ("field-number", "1 <= field_number < (1 << 29)")

LEMMAS = [
    LEMMA("ZZ_NONNEG", {"v": "int"}, [], "ZZ(v) >= 0", props=["C16", "C09"]),
    LEMMA("PACK_FMT_TABLE", {"t": "str"}, ["IS_FIXED32(t) or IS_FIXED64(t)"],
          "(FMT(t) == '<f') == (t == 'float') and (FMT(t) == '<d') == (t == 'double')"
          " and (FMT(t) == '<I') == (t == 'fixed32') and (FMT(t) == '<Q') == (t == 'fixed64')"
          " and (FMT(t) == '<i') == (t == 'sfixed32') and (FMT(t) == '<q') == (t == 'sfixed64')",
          props=["C16"], notes="the spec table is injective: each fixed kind has its own format"),
]

CONTRACTS = [
    FN("betterproto._pack_fmt", types={"proto_type": "str"}, returns="str",
       requires=[("fixed-kind", "IS_FIXED32(proto_type) or IS_FIXED64(proto_type)")],
       ensures=[("C16-format-table", "result == FMT(proto_type)")], top=["C16-format-table"],
       props=["C16", "C02"], witness={"proto_type": "sfixed32"}),
    FN("betterproto._preprocess_single",
       types={"proto_type": "str", "wraps": "str", "value": "obj"}, returns="bytes",
       requires=[TY],
       ensures=[("payload", "result == ENCP(proto_type, wraps, value)")], top=["payload"],
       use=[("U64_RANGE", {"x": "as_int(value)"}), ("ZZ_NONNEG", {"v": "as_int(value)"})],
       props=["C16", "C09", "C01", "C02"]),
    FN("betterproto._len_preprocessed_single",
       types={"proto_type": "str", "wraps": "str", "value": "obj"}, returns="int",
       requires=[TY],
       ensures=[("C09-payload-size", "result == len(ENCP(proto_type, wraps, value))"),
                ("size-range", "0 <= result < (1 << 63)")], top=["C09-payload-size"],
       use=[("U64_RANGE", {"x": "as_int(value)"}), ("ZZ_NONNEG", {"v": "as_int(value)"}),
            ("ZIGZAG_RANGE", {"v": "as_int(value)", "n": "64"})],
       props=["C09", "C10"]),
    FN("betterproto._serialize_single",
       types={"field_number": "int", "proto_type": "str", "value": "obj", "serialize_empty": "bool", "wraps": "str"},
       returns="bytes",
       requires=[FN_RANGE, TY],
       ensures=[("record", "result == RECS(field_number, proto_type, ENCP(proto_type, wraps, value), serialize_empty, wraps)")],
       top=["record"],
       props=["C09", "C01", "C02", "C06"]),
    FN("betterproto._len_single",
       types={"field_number": "int", "proto_type": "str", "value": "obj", "serialize_empty": "bool", "wraps": "str"},
       returns="int",
       requires=[FN_RANGE, TY],
       ensures=[("C09-record-size", "result == len(RECS(field_number, proto_type, ENCP(proto_type, wraps, value), serialize_empty, wraps))")],
       top=["C09-record-size"],
       props=["C09", "C10"]),
]

EXTRA_CONTRACTS = _v.CONTRACTS
LEMMAS = _v.LEMMAS + LEMMAS


# ---- sampled inputs for the run-time reading of the same contracts (bounded stand-in / CPython cross-check) ----
_POOL = {
    "int32": [0, 1, -1, 127, 128, 2**31 - 1, -2**31, 300, -300], "sint32": [0, 1, -1, 63, 64, -64, -65, 2**31 - 1, -2**31],
    "enum": [0, 1, -1, 7, 2**31 - 1, -2**31], "sfixed32": [0, 1, -1, 2**31 - 1, -2**31],
    "int64": [0, 1, -1, 2**31, -2**31 - 1, 2**53 + 1, 2**63 - 1, -2**63], "sint64": [0, 1, -1, 2**31, -2**31 - 1, 2**32, -2**32, 2**62, 2**63 - 1, -2**63],
    "sfixed64": [0, 1, -1, 2**63 - 1, -2**63], "uint32": [0, 1, 2**32 - 1, 2**31], "fixed32": [0, 1, 2**32 - 1],
    "uint64": [0, 1, 2**64 - 1, 2**63, 2**32], "fixed64": [0, 1, 2**64 - 1, 2**63],
    "bool": [True, False], "float": [0.0, -0.0, 1.5, float("inf"), float("-inf"), float("nan"), 3.4028234663852886e38],
    "double": [0.0, -0.0, 1.5, float("inf"), float("nan"), 1e308, 5e-324],
    "string": ["", "a", "\u00e9", "\U0001F600", "\x00"], "bytes": [b"", b"\x00", b"\xff\x00abc"],
}


def _single_samples(with_number):
    def gen(rnd, n):
        out = []
        for t, vals in _POOL.items():
            for v in vals:
                a = {"proto_type": t, "wraps": "", "value": v}
                if with_number:
                    for fn in (1, 15, 16, 2047, 2048, 2**29 - 1):
                        for se in (False, True):
                            out.append(dict(a, field_number=fn, serialize_empty=se))
                else:
                    out.append(a)
        # out-of-range / wrong type: must be filtered by the precondition
        out.append(dict(out[0], value="x"))
        rnd.shuffle(out)
        return out[: max(n, 200)]
    return gen


SAMPLES = {
    "betterproto._preprocess_single": _single_samples(False),
    "betterproto._len_preprocessed_single": _single_samples(False),
    "betterproto._serialize_single": _single_samples(True),
    "betterproto._len_single": _single_samples(True),
    "betterproto._pack_fmt": lambda rnd, n: [{"proto_type": t} for t in ("double", "float", "fixed32", "fixed64", "sfixed32", "sfixed64", "int32")],
}
