"""Spec functions for the decode side: what one record contributes to a message (protobuf merge semantics)."""
from spec.pyobj import (uninterpreted, is_none, is_bool, is_int, as_int, is_float, is_str, as_str, is_bytes,  # noqa
                        as_bytes, is_msg, is_dt, dt_us, is_td, td_us, is_list, is_dict, is_enum, is_placeholder,
                        mk_int, mk_bool, mk_bytes, mk_str, mk_enum, EMPTYSEQ, SEQ1, is_pint)
from spec.wire import (WT, FMT, SX, UNZZ, VDEC, VLEN, IS_VARINT_KIND, IS_FIXED32, IS_FIXED64, U64)  # noqa
from spec.msg import IS_PACKED_KIND  # noqa


def FITS(t: str, repeated: bool, wt: int) -> bool:
    """a field of proto type t may arrive with wire type wt (repeated scalars may also arrive packed)"""
    return wt == WT(t) or (repeated and wt == 2 and IS_PACKED_KIND(t))


@uninterpreted
def UNPACKF(fmt: str, b: bytes) -> object:
    """struct.unpack(fmt, b)[0] (A-STRUCT)"""
    import struct
    return struct.unpack(fmt, b)[0]


@uninterpreted
def UTF8DEC(b: bytes) -> str:
    """str(b, 'utf-8') (A-UTF8)"""
    return str(b, "utf-8")


@uninterpreted
def MSGPARSE(i: int, b: bytes) -> object:
    """the nested message obtained by parsing b with the class of field i -- the same decoding property one
    nesting level down (induction hypothesis on nesting depth)"""
    raise NotImplementedError


@uninterpreted
def ENTRYPARSE(i: int, b: bytes) -> object:
    """the map entry message (key, value) parsed from b for map field i"""
    raise NotImplementedError


@uninterpreted
def TSPARSE(b: bytes) -> object:
    """_Timestamp().parse(b).to_datetime()"""
    import betterproto
    return betterproto._Timestamp().parse(b).to_datetime()


@uninterpreted
def DURPARSE(b: bytes) -> object:
    import betterproto
    return betterproto._Duration().parse(b).to_timedelta()


@uninterpreted
def WRAPPARSE(w: str, b: bytes) -> object:
    import betterproto
    return betterproto._get_wrapper(w)().parse(b).value


def DECVARINT(t: str, i: int, u: int) -> object:
    """Python value of a varint payload u >= 0 for a field of proto type t (field index i names the enum class)"""
    if t == "int32":
        return mk_int(SX(u, 32))
    if t == "int64":
        return mk_int(SX(u, 64))
    if t == "enum":
        return mk_enum(i, SX(u, 32))
    if t == "sint32" or t == "sint64":
        return mk_int(UNZZ(u))
    if t == "bool":
        return mk_bool(u > 0)
    return mk_int(u)


def DECV(t: str, ck: str, w: str, i: int, wt: int, v: object) -> object:
    """Python value denoted by the payload v of one record with wire type wt for a field of proto type t
    (ck: class kind of the field: datetime / timedelta / message / other; w: wrapped kind or '')"""
    if wt == 0:
        return DECVARINT(t, i, as_int(v))
    if wt == 1 or wt == 5:
        return UNPACKF(FMT(t), as_bytes(v))
    if t == "string":
        return mk_str(UTF8DEC(as_bytes(v)))
    if t == "message":
        if ck == "datetime":
            return TSPARSE(as_bytes(v))
        if ck == "timedelta":
            return DURPARSE(as_bytes(v))
        if w != "":
            return WRAPPARSE(w, as_bytes(v))
        return MSGPARSE(i, as_bytes(v))
    if t == "map":
        return ENTRYPARSE(i, as_bytes(v))
    return v


def PAYLOAD_OK(wt: int, v: object) -> bool:
    """shape of ParsedField.value for each wire type (load_fields step contract)"""
    if wt == 0:
        return is_pint(v) and as_int(v) >= 0
    if wt == 1:
        return is_bytes(v) and len(as_bytes(v)) == 8
    if wt == 5:
        return is_bytes(v) and len(as_bytes(v)) == 4
    return wt == 2 and is_bytes(v)


def DECSEQ(t: str, i: int, b: bytes, p: int) -> "objseq":
    """the items of a packed payload b from position p on"""
    if p >= len(b):
        return EMPTYSEQ()
    if IS_FIXED32(t):
        return SEQ1(UNPACKF(FMT(t), b[p:p + 4])) + DECSEQ(t, i, b, p + 4)
    if IS_FIXED64(t):
        return SEQ1(UNPACKF(FMT(t), b[p:p + 8])) + DECSEQ(t, i, b, p + 8)
    return SEQ1(DECVARINT(t, i, VDEC(b[p:p + VLEN(b[p:])]))) + DECSEQ(t, i, b, p + VLEN(b[p:]))


def PYTYPED(t: str, ck: str, w: str, v: object) -> bool:
    """v has the Python type declared for a single value of a field of proto type t (C17: typed result)"""
    if t == "bool":
        return is_bool(v)
    if t == "float" or t == "double":
        return is_float(v)
    if t == "string":
        return is_str(v)
    if t == "bytes":
        return is_bytes(v)
    if t == "message":
        if ck == "datetime":
            return is_dt(v)
        if ck == "timedelta":
            return is_td(v)
        if w != "":
            return True
        return is_msg(v)
    if t == "map":
        return True
    return is_int(v)
