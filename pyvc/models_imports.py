"""Token-term model for the import/reference builders of betterproto.compile.importing (C13).

Package paths are Python lists of CONCRETE length whose elements are symbolic identifier atoms (z3 String
variables constrained to [a-z_][a-z0-9_]*; they contain no '.', ' ' or '"').  Strings built by the code are z3
concatenations of literal chunks and atoms; the spec reading of an import line decomposes such a term into its
token list and interprets it with Python's relative-import rule (A-IMPORT).  Equality of token lists is syntactic
(sound: equal terms are equal strings)."""
import z3

from .sym import SV, NONE, sv_bool, sv_str, sv_int, sv_tuple, concrete_int, concrete_str
from .exec import Unsupported, Raised

PKG_ATOM = z3.Concat(z3.Union(z3.Range("a", "z"), z3.Re("_")), z3.Star(z3.Union(z3.Range("a", "z"), z3.Range("0", "9"), z3.Re("_"))))
TYPE_ATOM = z3.Concat(z3.Union(z3.Range("A", "Z"), z3.Range("a", "z"), z3.Re("_")),
                      z3.Star(z3.Union(z3.Range("A", "Z"), z3.Range("a", "z"), z3.Range("0", "9"), z3.Re("_"))))


def tokens(t):
    """decompose a string term into [('lit', str) | ('atom', term)] (adjacent literals merged)"""
    t = z3.simplify(t)
    out = []

    def walk(x):
        if z3.is_string_value(x):
            if x.as_string():
                if out and out[-1][0] == "lit":
                    out[-1] = ("lit", out[-1][1] + x.as_string())
                else:
                    out.append(("lit", x.as_string()))
        elif z3.is_app(x) and x.decl().kind() == z3.Z3_OP_SEQ_CONCAT:
            for c in x.children():
                walk(c)
        else:
            out.append(("atom", x))
    walk(t)
    return out


def split_tokens(toks, seps):
    """split a token list at separator characters occurring in literal chunks -> list of words, each a token list"""
    words, cur = [], []
    for kind, v in toks:
        if kind == "atom":
            cur.append((kind, v))
            continue
        buf = ""
        for ch in v:
            if ch in seps:
                if buf:
                    cur.append(("lit", buf))
                    buf = ""
                words.append((cur, ch))
                cur = []
            else:
                buf += ch
        if buf:
            cur.append(("lit", buf))
    words.append((cur, None))
    return words


def same_word(a, b):
    if len(a) != len(b):
        return False
    for (ka, va), (kb, vb) in zip(a, b):
        if ka != kb:
            return False
        if ka == "lit" and va != vb:
            return False
        if ka == "atom" and not va.eq(vb):
            return False
    return True


def word_of(sv):
    return tokens(sv.t)


def parse_import_line(line):
    """'from <dots><a.b> import <name> as <alias>' | 'from <dots><a.b> import <name>' | 'import <a.b.c> as <alias>'
    -> dict(kind, dots, path[list of words], name word, alias word)"""
    toks = tokens(line)
    words = [w for w, sep in split_tokens(toks, " ")]
    if not words or not words[0] or words[0][0][0] != "lit":
        return None
    head = words[0][0][1] if len(words[0]) == 1 else None
    if head == "import" and len(words) == 4 and same_word(words[2], [("lit", "as")]):
        path = [w for w, _ in split_tokens(words[1], ".")]
        return {"kind": "absolute", "path": path, "alias": words[3]}
    if head == "from" and len(words) in (4, 6) and same_word(words[2], [("lit", "import")]):
        src = words[1]
        dots = 0
        # leading dots live in the first literal chunk
        if src and src[0][0] == "lit":
            lit = src[0][1]
            while dots < len(lit) and lit[dots] == ".":
                dots += 1
            rest = lit[dots:]
            src = ([("lit", rest)] if rest else []) + src[1:]
        path = [w for w, _ in split_tokens(src, ".")] if src else []
        path = [w for w in path if w]
        name = words[3]
        alias = words[5] if len(words) == 6 and same_word(words[4], [("lit", "as")]) else name
        return {"kind": "relative", "dots": dots, "path": path, "name": name, "alias": alias}
    return None


class ImportsPlugin:
    SPEC_NAMES = {"ADDED_COUNT", "ADDED_LINE", "LINE_RESOLVES_TO_MODULE", "LINE_RESOLVES_TO_CLASS", "REF_IS_ALIAS_DOT_TYPE", "REF_IS_ALIAS",
                  "ALIAS_IS_IDENTIFIER", "REF_IS_QUOTED_TYPE"}

    def make_model_param(self, ex, st, p, model):
        v = getattr(ex, "variant", None) or {}
        if model == "strlist":
            names = v[p]
            out = []
            for n in names:
                a = z3.String(n)
                st.assume(z3.InRe(a, PKG_ATOM))
                ex.inputs[n] = a
                out.append(sv_str(a))
            for a, b in v.get("distinct", []):
                st.assume(z3.String(a) != z3.String(b))
            return sv_tuple(out)
        if model == "typename":
            a = z3.String(p)
            st.assume(z3.InRe(a, TYPE_ATOM))
            ex.inputs[p] = a
            return sv_str(a)
        if model == "strset":
            return SV("strset", [])
        return None

    def spec_has(self, name):
        return name in self.SPEC_NAMES

    def spec_call(self, ex, name, pos, st):
        if name == "ADDED_COUNT":
            return sv_int(len(pos[0].t))
        if name == "ADDED_LINE":
            if len(pos[0].t) != 1:
                raise Unsupported("ADDED_LINE: not exactly one import added")
            return sv_str(pos[0].t[0])
        if name in ("LINE_RESOLVES_TO_MODULE", "LINE_RESOLVES_TO_CLASS"):
            # LINE_RESOLVES_TO_MODULE(line, current_package, target_package)
            # LINE_RESOLVES_TO_CLASS(line, current_package, target_package, type_name): imports the class itself
            ex.assumption("A-IMPORT")
            info = parse_import_line(pos[0].t)
            if info is None:
                return sv_bool(False)
            cur = [word_of(x) for x in pos[1].t]
            tgt = [word_of(x) for x in pos[2].t]
            if info["kind"] == "absolute":
                return sv_bool(name == "LINE_RESOLVES_TO_MODULE" and len(info["path"]) == len(tgt)
                               and all(same_word(a, b) for a, b in zip(info["path"], tgt)))
            up = info["dots"] - 1
            if up < 0 or up > len(cur):
                return sv_bool(False)
            base = cur[: len(cur) - up]
            resolved = base + info["path"] + [info["name"]]
            if name == "LINE_RESOLVES_TO_MODULE":
                want = tgt
            else:
                want = tgt + [word_of(pos[3])]
            return sv_bool(len(resolved) == len(want) and all(same_word(a, b) for a, b in zip(resolved, want)))
        if name in ("REF_IS_ALIAS_DOT_TYPE", "REF_IS_ALIAS"):
            # the returned forward reference is '"' alias [ '.' type ] '"' with the alias the line binds
            info = parse_import_line(pos[1].t)
            if info is None:
                return sv_bool(False)
            ref = tokens(pos[0].t)
            want = [("lit", '"')] + info["alias"] + ([("lit", ".")] + word_of(pos[2]) if name == "REF_IS_ALIAS_DOT_TYPE" else []) + [("lit", '"')]
            return sv_bool(same_word(tokens(z3.Concat(*[z3.StringVal(v) if k == "lit" else v for k, v in want])), ref))
        if name == "REF_IS_QUOTED_TYPE":
            ref = tokens(pos[0].t)
            want = tokens(z3.Concat(z3.StringVal('"'), pos[1].t, z3.StringVal('"')))
            return sv_bool(same_word(ref, want))
        if name == "ALIAS_IS_IDENTIFIER":
            info = parse_import_line(pos[0].t)
            if info is None:
                return sv_bool(False)
            from .models_names import IDENT_RE
            parts = [z3.StringVal(v) if k == "lit" else v for k, v in info["alias"]]
            term = parts[0] if len(parts) == 1 else z3.Concat(*parts)
            return sv_bool(z3.InRe(term, IDENT_RE))
        raise Unsupported(name)

    # ---- code-level models -------------------------------------------------------------------
    def attr_hook(self, ex, st, v, attr):
        if v.kind == "strset":
            return [(st, SV("func", ("method", v, attr)))]
        return None

    def call_method(self, ex, recv, name, pos, kw, st, node):
        if recv.kind == "strset" and name == "add":
            s = ex.coerce(pos[0], "str", st, "import line")
            new = SV("strset", recv.t + [s.t])
            for k_, v_ in list(st.env.items()):
                if v_ is recv:
                    st2 = st.clone()
                    st2.env[k_] = new
                    return [(st2, NONE)]
            raise Unsupported("imports.add on an untracked set")
        if recv.kind == "str" and name == "join":
            sep = recv.t
            items = pos[0]
            if items.kind != "tuple":
                raise Unsupported("str.join of a non-list")
            if not items.t:
                return [(st, sv_str(""))]
            parts = []
            for i, it in enumerate(items.t):
                if i:
                    parts.append(sep)
                parts.append(ex.coerce(it, "str", st, "join item").t)
            return [(st, sv_str(parts[0] if len(parts) == 1 else z3.Concat(*parts)))]
        return None

    def slice_hook(self, ex, seq, lo, hi, st):
        if seq.kind == "tuple":
            n = len(seq.t)
            l = concrete_int(ex.as_int(lo, st)) if lo is not None else 0
            h = concrete_int(ex.as_int(hi, st)) if hi is not None else n
            if l is None or h is None:
                raise Unsupported("symbolic slice of a list")
            return sv_tuple(seq.t[slice(l, h)])
        return None

    def call_builtin(self, ex, name, pos, kw, st, node):
        if name == "os.path.commonprefix" and pos and pos[0].kind == "tuple" and len(pos[0].t) == 2:
            a, b = pos[0].t
            if a.kind != "tuple" or b.kind != "tuple":
                raise Unsupported("commonprefix of non-lists")
            out = []
            for x, y in zip(a.t, b.t):
                if x.t.eq(y.t):
                    out.append(x)
                    continue
                # different atoms: they are different strings only if the shape says so
                ex.oblige(st, f"commonprefix-stops-here@{ex.cur_line}", x.t != y.t, "model")
                break
            return [(st, sv_tuple(out))]
        return None

    def index_hook(self, ex, seq, idx, st):
        if seq.kind == "tuple":
            c = concrete_int(ex.as_int(idx, st))
            if c is not None and -len(seq.t) <= c < len(seq.t):
                return [(st, seq.t[c])]
        return None


IMPORTS_ASSUMPTIONS = {
    "A-IMPORT": "inside the module p/__init__.py, `from .<k-1 more dots><x.y> import n as a` binds a to attribute/submodule n of package p[:len(p)-(k-1)] + x.y; "
                "`import a.b.c as z` binds z to module a.b.c",
}
