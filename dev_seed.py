#!/usr/bin/env python3
"""dev tool: run the registered check of a property against a scratch copy of /repo with a seeded
change applied (never touches /repo; evidence/replays go to the scratch dir, not to /verif).

  python3 dev_seed.py <seed-dir> [<prop> ...]     e.g.  python3 dev_seed.py seeded/C06_0
  python3 dev_seed.py --all
Output: one line per (seed, property): exit code, VIOLATION lines, how it was decided, wall time.
"""
import json
import os
import shutil
import subprocess
import sys
import tempfile
import time

VERIF = os.path.dirname(os.path.abspath(__file__))


def run_seed(seed_dir, props=None, tier="quick", keep=False):
    seed_dir = os.path.abspath(seed_dir)
    meta = json.load(open(os.path.join(seed_dir, "meta.json")))
    props = props or meta.get("properties") or [meta.get("property") or meta["breaks_property"]]
    scratch = tempfile.mkdtemp(prefix="seedrun_", dir="/tmp")
    res = []
    try:
        subprocess.run(["git", "-C", "/repo", "archive", "--format=tar", "HEAD", "-o", os.path.join(scratch, "r.tar")], check=True)
        tree = os.path.join(scratch, "tree")
        os.makedirs(tree)
        subprocess.run(["tar", "-xf", os.path.join(scratch, "r.tar"), "-C", tree], check=True)
        os.remove(os.path.join(scratch, "r.tar"))
        # working-tree state of /repo (in case of uncommitted edits) is NOT copied: seeds are relative to HEAD
        r = subprocess.run(["patch", "-p1", "-s", "-d", tree, "-i", os.path.join(seed_dir, "patch.diff")], capture_output=True, text=True)
        if r.returncode != 0:
            return [(os.path.basename(seed_dir), "-", "patch-failed", r.stdout + r.stderr, 0)]
        demo = os.path.join(seed_dir, "demo.py")
        demo_rc = None
        if os.path.exists(demo):
            d = subprocess.run(["/venv/bin/python", demo], env=dict(os.environ, PYTHONPATH=os.path.join(tree, "src")), capture_output=True, text=True, timeout=600)
            demo_rc = d.returncode
        for p in props:
            out = os.path.join(scratch, "out_" + p)
            os.makedirs(out)
            t0 = time.time()
            c = subprocess.run([os.path.join(VERIF, "vcheck"), p, "--tier", tier], env=dict(os.environ, PYVC_REPO=tree, PYVC_OUT=out), capture_output=True, text=True)
            dt = time.time() - t0
            lines = [l for l in c.stdout.splitlines() if l.startswith(("VIOLATION", "UNDECIDED", "CHECKER-ERROR", "KNOWN-FINDING"))]
            how = ""
            ev = os.path.join(out, "evidence", p + ".json")
            if os.path.exists(ev):
                e = json.load(open(ev))
                cov = e.get("coverage", {})
                how = {"refuted": [str(x)[:90] for x in cov.get("refuted", [])][:4], "undecided": len(cov.get("undecided", []))}
            res.append((os.path.basename(seed_dir), p, c.returncode, demo_rc, [l for l in lines if not l.startswith("KNOWN")][:6], how, round(dt)))
            if keep:
                shutil.copytree(out, os.path.join("/tmp", f"seedres_{os.path.basename(seed_dir)}_{p}"), dirs_exist_ok=True)
                open(os.path.join("/tmp", f"seedres_{os.path.basename(seed_dir)}_{p}", "stdout.txt"), "w").write(c.stdout + c.stderr)
    finally:
        shutil.rmtree(scratch, ignore_errors=True)
    return res


def main():
    args = sys.argv[1:]
    keep = "--keep" in args
    args = [a for a in args if a != "--keep"]
    tier = "quick"
    if "--thorough" in args:
        tier = "thorough"
        args.remove("--thorough")
    if args and args[0] == "--all":
        seeds = sorted(os.path.join(VERIF, "seeded", d) for d in os.listdir(os.path.join(VERIF, "seeded")) if os.path.exists(os.path.join(VERIF, "seeded", d, "patch.diff")))
        from concurrent.futures import ThreadPoolExecutor
        with ThreadPoolExecutor(4) as ex:
            for r in ex.map(lambda s: run_seed(s, tier=tier, keep=keep), seeds):
                for x in r:
                    print(x, flush=True)
        return
    for x in run_seed(args[0], args[1:] or None, tier=tier, keep=keep):
        print(x)


if __name__ == "__main__":
    main()
