#!/usr/bin/env python3
"""dev tool: confirm a seeded change delivered by a sub-agent (/tmp/seedout2/<id>_<k>) myself and file it under
/verif/seeded/<id>_<k>:  tests still pass in a scratch copy, demo passes on /repo and fails with the change; then
run the property's check against the scratch copy (dev_seed.run_seed).

  python3 dev_confirm.py C11_1 [extra props...]
"""
import json
import os
import re
import shutil
import subprocess
import sys
import tempfile

import dev_seed

VERIF = os.path.dirname(os.path.abspath(__file__))


def main():
    sid = sys.argv[1]
    extra = sys.argv[2:]
    src = os.path.join("/tmp/seedout2", sid)
    prop = sid.split("_")[0]
    scratch = tempfile.mkdtemp(prefix="seedconf_", dir="/tmp")
    try:
        tree = os.path.join(scratch, "tree")
        os.makedirs(tree)
        subprocess.run(f"git -C /repo archive HEAD | tar -x -C {tree}", shell=True, check=True)
        r = subprocess.run(["patch", "-p1", "-s", "-d", tree, "-i", os.path.join(src, "patch.diff")], capture_output=True, text=True)
        if r.returncode:
            print("PATCH FAILED", r.stdout, r.stderr)
            return 1
        env = dict(os.environ, PYTHONPATH=os.path.join(tree, "src"))
        t = subprocess.run(["/venv/bin/python", "-m", "pytest", "-q", "-p", "no:cacheprovider", "--timeout=900", "--continue-on-collection-errors"],
                           cwd=tree, env=env, capture_output=True, text=True)
        tail = t.stdout.strip().splitlines()[-1]
        m = re.search(r"(\d+) passed", tail)
        passed = int(m.group(1)) if m else -1
        d0 = subprocess.run(["/venv/bin/python", os.path.join(src, "demo.py")], env=dict(os.environ, PYTHONPATH="/repo/src"), capture_output=True, text=True, timeout=900)
        d1 = subprocess.run(["/venv/bin/python", os.path.join(src, "demo.py")], env=env, capture_output=True, text=True, timeout=900)
        print(f"tests: {tail}")
        print(f"demo on /repo: rc={d0.returncode} {d0.stdout.strip().splitlines()[-1:] }")
        print(f"demo on change: rc={d1.returncode} {d1.stdout.strip().splitlines()[-3:]}")
        ok = passed == 193 and d0.returncode == 0 and d1.returncode == 1
        print("CONFIRMED" if ok else "NOT CONFIRMED")
        if not ok:
            return 1
    finally:
        shutil.rmtree(scratch, ignore_errors=True)
    dst = os.path.join(VERIF, "seeded", sid)
    os.makedirs(dst, exist_ok=True)
    for f in ("patch.diff", "demo.py", "notes.md"):
        if os.path.exists(os.path.join(src, f)):
            shutil.copy(os.path.join(src, f), os.path.join(dst, f))
    meta_path = os.path.join(dst, "meta.json")
    if not os.path.exists(meta_path):
        json.dump({"breaks_property": prop, "change": "", "needs_to_manifest": "",
                   "source": "independent sub-agent given only the property text and a scratch worktree",
                   "confirmed": {"tests": f"scratch copy with the change: {tail}", "demo_on_change": "FAIL (exit 1)", "demo_on_repo": "PASS"},
                   "detected_by": ""}, open(meta_path, "w"), indent=1)
    for x in dev_seed.run_seed(dst, [prop] + extra, keep=True):
        print(x)
    return 0


if __name__ == "__main__":
    sys.exit(main())
