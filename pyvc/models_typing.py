"""Model for the typing compilers (C18): `self` has an `_imports` table (module -> set of names, concrete) or an
`_imported` flag; type arguments are symbolic strings."""
import z3

from .sym import SV, NONE, sv_bool, sv_str, sv_int, sv_tuple, concrete_str
from .exec import Unsupported, Raised


class TypingPlugin:
    SPEC_NAMES = {"IMPORTED", "IMPORTED_FLAG", "NO_IMPORTS"}

    def make_model_param(self, ex, st, p, model):
        if model == "tcompiler":
            st.heap[("self", "_imports")] = SV("cimports", {})
            st.heap[("self", "_imported")] = sv_bool(z3.Bool("self._imported"))
            return SV("ref", "self", "tcompiler")
        if model == "typestr":
            a = z3.String(p)
            ex.inputs[p] = a
            return sv_str(a)
        if model == "typestrs":
            n = (getattr(ex, "variant", None) or {}).get(p, 2)
            out = []
            for i in range(n):
                a = z3.String(f"{p}{i}")
                ex.inputs[f"{p}{i}"] = a
                out.append(sv_str(a))
            return sv_tuple(out)
        return None

    def spec_has(self, name):
        return name in self.SPEC_NAMES

    def spec_call(self, ex, name, pos, st):
        imps = st.heap[("self", "_imports")].t
        if name == "IMPORTED":
            mod, nm = concrete_str(pos[0].t), concrete_str(pos[1].t)
            return sv_bool(nm in imps.get(mod, set()))
        if name == "NO_IMPORTS":
            return sv_bool(not any(imps.values()))
        if name == "IMPORTED_FLAG":
            return st.heap[("self", "_imported")]
        raise Unsupported(name)

    def getattr_hook(self, ex, st, v, attr):
        if v.extra == "tcompiler":
            if (v.t, attr) in st.heap:
                return None
            q = None
            return [(st, SV("func", ("method", v, attr)))]
        return None

    def attr_hook(self, ex, st, v, attr):
        if v.kind in ("cimports", "cset"):
            return [(st, SV("func", ("method", v, attr)))]
        return None

    def index_hook(self, ex, seq, idx, st):
        if seq.kind == "cimports":
            k = concrete_str(idx.t)
            if k is None:
                raise Unsupported("symbolic module name in _imports")
            return [(st, SV("cset", k))]
        return None

    def call_method(self, ex, recv, name, pos, kw, st, node):
        if recv.kind == "cset" and name == "add":
            nm = concrete_str(pos[0].t)
            if nm is None:
                raise Unsupported("symbolic name added to _imports")
            st2 = st.clone()
            imps = {k: set(v) for k, v in st.heap[("self", "_imports")].t.items()}
            imps.setdefault(recv.t, set()).add(nm)
            st2.heap[("self", "_imports")] = SV("cimports", imps)
            return [(st2, NONE)]
        if recv.kind == "str" and name == "startswith" and len(pos) == 1:
            return [(st, sv_bool(z3.PrefixOf(pos[0].t, recv.t)))]
        if recv.kind == "str" and name == "join":
            items = pos[0]
            if items.kind != "tuple":
                raise Unsupported("join of non-list")
            parts = []
            for i, it in enumerate(items.t):
                if i:
                    parts.append(recv.t)
                parts.append(it.t)
            if not parts:
                return [(st, sv_str(""))]
            return [(st, sv_str(parts[0] if len(parts) == 1 else z3.Concat(*parts)))]
        if recv.kind == "ref" and recv.extra == "tcompiler":
            cls = ex.cur_cls
            q = f"{ex.modname}.{cls}.{name}"
            return list(ex.call_repo(q, pos, kw, st, node, recv=None if name == "_fmt" else recv))
        return None

    def call_builtin(self, ex, name, pos, kw, st, node):
        if name == "map" and len(pos) == 2 and pos[1].kind == "tuple":
            out = []
            states = [(st, [])]
            for item in pos[1].t:
                nxt = []
                for s0, acc in states:
                    for s1, r in ex.call(pos[0], [item], {}, s0, node):
                        if isinstance(r, Raised):
                            return [(s1, r)]
                        nxt.append((s1, acc + [r]))
                states = nxt
            return [(s, sv_tuple(acc)) for s, acc in states]
        return None
