"""C12 — AsyncChannel: exactly-once ordered delivery, no stranded receiver (safety part)."""
AREAS = ["chan"]
LEVEL = "proof"
EXPLANATION = (
    "Every await-free segment of receive, __anext__, send, send_from, close, _flush_queue preserves the shared-state "
    "invariant I1..I7 (checked at every suspension point and at every exit, normal or exceptional; assumed at entry and "
    "after every suspension under the rely condition), hence it holds under every schedule. Consequences proved per call: "
    "receive returns exactly the item it took (never the sentinel, None for it); a cancelled get() propagates as "
    "CancelledError having taken nothing and task_done() never raises; send after close raises ChannelClosed; once closed "
    "and flushed, queued entries + sentinels still owed >= waiting receivers (no receiver can stay blocked at quiescence).")
ASSUMED = ["A-AQUEUE (asyncio.Queue contract, FIFO, exactly-once hand-over)",
           "liveness ('eventually terminates') is not expressible: proved is the safety form I5 + I7",
           "per-sender order and no-duplication follow from FIFO hand-over of A-AQUEUE plus 'send appends at the tail' (C12-item-enqueued-last)"]
from pyvc.check import external_bounded
BOUNDED = [external_bounded("schedule-exploration", "standin_misc.sched", ["--tier", "quick"], ["--tier", "thorough"],
                            "systematic exploration of the asyncio ready-queue schedules of small configurations (quick: 31 configurations, thorough: 1195) on the real AsyncChannel / asyncio.Queue")]
