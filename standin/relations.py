"""Per-property relation checkers of the bounded stand-in.

Every checker has the signature ``P(m, rnd) -> list[Fail]`` (``Fail`` is a
``str`` with a ``.match`` key); an empty list means the case passed.  A checker
may have ``P.applies(m) -> bool`` (cases it does not apply to are not counted)
and ``P.static(rnd) -> list[Fail]`` (instance-independent checks, run once).
"""
import os
import sys

sys.path.insert(0, os.path.join(os.environ.get("PYVC_REPO", "/repo"), "src"))

import io

import betterproto

from . import corpus as C
from . import wire as W
from .relcommon import (
    Collector,
    Fail,
    blame,
    exc,
    same_message,
    short,
)

SIZE_DELIMITED = betterproto.SIZE_DELIMITED


# ===================================================================== C09


def _c09_checks(col, x, site, origin):
    """len / dump / delimited dump / SerializeToString agree with bytes(x)."""

    def tags(pred):
        if origin is None:
            return ["unknown-field-carrier"]
        return blame(origin, pred)

    try:
        b = bytes(x)
    except Exception as e:
        for t in tags(lambda i: bytes(i) and False):
            col.add("%sencode-raises:%s" % (site, t), exc(e))
        return
    try:
        n = len(x)
        if n != len(b):
            for t in tags(lambda i: len(i) != len(bytes(i))):
                col.add("%slen:%s" % (site, t), "len(m)=%d but len(bytes(m))=%d (%s)" % (n, len(b), b.hex()[:80]))
    except Exception as e:
        for t in tags(lambda i: len(i) and False):
            col.add("%slen-raises:%s" % (site, t), exc(e))
    try:
        s = io.BytesIO()
        x.dump(s)
        if s.getvalue() != b:
            col.add("%sdump" % site, "dump wrote %s, bytes(m)=%s" % (s.getvalue().hex()[:80], b.hex()[:80]))
    except Exception as e:
        col.add("%sdump-raises" % site, exc(e))
    try:
        s = io.BytesIO()
        x.dump(s, SIZE_DELIMITED)
        exp = W.enc_varint(len(b)) + b
        if s.getvalue() != exp and not (len(x) != len(b) and s.getvalue() == W.enc_varint(len(x)) + b):
            # (a wrong prefix that is just the wrong len() is the len finding)
            for t in tags(lambda i: _delimited(i) != W.enc_varint(len(bytes(i))) + bytes(i)):
                col.add("%sdelimited-dump:%s" % (site, t), "wrote %s expected %s" % (s.getvalue().hex()[:80], exp.hex()[:80]))
    except Exception as e:
        col.add("%sdelimited-dump-raises" % site, exc(e))
    try:
        if x.SerializeToString() != b:
            col.add("%sSerializeToString" % site, "differs from bytes(m)")
    except Exception as e:
        col.add("%sSerializeToString-raises" % site, exc(e))


def _delimited(i):
    s = io.BytesIO()
    i.dump(s, SIZE_DELIMITED)
    return s.getvalue()


def C09(m, rnd):
    col = Collector("C09")
    _c09_checks(col, m, "", m)
    # the same message seen through schemas that know none / fewer of its fields
    try:
        b = bytes(m)
    except Exception:
        return col.result()
    carriers = [C.Empty] + ([C.OldSchema] if type(m) is C.NewSchema else [])
    for cc in carriers:
        try:
            carrier = cc().parse(b)
        except Exception as e:
            col.add("unknown-carrier-parse-raises", "%s().parse(bytes(m)): %s" % (cc.__name__, exc(e)))
            continue
        _c09_checks(col, carrier, "unknown-carrier-", None)
    return col.result()


# ===================================================================== C01


def C01(m, rnd):
    col = Collector("C01")
    cls = type(m)
    try:
        b = bytes(m)
    except Exception as e:
        for t in blame(m, lambda i: bytes(i) and False, collapse=True):
            col.add("encode-raises:%s" % t, exc(e))
        return col.result()
    try:
        d = cls().parse(b)
    except Exception as e:
        for t in blame(m, lambda i: type(i)().parse(bytes(i)) and False, collapse=True):
            col.add("decode-raises:%s" % t, "%s on %s" % (exc(e), b.hex()[:80]))
        return col.result()
    col.add_diffs("decoded", same_message(m, d, presence=True), origin=m, collapse=True)
    try:
        b2 = bytes(d)
        if b2 != b:
            for t in blame(m, lambda i: bytes(type(i)().parse(bytes(i))) != bytes(i), collapse=True):
                col.add("reencode-bytes:%s" % t, "%s -> %s" % (b.hex()[:80], b2.hex()[:80]))
    except Exception as e:
        for t in blame(m, lambda i: bytes(type(i)().parse(bytes(i))) and False, collapse=True):
            col.add("reencode-raises:%s" % t, exc(e))
    return col.result()


# ===================================================================== C02

_C02_SINGLE = ["permute", "unpack", "mixed-packing", "chunks", "pad", "dup-singular", "oneof-earlier", "unknown"]


def reencode(raw_bytes, rnd, cls=None, only=None):
    """Independent spec-level re-encoder (see wire.reencode)."""
    if cls is None:
        raise TypeError("reencode needs the schema (cls) for packing decisions")
    return W.reencode(raw_bytes, rnd, cls, only=only)


def C02(m, rnd):
    col = Collector("C02")
    cls = type(m)
    Ref = C.reference_class(cls)
    # betterproto -> reference
    try:
        b = bytes(m)
        try:
            r = Ref.FromString(b)
        except Exception as e:
            for t in blame(m, lambda i: C.reference_class(type(i)).FromString(bytes(i)) and False):
                col.add("reference-rejects-bytes:%s" % t, "%s on %s" % (exc(e), b.hex()[:80]))
            r = None
        if r is not None:
            col.add_diffs("bp-to-ref", C.ref_diff(m, r), collapse=True)
    except Exception as e:
        for t in blame(m, lambda i: bytes(i) and False):
            col.add("encode-raises:%s" % t, exc(e))
    # reference -> betterproto
    try:
        ref = C.to_reference(m)
        raw = ref.SerializeToString(deterministic=True)
    except Exception as e:
        col.add("harness:to_reference-raises", exc(e))
        return col.result()
    try:
        d = cls().parse(raw)
    except Exception as e:
        for t in blame(m, lambda i: type(i)().parse(C.to_reference(i).SerializeToString()) and False):
            col.add("ref-to-bp-parse-raises:%s" % t, "%s on %s" % (exc(e), raw.hex()[:80]))
        d = None
    baseline = set()
    if d is not None:
        rd = C.ref_diff(d, ref)
        baseline = {x.base_key for x in rd}
        col.add_diffs("ref-to-bp", rd, collapse=True)
        col.add_diffs("ref-to-bp-vs-m", C.bp_diff(m, d, presence=False), collapse=True, skip_keys=baseline)
    # alternative encodings
    variants = [[t] for t in _C02_SINGLE] + [None]
    single_failed = False
    for only in variants:
        try:
            alt, applied = W.reencode(raw, rnd, cls, only=only)
        except Exception as e:
            col.add("harness:reencode-raises", exc(e))
            continue
        if not applied:
            continue
        name = "+".join(applied) if only is None else only[0]
        site = "reencode-combined" if only is None else "reencode-" + name
        try:
            r2 = Ref.FromString(alt)
        except Exception as e:
            col.add("harness:reference-rejects-reencoding-" + name, exc(e))
            continue
        try:
            d2 = cls().parse(alt)
        except Exception as e:
            col.add("%s:parse-raises" % site, "%s on %s (applied %s)" % (exc(e), alt.hex()[:100], applied))
            continue
        # only what is specific to the alternative encoding
        diffs = [x for x in C.ref_diff(d2, r2) if x.base_key not in baseline]
        if only is None and single_failed:
            continue
        if diffs and only is not None:
            single_failed = True
        col.add_diffs(site, diffs, prefix="(applied %s; bytes %s) " % (applied, alt.hex()[:100]), collapse=True)
    return col.result()


# ===================================================================== C06


def _default_problem(f, v):
    """None if v is the proto3 default of field f (as betterproto exposes it)."""
    if f.kind == "map":
        return None if v == {} and isinstance(v, dict) else "expected {}"
    if f.label == "repeated":
        return None if v == [] and isinstance(v, list) else "expected []"
    if f.label == "optional" or f.wraps:
        return None if v is None else "expected None"
    if f.is_timestamp:
        return None if v == C.EPOCH else "expected epoch"
    if f.is_duration:
        from datetime import timedelta

        return None if v == timedelta(0) else "expected timedelta(0)"
    if f.kind == "message":
        if not isinstance(v, betterproto.Message):
            return "expected a message"
        if betterproto.serialized_on_wire(v):
            return "default sub-message reports serialized_on_wire"
        return None if not bool(v) else "default sub-message is non-empty"
    if f.kind == "enum":
        return None if v == 0 else "expected enum number 0"
    zero = C._zero(f.kind)
    if type(v) is not type(zero) and not (f.kind not in ("string", "bytes", "bool", "float", "double") and isinstance(v, int)):
        return "expected %r" % (zero,)
    return None if v == zero else "expected %r" % (zero,)


def _expected_numbers(m):
    """Field numbers that must appear on the wire for m, judged field-wise
    through the public API.  Returns (must, may): ``may`` are numbers that are
    allowed but not required (negative zero floats)."""
    cls = type(m)
    must, may = {}, {}
    for f in C.SCHEMAS[cls]:
        if f.group:
            if C._selected(m, f.group) == f.name:
                must[f.number] = f
            continue
        if C._lazy_unset(m, f):
            continue
        ok, v = C._get(m, f.name)
        if not ok:
            continue
        if f.kind == "map" or f.label == "repeated":
            if len(v):
                must[f.number] = f
        elif f.label == "optional" or f.wraps:
            if v is not None:
                must[f.number] = f
        elif f.is_plain_message:
            if betterproto.serialized_on_wire(v):
                must[f.number] = f
        elif _default_problem(f, v) is not None:
            must[f.number] = f
        elif C._is_negzero(v):
            may[f.number] = f
    return must, may


def _emit_tag(f, v):
    if f.kind == "map" and isinstance(v, dict) and any(k in ("", 0, False) for k in v):
        return C.field_tag(f) + "-default-key-entry"
    return C.field_tag(f, v)


def C06(m, rnd):
    col = Collector("C06")
    cls = type(m)
    # (a) fresh instance
    if C.is_default_instance(m):
        fresh = cls()
        for f in C.SCHEMAS[cls]:
            if f.group:
                continue
            try:
                v = getattr(fresh, f.name)
            except Exception as e:
                col.add("fresh-read-raises:%s" % C.field_tag(f), exc(e))
                continue
            p = _default_problem(f, v)
            if p:
                col.add("fresh-default:%s" % C.field_tag(f), "%s.%s reads %s (%s)" % (cls.__name__, f.name, short(v), p))
        try:
            fb = bytes(cls())
            if fb != b"":
                col.add("fresh-encodes-nonempty", fb.hex()[:80])
            fb = bytes(fresh)
            if fb != b"":
                col.add("fresh-encodes-nonempty-after-reads", fb.hex()[:80])
        except Exception as e:
            col.add("fresh-encode-raises", exc(e))
    # (b) what is emitted
    try:
        must, may = _expected_numbers(m)
        b = bytes(m)
        recs = W.split(b)
        known = W.known_numbers(cls)
        got = {r.number for r in recs if r.number in known}
        for n in sorted(set(must) - got):
            f = must[n]
            ok, v = C._get(m, f.name)
            col.add("not-emitted:%s" % _emit_tag(f, v), "%s=%s is set/present but field %d is not in %s" % (f.name, short(v), n, b.hex()[:80]))
        for n in sorted(got - set(must) - set(may)):
            f = W._fields_by_number(cls)[n]
            ok, v = C._get(m, f.name)
            col.add("emitted-unexpectedly:%s" % C.field_tag(f, v), "%s=%s must not be emitted but field %d is in %s" % (f.name, short(v), n, b.hex()[:80]))
    except Exception as e:
        col.add("emission-check-raises", exc(e))
        return col.result()
    # (c) presence after decoding == reference presence for the same bytes
    sources = [("bp-bytes", b)]
    try:
        sources.append(("ref-bytes", C.to_reference(m).SerializeToString(deterministic=True)))
    except Exception as e:
        col.add("harness:to_reference-raises", exc(e))
    Ref = C.reference_class(cls)
    for sname, data in sources:
        try:
            r = Ref.FromString(data)
        except Exception:
            continue  # C02 reports reference rejections
        try:
            d = cls().parse(data)
        except Exception as e:
            col.add("decode-raises:%s" % sname, exc(e))
            continue
        for g in C.groups(cls):
            a, bsel = C._selected(d, g), r.WhichOneof(g)
            if a != bsel:
                col.add("decoded-oneof:%s" % sname, "which_one_of(%s)=%r reference WhichOneof=%r" % (g, a, bsel))
        for f in C.SCHEMAS[cls]:
            if f.group or f.kind == "map" or f.label == "repeated":
                continue
            explicit = f.label == "optional" or f.wraps or f.is_plain_message
            if not explicit:
                continue
            has = r.HasField(f.name)
            try:
                if f.label == "optional":
                    mine = d.is_set(f.name)
                    ok, v = C._get(d, f.name)
                    if (v is not None) != mine:
                        col.add("is_set-vs-value:%s" % C.field_tag(f, v), "is_set=%r but value %s" % (mine, short(v)))
                elif f.wraps:
                    ok, v = C._get(d, f.name)
                    mine = v is not None
                else:
                    if C._lazy_unset(d, f):
                        mine, v = False, None
                    else:
                        ok, v = C._get(d, f.name)
                        mine = betterproto.serialized_on_wire(v)
            except Exception as e:
                col.add("presence-query-raises:%s" % C.field_tag(f), exc(e))
                continue
            if mine != has:
                col.add(
                    "decoded-presence:%s:%s" % (sname, C.field_tag(f, v)),
                    "%s: betterproto reports set=%r, reference HasField=%r for %s" % (f.name, mine, has, data.hex()[:80]),
                )
    return col.result()


from ._rel_b import C08, C10, C14  # noqa: E402
from ._rel_c import C04, C05, C07, C15, C17, C20  # noqa: E402

PROPERTIES = {
    "C01": C01,
    "C02": C02,
    "C04": C04,
    "C05": C05,
    "C06": C06,
    "C07": C07,
    "C08": C08,
    "C09": C09,
    "C10": C10,
    "C14": C14,
    "C15": C15,
    "C17": C17,
    "C20": C20,
}
