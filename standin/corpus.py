"""Bounded stand-in corpus: betterproto message classes written by hand in the
style of the betterproto plugin output (no protoc), the matching reference
google.protobuf classes (built from descriptor protos, no protoc), boundary
value generators and field-wise converters / comparators.

Everything here is *bounded* evidence: it exercises the real library on a
finite corpus, it proves nothing.
"""
import os
import sys

sys.path.insert(0, os.path.join(os.environ.get("PYVC_REPO", "/repo"), "src"))

import math
import struct
from dataclasses import dataclass
from dataclasses import fields as _dc_fields
from datetime import datetime, timedelta, timezone
from typing import Dict, List, Optional

import betterproto

UTC = timezone.utc
EPOCH = datetime(1970, 1, 1, tzinfo=UTC)


# =========================================================================
# 1. betterproto side: hand-written "generated style" classes
# =========================================================================


class Color(betterproto.Enum):
    ZERO = 0
    RED = 1
    NEG = -1
    BIG = 2147483647
    ROUGE = 1  # alias of RED
    MIN = -2147483648


@dataclass(eq=False, repr=False)
class Inner(betterproto.Message):
    x: int = betterproto.int32_field(1)
    s: str = betterproto.string_field(2)


@dataclass(eq=False, repr=False)
class Rec(betterproto.Message):
    child: "Rec" = betterproto.message_field(1)
    v: int = betterproto.int32_field(2)


@dataclass(eq=False, repr=False)
class Outer(betterproto.Message):
    a: "Inner" = betterproto.message_field(1)
    bs: List["Inner"] = betterproto.message_field(2)
    r: "Rec" = betterproto.message_field(3)


@dataclass(eq=False, repr=False)
class Empty(betterproto.Message):
    pass


@dataclass(eq=False, repr=False)
class Scalars(betterproto.Message):
    f_double: float = betterproto.double_field(1)
    f_float: float = betterproto.float_field(2)
    f_int32: int = betterproto.int32_field(3)
    f_int64: int = betterproto.int64_field(4)
    f_uint32: int = betterproto.uint32_field(5)
    f_uint64: int = betterproto.uint64_field(6)
    f_sint32: int = betterproto.sint32_field(7)
    f_sint64: int = betterproto.sint64_field(8)
    f_fixed32: int = betterproto.fixed32_field(9)
    f_fixed64: int = betterproto.fixed64_field(10)
    f_sfixed32: int = betterproto.sfixed32_field(11)
    f_sfixed64: int = betterproto.sfixed64_field(12)
    f_bool: bool = betterproto.bool_field(13)
    f_string: str = betterproto.string_field(14)
    f_bytes: bytes = betterproto.bytes_field(15)
    f_enum: "Color" = betterproto.enum_field(16)


@dataclass(eq=False, repr=False)
class Optionals(betterproto.Message):
    o_double: Optional[float] = betterproto.double_field(1, optional=True)
    o_float: Optional[float] = betterproto.float_field(2, optional=True)
    o_int32: Optional[int] = betterproto.int32_field(3, optional=True)
    o_int64: Optional[int] = betterproto.int64_field(4, optional=True)
    o_uint32: Optional[int] = betterproto.uint32_field(5, optional=True)
    o_uint64: Optional[int] = betterproto.uint64_field(6, optional=True)
    o_sint32: Optional[int] = betterproto.sint32_field(7, optional=True)
    o_sint64: Optional[int] = betterproto.sint64_field(8, optional=True)
    o_fixed32: Optional[int] = betterproto.fixed32_field(9, optional=True)
    o_fixed64: Optional[int] = betterproto.fixed64_field(10, optional=True)
    o_sfixed32: Optional[int] = betterproto.sfixed32_field(11, optional=True)
    o_sfixed64: Optional[int] = betterproto.sfixed64_field(12, optional=True)
    o_bool: Optional[bool] = betterproto.bool_field(13, optional=True)
    o_string: Optional[str] = betterproto.string_field(14, optional=True)
    o_bytes: Optional[bytes] = betterproto.bytes_field(15, optional=True)
    o_enum: Optional["Color"] = betterproto.enum_field(16, optional=True)
    o_msg: Optional["Inner"] = betterproto.message_field(17, optional=True)


@dataclass(eq=False, repr=False)
class Repeated(betterproto.Message):
    r_double: List[float] = betterproto.double_field(1)
    r_float: List[float] = betterproto.float_field(2)
    r_int32: List[int] = betterproto.int32_field(3)
    r_int64: List[int] = betterproto.int64_field(4)
    r_uint32: List[int] = betterproto.uint32_field(5)
    r_uint64: List[int] = betterproto.uint64_field(6)
    r_sint32: List[int] = betterproto.sint32_field(7)
    r_sint64: List[int] = betterproto.sint64_field(8)
    r_fixed32: List[int] = betterproto.fixed32_field(9)
    r_fixed64: List[int] = betterproto.fixed64_field(10)
    r_sfixed32: List[int] = betterproto.sfixed32_field(11)
    r_sfixed64: List[int] = betterproto.sfixed64_field(12)
    r_bool: List[bool] = betterproto.bool_field(13)
    r_string: List[str] = betterproto.string_field(14)
    r_bytes: List[bytes] = betterproto.bytes_field(15)
    r_enum: List["Color"] = betterproto.enum_field(16)
    r_msg: List["Inner"] = betterproto.message_field(17)
    r_ts: List[datetime] = betterproto.message_field(18)
    r_dur: List[timedelta] = betterproto.message_field(19)


@dataclass(eq=False, repr=False)
class OneOfs(betterproto.Message):
    c_int32: int = betterproto.int32_field(1, group="choice")
    c_string: str = betterproto.string_field(2, group="choice")
    c_bytes: bytes = betterproto.bytes_field(3, group="choice")
    c_msg: "Inner" = betterproto.message_field(4, group="choice")
    d_bool: bool = betterproto.bool_field(5, group="other")
    d_enum: "Color" = betterproto.enum_field(6, group="other")
    d_double: float = betterproto.double_field(7, group="other")
    plain: int = betterproto.int32_field(8)
    label: str = betterproto.string_field(9)


@dataclass(eq=False, repr=False)
class Maps(betterproto.Message):
    m_str_i32: Dict[str, int] = betterproto.map_field(
        1, betterproto.TYPE_STRING, betterproto.TYPE_INT32
    )
    m_i32_str: Dict[int, str] = betterproto.map_field(
        2, betterproto.TYPE_INT32, betterproto.TYPE_STRING
    )
    m_i64_i64: Dict[int, int] = betterproto.map_field(
        3, betterproto.TYPE_INT64, betterproto.TYPE_INT64
    )
    m_u32_bytes: Dict[int, bytes] = betterproto.map_field(
        4, betterproto.TYPE_UINT32, betterproto.TYPE_BYTES
    )
    m_bool_double: Dict[bool, float] = betterproto.map_field(
        5, betterproto.TYPE_BOOL, betterproto.TYPE_DOUBLE
    )
    m_str_msg: Dict[str, "Inner"] = betterproto.map_field(
        6, betterproto.TYPE_STRING, betterproto.TYPE_MESSAGE
    )
    m_s32_enum: Dict[int, "Color"] = betterproto.map_field(
        7, betterproto.TYPE_SINT32, betterproto.TYPE_ENUM
    )
    m_f64_bool: Dict[int, bool] = betterproto.map_field(
        8, betterproto.TYPE_FIXED64, betterproto.TYPE_BOOL
    )
    m_str_i64: Dict[str, int] = betterproto.map_field(
        9, betterproto.TYPE_STRING, betterproto.TYPE_INT64
    )


@dataclass(eq=False, repr=False)
class Wrappers(betterproto.Message):
    w_double: Optional[float] = betterproto.message_field(
        1, wraps=betterproto.TYPE_DOUBLE
    )
    w_float: Optional[float] = betterproto.message_field(
        2, wraps=betterproto.TYPE_FLOAT
    )
    w_int64: Optional[int] = betterproto.message_field(3, wraps=betterproto.TYPE_INT64)
    w_uint64: Optional[int] = betterproto.message_field(
        4, wraps=betterproto.TYPE_UINT64
    )
    w_int32: Optional[int] = betterproto.message_field(5, wraps=betterproto.TYPE_INT32)
    w_uint32: Optional[int] = betterproto.message_field(
        6, wraps=betterproto.TYPE_UINT32
    )
    w_bool: Optional[bool] = betterproto.message_field(7, wraps=betterproto.TYPE_BOOL)
    w_string: Optional[str] = betterproto.message_field(
        8, wraps=betterproto.TYPE_STRING
    )
    w_bytes: Optional[bytes] = betterproto.message_field(
        9, wraps=betterproto.TYPE_BYTES
    )


@dataclass(eq=False, repr=False)
class Times(betterproto.Message):
    ts: datetime = betterproto.message_field(1)
    dur: timedelta = betterproto.message_field(2)
    o_ts: Optional[datetime] = betterproto.message_field(3, optional=True)
    o_dur: Optional[timedelta] = betterproto.message_field(4, optional=True)
    r_ts: List[datetime] = betterproto.message_field(5)
    r_dur: List[timedelta] = betterproto.message_field(6)


@dataclass(eq=False, repr=False)
class NewSchema(betterproto.Message):
    id: int = betterproto.int32_field(1)
    name: str = betterproto.string_field(2)
    tags: List[str] = betterproto.string_field(3)
    inner: "Inner" = betterproto.message_field(4)
    color: "Color" = betterproto.enum_field(5)
    scores: Dict[str, int] = betterproto.map_field(
        6, betterproto.TYPE_STRING, betterproto.TYPE_INT32
    )
    opt: Optional[int] = betterproto.int64_field(7, optional=True)
    k_text: str = betterproto.string_field(8, group="kind")
    k_num: int = betterproto.sint32_field(9, group="kind")
    data: bytes = betterproto.bytes_field(10)
    ratio: float = betterproto.double_field(11)
    nums: List[int] = betterproto.int32_field(12)
    fx: int = betterproto.fixed32_field(13)


@dataclass(eq=False, repr=False)
class OldSchema(betterproto.Message):
    """NewSchema with fields 2, 4, 6, 9, 10, 11, 13 deleted."""

    id: int = betterproto.int32_field(1)
    tags: List[str] = betterproto.string_field(3)
    color: "Color" = betterproto.enum_field(5)
    opt: Optional[int] = betterproto.int64_field(7, optional=True)
    k_text: str = betterproto.string_field(8, group="kind")
    nums: List[int] = betterproto.int32_field(12)


ALL_CLASSES = [
    Scalars,
    Optionals,
    Repeated,
    OneOfs,
    Maps,
    Wrappers,
    Times,
    Inner,
    Outer,
    Rec,
    Empty,
    NewSchema,
    OldSchema,
]
CLASS_BY_NAME = {c.__name__: c for c in ALL_CLASSES}
ENUM_BY_NAME = {"Color": Color}


# =========================================================================
# 2. Plain-data schema description (single source of truth for the reference
#    classes, the converters and the value generators)
# =========================================================================

SCALAR_KINDS = [
    "double",
    "float",
    "int32",
    "int64",
    "uint32",
    "uint64",
    "sint32",
    "sint64",
    "fixed32",
    "fixed64",
    "sfixed32",
    "sfixed64",
    "bool",
    "string",
    "bytes",
]
PACKABLE_KINDS = [k for k in SCALAR_KINDS if k not in ("string", "bytes")] + ["enum"]
WRAPPER_NAME = {
    "double": "DoubleValue",
    "float": "FloatValue",
    "int64": "Int64Value",
    "uint64": "UInt64Value",
    "int32": "Int32Value",
    "uint32": "UInt32Value",
    "bool": "BoolValue",
    "string": "StringValue",
    "bytes": "BytesValue",
}


class F:
    """Plain description of one field.

    kind   : one of SCALAR_KINDS, "enum", "message", "map"
    label  : "singular" | "optional" | "repeated" | "map" | "oneof:<group>"
    type_name : for kind enum/message: "Color", "Inner", ..., "Timestamp",
                "Duration", "<X>Value" (wrappers)
    key_kind / value_kind / value_type_name : for maps
    wraps  : wrapped scalar kind for wrapper-typed fields
    """

    __slots__ = (
        "name",
        "number",
        "kind",
        "label",
        "type_name",
        "key_kind",
        "value_kind",
        "value_type_name",
        "wraps",
    )

    def __init__(
        self,
        name,
        number,
        kind,
        label="singular",
        type_name=None,
        key_kind=None,
        value_kind=None,
        value_type_name=None,
        wraps=None,
    ):
        self.name = name
        self.number = number
        self.kind = kind
        self.label = label
        self.type_name = type_name
        self.key_kind = key_kind
        self.value_kind = value_kind
        self.value_type_name = value_type_name
        self.wraps = wraps
        if wraps and not type_name:
            self.type_name = WRAPPER_NAME[wraps]

    # -- derived helpers -------------------------------------------------
    @property
    def group(self):
        return self.label[6:] if self.label.startswith("oneof:") else None

    @property
    def is_timestamp(self):
        return self.kind == "message" and self.type_name == "Timestamp"

    @property
    def is_duration(self):
        return self.kind == "message" and self.type_name == "Duration"

    @property
    def is_plain_message(self):
        return (
            self.kind == "message"
            and not self.wraps
            and self.type_name not in ("Timestamp", "Duration")
        )

    @property
    def elem_kind(self):
        """Value-level kind used by pools/comparators: scalar kind, 'enum',
        'timestamp', 'duration', 'msg:<Name>'."""
        return _elem_kind(self.kind, self.type_name, self.wraps)

    def as_dict(self):
        return {k: getattr(self, k) for k in self.__slots__}

    def __repr__(self):
        return "F(%s)" % ", ".join(
            "%s=%r" % (k, getattr(self, k))
            for k in self.__slots__
            if getattr(self, k) is not None
        )


def _elem_kind(kind, type_name, wraps=None):
    if wraps:
        return wraps
    if kind == "message":
        if type_name == "Timestamp":
            return "timestamp"
        if type_name == "Duration":
            return "duration"
        return "msg:" + type_name
    return kind


def _scalars_schema(prefix, label):
    out = [F(prefix + k, i + 1, k, label) for i, k in enumerate(SCALAR_KINDS)]
    out.append(F(prefix + "enum", 16, "enum", label, type_name="Color"))
    return out


SCHEMAS = {
    Inner: [F("x", 1, "int32"), F("s", 2, "string")],
    Rec: [F("child", 1, "message", type_name="Rec"), F("v", 2, "int32")],
    Outer: [
        F("a", 1, "message", type_name="Inner"),
        F("bs", 2, "message", "repeated", type_name="Inner"),
        F("r", 3, "message", type_name="Rec"),
    ],
    Empty: [],
    Scalars: _scalars_schema("f_", "singular"),
    Optionals: _scalars_schema("o_", "optional")
    + [F("o_msg", 17, "message", "optional", type_name="Inner")],
    Repeated: _scalars_schema("r_", "repeated")
    + [
        F("r_msg", 17, "message", "repeated", type_name="Inner"),
        F("r_ts", 18, "message", "repeated", type_name="Timestamp"),
        F("r_dur", 19, "message", "repeated", type_name="Duration"),
    ],
    OneOfs: [
        F("c_int32", 1, "int32", "oneof:choice"),
        F("c_string", 2, "string", "oneof:choice"),
        F("c_bytes", 3, "bytes", "oneof:choice"),
        F("c_msg", 4, "message", "oneof:choice", type_name="Inner"),
        F("d_bool", 5, "bool", "oneof:other"),
        F("d_enum", 6, "enum", "oneof:other", type_name="Color"),
        F("d_double", 7, "double", "oneof:other"),
        F("plain", 8, "int32"),
        F("label", 9, "string"),
    ],
    Maps: [
        F("m_str_i32", 1, "map", "map", key_kind="string", value_kind="int32"),
        F("m_i32_str", 2, "map", "map", key_kind="int32", value_kind="string"),
        F("m_i64_i64", 3, "map", "map", key_kind="int64", value_kind="int64"),
        F("m_u32_bytes", 4, "map", "map", key_kind="uint32", value_kind="bytes"),
        F("m_bool_double", 5, "map", "map", key_kind="bool", value_kind="double"),
        F(
            "m_str_msg",
            6,
            "map",
            "map",
            key_kind="string",
            value_kind="message",
            value_type_name="Inner",
        ),
        F(
            "m_s32_enum",
            7,
            "map",
            "map",
            key_kind="sint32",
            value_kind="enum",
            value_type_name="Color",
        ),
        F("m_f64_bool", 8, "map", "map", key_kind="fixed64", value_kind="bool"),
        F("m_str_i64", 9, "map", "map", key_kind="string", value_kind="int64"),
    ],
    Wrappers: [
        F("w_double", 1, "message", wraps="double"),
        F("w_float", 2, "message", wraps="float"),
        F("w_int64", 3, "message", wraps="int64"),
        F("w_uint64", 4, "message", wraps="uint64"),
        F("w_int32", 5, "message", wraps="int32"),
        F("w_uint32", 6, "message", wraps="uint32"),
        F("w_bool", 7, "message", wraps="bool"),
        F("w_string", 8, "message", wraps="string"),
        F("w_bytes", 9, "message", wraps="bytes"),
    ],
    Times: [
        F("ts", 1, "message", type_name="Timestamp"),
        F("dur", 2, "message", type_name="Duration"),
        F("o_ts", 3, "message", "optional", type_name="Timestamp"),
        F("o_dur", 4, "message", "optional", type_name="Duration"),
        F("r_ts", 5, "message", "repeated", type_name="Timestamp"),
        F("r_dur", 6, "message", "repeated", type_name="Duration"),
    ],
    NewSchema: [
        F("id", 1, "int32"),
        F("name", 2, "string"),
        F("tags", 3, "string", "repeated"),
        F("inner", 4, "message", type_name="Inner"),
        F("color", 5, "enum", type_name="Color"),
        F("scores", 6, "map", "map", key_kind="string", value_kind="int32"),
        F("opt", 7, "int64", "optional"),
        F("k_text", 8, "string", "oneof:kind"),
        F("k_num", 9, "sint32", "oneof:kind"),
        F("data", 10, "bytes"),
        F("ratio", 11, "double"),
        F("nums", 12, "int32", "repeated"),
        F("fx", 13, "fixed32"),
    ],
    OldSchema: [
        F("id", 1, "int32"),
        F("tags", 3, "string", "repeated"),
        F("color", 5, "enum", type_name="Color"),
        F("opt", 7, "int64", "optional"),
        F("k_text", 8, "string", "oneof:kind"),
        F("nums", 12, "int32", "repeated"),
    ],
}

ENUMS = {
    "Color": [("ZERO", 0), ("RED", 1), ("NEG", -1), ("BIG", 2147483647), ("ROUGE", 1), ("MIN", -2147483648)]
}


def schema(cls):
    return SCHEMAS[cls]


def field_by_name(cls, name):
    for f in SCHEMAS[cls]:
        if f.name == name:
            return f
    raise KeyError(name)


def groups(cls):
    out = {}
    for f in SCHEMAS[cls]:
        if f.group:
            out.setdefault(f.group, []).append(f)
    return out


def selfcheck():
    """Compare SCHEMAS against the betterproto metadata of the hand-written
    classes.  Returns a list of inconsistency strings."""
    problems = []
    for cls in ALL_CLASSES:
        try:
            dcf = {f.name: f.metadata["betterproto"] for f in _dc_fields(cls)}
        except Exception as e:  # pragma: no cover
            problems.append("%s: cannot read metadata: %r" % (cls.__name__, e))
            continue
        sch = {f.name: f for f in SCHEMAS[cls]}
        if list(dcf) != list(sch):
            problems.append("%s: field names differ" % cls.__name__)
            continue
        for name, meta in dcf.items():
            f = sch[name]
            exp = (
                f.number,
                f.kind,
                (f.key_kind, f.value_kind) if f.kind == "map" else None,
                f.group,
                f.wraps,
                f.label == "optional",
            )
            got = (
                meta.number,
                meta.proto_type,
                meta.map_types,
                meta.group,
                meta.wraps,
                bool(meta.optional),
            )
            if exp != got:
                problems.append("%s.%s: %r != %r" % (cls.__name__, name, exp, got))
    return problems


# =========================================================================
# 3. Reference google.protobuf classes (descriptor_pb2 + pool + factory)
# =========================================================================

_REF = {}
REF_PACKAGE = "standin"
REF_FILE = "standin/corpus.proto"


def _camel(name):
    return "".join(p[:1].upper() + p[1:] for p in name.split("_"))


def _build_reference():
    from google.protobuf import descriptor_pb2 as dpb
    from google.protobuf import descriptor_pool, message_factory

    # make sure the well-known types are registered in the default pool
    from google.protobuf import duration_pb2, timestamp_pb2, wrappers_pb2  # noqa

    FD = dpb.FieldDescriptorProto
    type_of = {
        "double": FD.TYPE_DOUBLE,
        "float": FD.TYPE_FLOAT,
        "int32": FD.TYPE_INT32,
        "int64": FD.TYPE_INT64,
        "uint32": FD.TYPE_UINT32,
        "uint64": FD.TYPE_UINT64,
        "sint32": FD.TYPE_SINT32,
        "sint64": FD.TYPE_SINT64,
        "fixed32": FD.TYPE_FIXED32,
        "fixed64": FD.TYPE_FIXED64,
        "sfixed32": FD.TYPE_SFIXED32,
        "sfixed64": FD.TYPE_SFIXED64,
        "bool": FD.TYPE_BOOL,
        "string": FD.TYPE_STRING,
        "bytes": FD.TYPE_BYTES,
        "enum": FD.TYPE_ENUM,
        "message": FD.TYPE_MESSAGE,
    }
    wkt = set(WRAPPER_NAME.values()) | {"Timestamp", "Duration"}

    def full(type_name):
        if type_name in wkt:
            return ".google.protobuf." + type_name
        return ".%s.%s" % (REF_PACKAGE, type_name)

    fdp = dpb.FileDescriptorProto(name=REF_FILE, package=REF_PACKAGE, syntax="proto3")
    fdp.dependency.append("google/protobuf/timestamp.proto")
    fdp.dependency.append("google/protobuf/duration.proto")
    fdp.dependency.append("google/protobuf/wrappers.proto")
    for ename, members in ENUMS.items():
        e = fdp.enum_type.add(name=ename)
        if len({v for _, v in members}) != len(members):
            e.options.allow_alias = True
        for n, v in members:
            e.value.add(name=n, number=v)

    for cls in ALL_CLASSES:
        mp = fdp.message_type.add(name=cls.__name__)
        oneof_index = {}
        # real oneofs first (protoc puts synthetic ones last)
        for f in SCHEMAS[cls]:
            if f.group and f.group not in oneof_index:
                oneof_index[f.group] = len(mp.oneof_decl)
                mp.oneof_decl.add(name=f.group)
        for f in SCHEMAS[cls]:
            fp = mp.field.add(name=f.name, number=f.number)
            fp.label = FD.LABEL_OPTIONAL
            if f.kind == "map":
                entry = mp.nested_type.add(name=_camel(f.name) + "Entry")
                entry.options.map_entry = True
                entry.field.add(
                    name="key",
                    number=1,
                    type=type_of[f.key_kind],
                    label=FD.LABEL_OPTIONAL,
                )
                vp = entry.field.add(
                    name="value",
                    number=2,
                    type=type_of[f.value_kind],
                    label=FD.LABEL_OPTIONAL,
                )
                if f.value_kind in ("message", "enum"):
                    vp.type_name = full(f.value_type_name)
                fp.label = FD.LABEL_REPEATED
                fp.type = FD.TYPE_MESSAGE
                fp.type_name = ".%s.%s.%s" % (REF_PACKAGE, cls.__name__, entry.name)
                continue
            fp.type = type_of[f.kind]
            if f.kind in ("message", "enum"):
                fp.type_name = full(f.type_name)
            if f.label == "repeated":
                fp.label = FD.LABEL_REPEATED
            elif f.label == "optional":
                fp.proto3_optional = True
                fp.oneof_index = len(mp.oneof_decl)
                mp.oneof_decl.add(name="_" + f.name)
            elif f.group:
                fp.oneof_index = oneof_index[f.group]

    pool = descriptor_pool.Default()
    try:
        pool.Add(fdp)
    except Exception:
        # already registered in this process (module imported twice)
        pass
    for cls in ALL_CLASSES:
        desc = pool.FindMessageTypeByName("%s.%s" % (REF_PACKAGE, cls.__name__))
        _REF[cls] = message_factory.GetMessageClass(desc)
    _REF["__fdp__"] = fdp


def reference_class(cls):
    """google.protobuf message class with the same schema as ``cls``."""
    if not _REF:
        _build_reference()
    return _REF[cls]


def reference_file_descriptor_proto():
    if not _REF:
        _build_reference()
    return _REF["__fdp__"]


# =========================================================================
# 4. Value classification (stable tags, never contain values)
# =========================================================================


def valclass(elem_kind, v):
    """Short stable tag describing the *class* of a value (for match keys)."""
    try:
        if v is None:
            return "none"
        if elem_kind == "enum":
            n = int(v)
            names = {num for _, num in ENUMS["Color"]}
            if n not in names:
                return "undefined-negative" if n < 0 else "undefined"
            return "negative" if n < 0 else ("zero" if n == 0 else "defined")
        if elem_kind in ("float", "double"):
            if isinstance(v, str):
                return "str"
            if math.isnan(v):
                return "nan"
            if math.isinf(v):
                return "inf"
            if v == 0:
                return "negzero" if math.copysign(1, v) < 0 else "zero"
            return "finite"
        if elem_kind == "bool":
            return "true" if v else "false"
        if elem_kind == "string":
            if v == "":
                return "empty"
            if "\x00" in v:
                return "nul"
            if any(ord(c) > 0xFFFF for c in v):
                return "nonbmp"
            if any(ord(c) > 0x7F for c in v):
                return "nonascii"
            return "ascii"
        if elem_kind == "bytes":
            return "empty" if len(v) == 0 else "nonempty"
        if elem_kind == "timestamp":
            if not isinstance(v, datetime):
                return "wrongtype"
            off = v.utcoffset()
            base = "utc" if (off is not None and not off) else "offset"
            d = v - EPOCH
            if not d:
                return base + "-epoch"
            if d < timedelta(0):
                return base + ("-pre-epoch-fraction" if d.microseconds else "-pre-epoch")
            return base + ("-fraction" if d.microseconds else "-whole")
        if elem_kind == "duration":
            if not isinstance(v, timedelta):
                return "wrongtype"
            us = _td_us(v)
            if us == 0:
                return "zero"
            big = "-beyond2p53us" if abs(us) > 2**53 else ""
            if abs(us) < 100:
                # below 1e-4 s: str(float) switches to scientific notation
                return "negative-tiny-fraction" if us < 0 else "positive-tiny-fraction"
            frac = abs(us) % 10**6 != 0
            if us < 0:
                return ("negative-fraction" if frac else "negative-whole") + big
            if frac and abs(us) % 1000 == 0 and not big:
                return "positive-ms-fraction"
            if frac and abs(us) < 10**6 and not big:
                return "positive-sub-second"
            return ("positive-fraction" if frac else "positive-whole") + big
        if elem_kind.startswith("msg:"):
            if not isinstance(v, betterproto.Message):
                return "wrongtype"
            # bool() only looks at raw values (bytes() would materialise
            # lazy defaults inside the message under test)
            if not betterproto.serialized_on_wire(v):
                return "deep-assigned" if bool(v) else "absent-default"
            return "present" if bool(v) else "present-empty"
        # integers
        if isinstance(v, bool) or not isinstance(v, int):
            return "wrongtype"
        if v == 0:
            return "zero"
        if abs(v) > 2**53:
            return "neg-beyond2p53" if v < 0 else "pos-beyond2p53"
        return "neg" if v < 0 else "pos"
    except Exception:
        return "unclassified"


def _keycat(kind):
    if kind == "string":
        return "str"
    if kind == "bool":
        return "bool"
    return "int64" if kind in ("int64", "uint64", "sint64", "fixed64", "sfixed64") else "int"


def field_tag(f, v=None, elem=False):
    """Stable tag for (field description, value class).  ``elem`` says that v
    is one element / one map value rather than the whole container."""
    if f.kind == "map":
        base = "map-%skey-%s" % (_keycat(f.key_kind), f.value_kind)
        if elem:
            vk = _elem_kind(f.value_kind, f.value_type_name)
            return "%s-%s" % (base, valclass(vk, v))
        return base
    ek = f.elem_kind
    kind = "wrapper-" + f.wraps if f.wraps else (ek.replace("msg:", "message-"))
    if ek.startswith("msg:"):
        kind = "message"
    if f.label == "repeated":
        if elem:
            return "repeated-%s-%s" % (kind, valclass(ek, v))
        if isinstance(v, list):
            return "repeated-%s-%s" % (kind, "empty" if not v else "nonempty")
        return "repeated-%s" % kind
    prefix = ""
    if f.label == "optional":
        prefix = "optional-"
    elif f.group:
        prefix = "oneof-"
    return "%s%s-%s" % (prefix, kind, valclass(ek, v))


# =========================================================================
# 5. Exact time arithmetic (spec-level, independent of both libraries)
# =========================================================================


def _td_us(td):
    return (td.days * 86400 + td.seconds) * 10**6 + td.microseconds


def dt_to_sn(dt):
    """(seconds, nanos) of a Timestamp for an aware datetime; nanos in [0,1e9)."""
    us = _td_us(dt - EPOCH)
    s, r = divmod(us, 10**6)
    return s, r * 1000


def td_to_sn(td):
    """(seconds, nanos) of a Duration; same sign (truncation toward zero)."""
    us = _td_us(td)
    sign = -1 if us < 0 else 1
    s, r = divmod(abs(us), 10**6)
    return sign * s, sign * r * 1000


def sn_to_dt(s, n):
    return EPOCH + timedelta(seconds=s, microseconds=n // 1000)


def sn_to_td(s, n):
    # n has the sign of s (or s == 0); truncate toward zero to microseconds
    us = abs(n) // 1000
    return timedelta(seconds=s, microseconds=us if n >= 0 else -us)


# =========================================================================
# 6. Boundary pools
# =========================================================================


class Val:
    """Pool entry: a tag-less factory of a fresh value plus a printable form."""

    __slots__ = ("make", "text")

    def __init__(self, make, text=None):
        self.make = make
        self.text = text if text is not None else _short(make())

    def __repr__(self):
        return "Val(%s)" % self.text


def _short(v, limit=70):
    r = repr(v)
    return r if len(r) <= limit else r[: limit - 3] + "..."


def _const(v):
    return Val(lambda v=v: v)


# besides the range ends: the varint / zig-zag size boundaries (2**(7k) and -2**(7k-1))
_I32 = [0, 1, -1, 2**31 - 1, -(2**31), 63, 64, -64, -65, 127, 128, 8191, -8192, -8193, 2**27, -(2**27)]
_I64 = [0, 1, -1, 2**63 - 1, -(2**63), 2**53 + 1, -64, 128, -8192, 2**34, -(2**34), -(2**62)]
_U32 = [0, 1, 2**32 - 1, 127, 128, 16383, 16384, 2**28]
_U64 = [0, 1, 2**64 - 1, 2**63, 128, 2**35, 2**56]
_F32MAX = 3.4028234663852886e38
_FLOAT = [0.0, -0.0, 1.5, float("inf"), float("-inf"), float("nan"), _F32MAX, 1.401298464324817e-45]      # the last: smallest float32 denormal
_DOUBLE = _FLOAT + [1e308, 5e-324]
# doubles that are not float32 values but are legal in a float field (they round): the usual FLT_MAX literal and the
# largest double that still rounds to a finite float32, values that round in the mantissa, one that rounds up to the
# smallest denormal (a double that rounds to zero is left out: whether "zero" is emitted is judged on the rounded value by
# the reference and on the stored value by betterproto, like -0.0 an allowed difference)
_FLOAT32_ROUNDING = [3.4028235e38, -3.4028235e38, 3.4028235677973362e38, 0.1, 16777217.0, 1.401298464324817e-45 * 0.75]
# the last entries sit on the length-prefix boundaries (127 | 128 bytes, 16383 | 16384 bytes)
_STR = ["", "a", "é", "\U0001F600", "\x00", "y" * 127, "y" * 128, "z" * 16384]
_BYTES = [b"", b"\x00", b"\xff\x00abc", b"\x07" * 128, b"\xfb\xef\xbe\xfb"]      # the last one is "+++++w==" in base64 ('+', two pads)


def _tz(h, m=0):
    sign = -1 if h < 0 else 1
    return timezone(sign * timedelta(hours=abs(h), minutes=m))


_TS = [
    EPOCH,
    EPOCH + timedelta(microseconds=1),
    datetime(1969, 12, 31, 23, 59, 59, 999999, tzinfo=UTC),
    datetime(1, 1, 1, 0, 0, 0, tzinfo=UTC),
    datetime(9999, 12, 31, 23, 59, 59, 999999, tzinfo=UTC),
    datetime(2020, 2, 29, 12, 34, 56, 789000, tzinfo=_tz(5, 30)),
    datetime(1969, 12, 31, 19, 0, 0, tzinfo=_tz(-5)),  # == epoch instant
    datetime(1970, 1, 1, 0, 0, 0, tzinfo=_tz(5, 30)),  # local wall clock reads as the epoch, the instant is not
    datetime(1970, 1, 1, 0, 0, 0, tzinfo=_tz(-8)),
    datetime(1960, 6, 15, 1, 2, 3, 250000, tzinfo=_tz(-8)),
    datetime(2038, 1, 19, 3, 14, 8, tzinfo=UTC),
    datetime(2001, 9, 9, 1, 46, 40, 123000, tzinfo=UTC),
    # fixed UTC offsets with a sub-second part (local mean time): the wall clock's microsecond is not the instant's
    datetime(2020, 2, 29, 12, 34, 56, 789000, tzinfo=timezone(timedelta(hours=5, seconds=13, microseconds=250000))),
    datetime(1969, 12, 31, 23, 59, 59, 100000, tzinfo=timezone(-timedelta(hours=0, minutes=17, seconds=2, microseconds=900001))),
]
_MAXDUR = 315576000000
_DUR = [
    timedelta(0),
    timedelta(microseconds=1),
    timedelta(microseconds=-1),
    timedelta(seconds=1, microseconds=500000),
    -timedelta(seconds=1, microseconds=500000),
    timedelta(seconds=_MAXDUR),
    timedelta(seconds=-_MAXDUR),
    timedelta(seconds=_MAXDUR - 1, microseconds=999999),
    -timedelta(seconds=_MAXDUR - 1, microseconds=999999),
    timedelta(seconds=1),
    timedelta(seconds=-1),
    timedelta(milliseconds=1),
    -timedelta(seconds=2, microseconds=1),
]


def _inner_pool():
    return [
        Val(lambda: Inner(), "Inner()"),
        Val(lambda: Inner(x=1), "Inner(x=1)"),
        Val(lambda: Inner(x=-1, s="é"), "Inner(x=-1, s='\\xe9')"),
        Val(lambda: Inner().parse(b""), "Inner().parse(b'')"),
    ]


def _rec_pool():
    return [
        Val(lambda: Rec(), "Rec()"),
        Val(lambda: Rec(v=1), "Rec(v=1)"),
        Val(lambda: Rec(child=Rec(v=2)), "Rec(child=Rec(v=2))"),
        Val(
            lambda: Rec(child=Rec(child=Rec(v=3)), v=1),
            "Rec(child=Rec(child=Rec(v=3)), v=1)",
        ),
        Val(lambda: Rec(child=Rec()), "Rec(child=Rec())"),
        Val(lambda: Rec().parse(b""), "Rec().parse(b'')"),
    ]


def _enum_pool():
    return [
        Val(lambda: Color.ZERO, "Color.ZERO"),
        Val(lambda: Color.RED, "Color.RED"),
        Val(lambda: Color.NEG, "Color.NEG"),
        Val(lambda: Color.BIG, "Color.BIG"),
        Val(lambda: Color.ROUGE, "Color.ROUGE"),
        Val(lambda: 7, "7"),
        Val(lambda: Color.try_value(7), "Color.try_value(7)"),
        Val(lambda: Color.try_value(-5), "Color.try_value(-5)"),
        Val(lambda: Color.MIN, "Color.MIN"),
        Val(lambda: Color.try_value(-2147483647), "Color.try_value(-2147483647)"),
        Val(lambda: Color.try_value(2147483646), "Color.try_value(2147483646)"),
    ]


def pool(elem_kind):
    """Boundary pool (list of Val) for a value-level kind."""
    if elem_kind in ("int32", "sint32", "sfixed32"):
        return [_const(v) for v in _I32]
    if elem_kind in ("int64", "sint64", "sfixed64"):
        return [_const(v) for v in _I64]
    if elem_kind in ("uint32", "fixed32"):
        return [_const(v) for v in _U32]
    if elem_kind in ("uint64", "fixed64"):
        return [_const(v) for v in _U64]
    if elem_kind == "bool":
        return [_const(False), _const(True)]
    if elem_kind == "float":
        return [_const(v) for v in _FLOAT]
    if elem_kind == "double":
        return [_const(v) for v in _DOUBLE]
    if elem_kind == "string":
        return [_const(v) for v in _STR]
    if elem_kind == "bytes":
        return [_const(v) for v in _BYTES]
    if elem_kind == "enum":
        return _enum_pool()
    if elem_kind == "timestamp":
        return [_const(v) for v in _TS]
    if elem_kind == "duration":
        return [_const(v) for v in _DUR]
    if elem_kind == "msg:Inner":
        return _inner_pool()
    if elem_kind == "msg:Rec":
        return _rec_pool()
    raise KeyError(elem_kind)


def _key_pool(kind):
    if kind == "string":
        return ["", "a", "é", "\U0001F600"]
    if kind == "bool":
        return [False, True]
    if kind in ("int32", "sint32", "sfixed32"):
        return _I32[:7]
    if kind in ("int64", "sint64", "sfixed64"):
        return _I64[:5]
    if kind in ("uint32", "fixed32"):
        return _U32[:5]
    return _U64[:3]


def _list_val(vals):
    return Val(lambda: [v.make() for v in vals], "[" + ", ".join(v.text for v in vals) + "]")


def _dict_val(pairs):
    return Val(
        lambda: {k: v.make() for k, v in pairs},
        "{" + ", ".join("%r: %s" % (k, v.text) for k, v in pairs) + "}",
    )


def field_pool(f):
    """Boundary pool for a whole field (container-aware)."""
    if f.kind == "map":
        vk = _elem_kind(f.value_kind, f.value_type_name)
        vals = pool(vk)
        keys = _key_pool(f.key_kind)
        nd_key = keys[1]
        nd_val = vals[1]
        out = [_dict_val([])]
        out += [_dict_val([(nd_key, v)]) for v in vals]
        out += [_dict_val([(k, nd_val)]) for k in keys if k != nd_key]
        out.append(_dict_val([(keys[0], vals[0])]))  # default key -> default value
        n = max(len(keys), len(vals))
        out.append(_dict_val([(keys[i % len(keys)], vals[i % len(vals)]) for i in range(n)]))
        return out
    base = pool(f.elem_kind)
    if f.label == "repeated":
        out = [_list_val([])]
        out += [_list_val([v]) for v in base]
        out.append(_list_val(base + [base[0], base[-1]]))
        out.append(_list_val([base[0], base[0]]))
        # length-prefix boundaries of packed payloads: fewer than 128 items but >= 128 payload bytes, and
        # more than 128 one-byte items
        wide = ([v for v in base if len(v.text) < 40] or [base[-1]])[-1]
        out.append(Val(lambda wide=wide: [wide.make() for _ in range(40)], "[%s] * 40" % wide.text))
        out.append(Val(lambda b1=base[1]: [b1.make() for _ in range(130)], "[%s] * 130" % base[1].text))
        return out
    if f.label == "optional" or f.wraps:
        return [Val(lambda: None, "None")] + base
    return base


# Deep (dotted) assignments: "something was assigned inside it"
_DEEP = {
    Outer: [
        ("a.x", _const(1)),
        ("a.x", _const(0)),
        ("a.s", _const("q")),
        ("r.v", _const(5)),
        ("r.child.v", _const(5)),
        ("r.child.child.v", _const(0)),
    ],
    Rec: [("child.v", _const(4)), ("child.child.v", _const(4))],
    NewSchema: [("inner.x", _const(3))],
}


# =========================================================================
# 7. Recipes and instance construction
# =========================================================================


class Step:
    """One construction step.  mode: 'kw' (constructor kwarg), 'set'
    (attribute assignment, dotted path allowed), 'parse' (m.parse(bytes))."""

    __slots__ = ("mode", "path", "val")

    def __init__(self, mode, path, val):
        self.mode = mode
        self.path = path
        self.val = val

    def text(self):
        if self.mode == "parse":
            return "parse(%s)" % self.val.text
        return "%s %s=%s" % (self.mode, self.path, self.val.text)


def build(cls, steps):
    """Construct a fresh instance of ``cls`` from a list of Steps."""
    kwargs = {}
    for st in steps:
        if st.mode == "kw":
            kwargs[st.path] = st.val.make()
    inst = cls(**kwargs)
    for st in steps:
        if st.mode == "set":
            target = inst
            parts = st.path.split(".")
            for p in parts[:-1]:
                target = getattr(target, p)
            setattr(target, parts[-1], st.val.make())
        elif st.mode == "parse":
            inst.parse(st.val.make())
    d = inst.__dict__
    d["_standin_steps"] = list(steps)
    d["_standin_how"] = "%s: %s" % (
        cls.__name__,
        "; ".join(st.text() for st in steps) if steps else "all defaults",
    )
    return inst


def how(m):
    return m.__dict__.get("_standin_how", "<%s: built outside corpus>" % type(m).__name__)


def steps_of(m):
    return list(m.__dict__.get("_standin_steps", []))


def rebuild(m):
    """A fresh, independent instance built exactly like ``m``."""
    return build(type(m), steps_of(m))


def is_default_instance(m):
    return not steps_of(m) and "_standin_steps" in m.__dict__


def carries_unknown(m):
    return any(st.mode == "parse" for st in steps_of(m))


def fields_touched(m):
    """Top-level field names touched by the recipe of m."""
    return [st.path.split(".")[0] for st in steps_of(m) if st.mode != "parse"]


def single_step_variants(m):
    """For failure attribution: yields (tag, instance) built from one step
    alone and, for list/dict values with several elements, from one element
    alone."""
    cls = type(m)
    for st in steps_of(m):
        if st.mode == "parse":
            yield "parsed-unknown-fields", build(cls, [st])
            continue
        top = st.path.split(".")[0]
        try:
            f = field_by_name(cls, top)
        except KeyError:
            continue
        if "." in st.path:
            yield "deep-assign-" + f.elem_kind.replace("msg:", "message-"), build(cls, [st])
            continue
        v = st.val.make()
        if isinstance(v, list) and len(v) > 1:
            for i in range(len(v)):
                ev = Val(lambda i=i, st=st: [st.val.make()[i]])
                yield field_tag(f, v[i], elem=True), build(cls, [Step(st.mode, st.path, ev)])
        elif isinstance(v, dict) and len(v) > 1:
            for k in list(v):
                ev = Val(lambda k=k, st=st: {k: st.val.make()[k]})
                yield field_tag(f, v[k], elem=True), build(cls, [Step(st.mode, st.path, ev)])
        elif isinstance(v, list) and len(v) == 1:
            yield field_tag(f, v[0], elem=True), build(cls, [st])
        elif isinstance(v, dict) and len(v) == 1:
            yield field_tag(f, list(v.values())[0], elem=True), build(cls, [st])
        else:
            yield field_tag(f, v), build(cls, [st])


def _unknown_sources(rnd_seed=0):
    """Reference serialisations of richer messages (for unknown-field carriers)."""
    out = []
    samples = [
        (NewSchema, [("id", 5), ("name", "n"), ("data", b"\x01\x02"), ("ratio", 2.5), ("fx", 7)]),
        (
            NewSchema,
            [
                ("id", -1),
                ("name", "é"),
                ("tags", ["a", ""]),
                ("inner", None),
                ("color", Color.RED),
                ("scores", {"k": 1}),
                ("opt", 0),
                ("k_num", -3),
                ("data", b"\xff"),
                ("ratio", -0.5),
                ("nums", [1, 2, 300]),
                ("fx", 2**32 - 1),
            ],
        ),
        (NewSchema, [("k_text", ""), ("name", "x")]),
        (Scalars, [("f_int32", 1), ("f_double", 1.5), ("f_string", "s"), ("f_fixed32", 9), ("f_sfixed64", -2)]),
    ]
    for cls, kv in samples:

        def make(cls=cls, kv=kv):
            inst = cls()
            for k, v in kv:
                if k == "inner":
                    v = Inner(x=2, s="in")
                setattr(inst, k, v)
            return to_reference(inst).SerializeToString(deterministic=True)

        out.append(Val(make, "<ref bytes of %s(%s)>" % (cls.__name__, ",".join(k for k, _ in kv))))
    return out


def _single_field_steps(cls):
    """All one-field recipes for cls, as (path, Val)."""
    out = []
    for f in SCHEMAS[cls]:
        for v in field_pool(f):
            out.append((f.name, v))
    return out


GENERATOR_ERRORS = []


def values(cls, rnd, n):
    for inst in _values(cls, rnd, n):
        if inst is not None:
            yield inst


def _values(cls, rnd, n):
    """Up to n instances of cls: all-defaults, every single-field boundary
    value, deep assignments, unknown-field carriers, then seeded random
    combinations.  Construction alternates constructor kwargs / assignment."""
    count = 0

    def emit(steps):
        nonlocal count
        count += 1
        try:
            return build(cls, steps)
        except Exception as e:
            GENERATOR_ERRORS.append(
                ("%s: %s" % (cls.__name__, "; ".join(st.text() for st in steps)), "%s: %s" % (type(e).__name__, e))
            )
            return None

    if n <= 0:
        return
    yield emit([])
    toggle = 0
    singles = _single_field_steps(cls)
    for path, v in singles:
        if count >= n:
            return
        mode = "kw" if toggle % 2 == 0 else "set"
        toggle += 1
        yield emit([Step(mode, path, v)])
    for path, v in _DEEP.get(cls, []):
        if count >= n:
            return
        yield emit([Step("set", path, v)])
    if cls in (Empty, OldSchema):
        for src in _unknown_sources()[: 3 if cls is OldSchema else None]:
            if count >= n:
                return
            yield emit([Step("parse", None, src)])
        if cls is OldSchema and count < n:
            yield emit(
                [Step("kw", "id", _const(9)), Step("parse", None, _unknown_sources()[1])]
            )
    if not singles:
        return
    by_field = {}
    for path, v in singles:
        by_field.setdefault(path, []).append(v)
    names = list(by_field)
    grp = {f.name: f.group for f in SCHEMAS[cls]}
    while count < n:
        k = rnd.randint(2, min(6, max(2, len(names))))
        chosen = [rnd.choice(names) for _ in range(k)]
        style = rnd.choice(["kw", "set", "mixed"])
        steps = []
        seen_kw = set()
        seen_groups = set()
        for i, name in enumerate(chosen):
            v = rnd.choice(by_field[name])
            mode = style
            if style == "mixed":
                mode = "kw" if i < k // 2 else "set"
            if mode == "kw":
                g = grp.get(name)
                if name in seen_kw or (g and g in seen_groups):
                    mode = "set"
                else:
                    seen_kw.add(name)
                    if g:
                        seen_groups.add(g)
            steps.append(Step(mode, name, v))
        # kwargs are applied first by build(); keep textual order = effect order
        steps.sort(key=lambda s: 0 if s.mode == "kw" else 1)
        deep = _DEEP.get(cls)
        if deep and rnd.random() < 0.3:
            p, v = rnd.choice(deep)
            steps.append(Step("set", p, v))
        yield emit(steps)


def random_instance(rnd, classes=None):
    """One seeded-random instance of a random class (for mixed sequences)."""
    cls = rnd.choice(classes or ALL_CLASSES)
    singles = _single_field_steps(cls)
    if not singles:
        return build(cls, [])
    k = rnd.randint(0, 3)
    steps = []
    seen = set()
    grp = {f.name: f.group for f in SCHEMAS[cls]}
    for _ in range(k):
        path, v = rnd.choice(singles)
        key = grp.get(path) or path
        if key in seen:
            continue
        seen.add(key)
        steps.append(Step("kw", path, v))
    return build(cls, steps)


# =========================================================================
# 8. betterproto <-> reference conversion (field-wise, never via bytes)
# =========================================================================


def _get(m, name):
    """Attribute read that tolerates unselected oneof members."""
    try:
        return True, getattr(m, name)
    except AttributeError:
        return False, None


def _lazy_unset(m, f):
    """True for a plain singular sub-message field that was never set nor
    read (reading it would materialise a default; for recursive types that
    never ends)."""
    if not (f.is_plain_message and f.label == "singular"):
        return False
    try:
        return not m.is_set(f.name)
    except Exception:
        return False


def _selected(m, group):
    name, _ = betterproto.which_one_of(m, group)
    return name or None


def _set_ref_ts(ref_ts, dt):
    # the exact (seconds, nanos) of the instant; Timestamp.FromDatetime is a convenience that drops the sub-second part
    # of a UTC offset (equal for every whole-second offset), the wire format is the pair
    ref_ts.seconds, ref_ts.nanos = dt_to_sn(dt)


def _set_ref_dur(ref_dur, td):
    ref_dur.FromTimedelta(td)


def to_reference(m, ref=None):
    """Copy a betterproto instance into a fresh reference message."""
    cls = type(m)
    if ref is None:
        ref = reference_class(cls)()
    sel = {g: _selected(m, g) for g in groups(cls)}
    for f in SCHEMAS[cls]:
        if f.group and sel[f.group] != f.name:
            continue
        if _lazy_unset(m, f):
            continue
        ok, v = _get(m, f.name)
        if not ok:
            continue
        if f.kind == "map":
            tgt = getattr(ref, f.name)
            for k, item in v.items():
                if f.value_kind == "message":
                    to_reference(item, tgt[k])  # tgt[k] creates the entry
                elif f.value_kind == "enum":
                    tgt[k] = int(item)
                else:
                    tgt[k] = item
            continue
        if f.label == "repeated":
            tgt = getattr(ref, f.name)
            for item in v:
                if f.is_timestamp:
                    _set_ref_ts(tgt.add(), item)
                elif f.is_duration:
                    _set_ref_dur(tgt.add(), item)
                elif f.kind == "message":
                    to_reference(item, tgt.add())
                elif f.kind == "enum":
                    tgt.append(int(item))
                else:
                    tgt.append(item)
            continue
        # singular / optional / oneof member
        explicit = f.label == "optional" or bool(f.group)
        if f.wraps:
            if v is not None:
                getattr(ref, f.name).value = v
                getattr(ref, f.name).SetInParent()
            continue
        if f.is_timestamp or f.is_duration:
            if v is None:
                continue
            zero = EPOCH if f.is_timestamp else timedelta(0)
            if explicit or v != zero:
                sub = getattr(ref, f.name)
                (_set_ref_ts if f.is_timestamp else _set_ref_dur)(sub, v)
                sub.SetInParent()
            continue
        if f.kind == "message":
            if v is None:
                continue
            if explicit or betterproto.serialized_on_wire(v) or bool(v):
                # bool(v): content assigned below a sub-message that does not
                # report serialized_on_wire ("deep assignment"); it is emitted
                sub = getattr(ref, f.name)
                sub.SetInParent()
                to_reference(v, sub)
            continue
        if v is None:
            continue
        setattr(ref, f.name, int(v) if f.kind == "enum" else v)
    return ref


def _bp_enum(type_name, n):
    return ENUM_BY_NAME[type_name].try_value(int(n))


def _present_empty(cls):
    """A present-but-empty betterproto message, built with public API only."""
    return cls().parse(b"")


def from_reference(cls, ref):
    """Build a betterproto instance of cls from a reference message."""
    kwargs = {}
    for f in SCHEMAS[cls]:
        if f.kind == "map":
            src = getattr(ref, f.name)
            d = {}
            for k in src:
                if f.value_kind == "message":
                    d[k] = from_reference(CLASS_BY_NAME[f.value_type_name], src[k])
                    if bytes(d[k]) == b"":
                        d[k] = _present_empty(CLASS_BY_NAME[f.value_type_name])
                elif f.value_kind == "enum":
                    d[k] = _bp_enum(f.value_type_name, src[k])
                else:
                    d[k] = src[k]
            if d:
                kwargs[f.name] = d
            continue
        if f.label == "repeated":
            src = getattr(ref, f.name)
            items = []
            for item in src:
                if f.is_timestamp:
                    items.append(sn_to_dt(item.seconds, item.nanos))
                elif f.is_duration:
                    items.append(sn_to_td(item.seconds, item.nanos))
                elif f.kind == "message":
                    items.append(from_reference(CLASS_BY_NAME[f.type_name], item))
                elif f.kind == "enum":
                    items.append(_bp_enum(f.type_name, item))
                else:
                    items.append(item)
            if items:
                kwargs[f.name] = items
            continue
        has_presence = f.label == "optional" or f.group or f.kind == "message"
        if has_presence and not ref.HasField(f.name):
            continue
        v = getattr(ref, f.name)
        if f.wraps:
            kwargs[f.name] = v.value
        elif f.is_timestamp:
            kwargs[f.name] = sn_to_dt(v.seconds, v.nanos)
        elif f.is_duration:
            kwargs[f.name] = sn_to_td(v.seconds, v.nanos)
        elif f.kind == "message":
            sub = from_reference(CLASS_BY_NAME[f.type_name], v)
            if not betterproto.serialized_on_wire(sub):
                sub = _present_empty(CLASS_BY_NAME[f.type_name])
            kwargs[f.name] = sub
        elif f.kind == "enum":
            kwargs[f.name] = _bp_enum(f.type_name, v)
        else:
            if not has_presence and v == _zero(f.kind) and not _is_negzero(v):
                continue
            kwargs[f.name] = v
    return cls(**kwargs)


def _zero(kind):
    return {
        "string": "",
        "bytes": b"",
        "bool": False,
        "float": 0.0,
        "double": 0.0,
    }.get(kind, 0)


def _is_negzero(v):
    return isinstance(v, float) and v == 0 and math.copysign(1, v) < 0


def _f32(v):
    try:
        return struct.unpack("<f", struct.pack("<f", v))[0]
    except (OverflowError, struct.error):
        return v


def scalar_equal(kind, a, b):
    """Value equality for one scalar of the given kind (NaN-aware, float32
    compared after rounding, enums by number)."""
    if a is None or b is None:
        return a is None and b is None
    if kind in ("float", "double"):
        if not isinstance(a, (int, float)) or not isinstance(b, (int, float)):
            return False
        if isinstance(a, bool) or isinstance(b, bool):
            return False
        if kind == "float":
            a, b = _f32(a), _f32(b)
        if math.isnan(a) or math.isnan(b):
            return math.isnan(a) and math.isnan(b)
        return a == b
    if kind == "enum":
        try:
            return int(a) == int(b)
        except (TypeError, ValueError):
            return False
    if kind == "bool":
        return isinstance(a, (bool, int)) and isinstance(b, (bool, int)) and bool(a) == bool(b)
    if kind == "string":
        return isinstance(a, str) and isinstance(b, str) and a == b
    if kind == "bytes":
        return isinstance(a, (bytes, bytearray)) and isinstance(b, (bytes, bytearray)) and bytes(a) == bytes(b)
    # integers
    if isinstance(a, (str, bytes, float)) or isinstance(b, (str, bytes, float)):
        return False
    return a == b


class Diff:
    """One field-level difference."""

    __slots__ = ("cls", "field", "what", "tag", "detail", "path")

    def __init__(self, cls, field, what, tag, detail):
        self.path = ()
        self.cls = cls
        self.field = field
        self.what = what  # "value" | "presence" | "oneof" | "length" | "key" | "error"
        self.tag = tag
        self.detail = detail

    @property
    def key(self):
        return "%s:%s" % (self.what, self.tag)

    @property
    def base_key(self):
        """Key without the label prefix (optional-/oneof-/repeated-/map-..key-)
        for value differences: at the binary level the label does not change
        how a scalar is converted."""
        if self.what != "value":
            return self.key
        import re as _re

        return "%s:%s" % (self.what, _re.sub(r"^(optional-|oneof-|repeated-|map-[a-z0-9]+key-)", "", self.tag))

    def __str__(self):
        return "%s %s.%s %s [%s]: %s" % (
            ".".join(self.path),
            self.cls.__name__,
            self.field.name if self.field else "?",
            self.what,
            self.tag,
            self.detail,
        )

    __repr__ = __str__


def _time_equal_ref(f, v, sub):
    """Compare datetime/timedelta v with reference Timestamp/Duration sub."""
    try:
        exp = dt_to_sn(v) if f.is_timestamp else td_to_sn(v)
    except Exception:
        return False
    return exp == (sub.seconds, sub.nanos)


def ref_diff(m, ref):
    """Differences (values + presence) between betterproto m and reference ref."""
    cls = type(m)
    out = []
    try:
        for g in groups(cls):
            a = _selected(m, g)
            b = ref.WhichOneof(g)
            if a != b:
                gf = field_by_name(cls, a or b)
                out.append(
                    Diff(cls, gf, "oneof", "group", "which_one_of(%s)=%r, reference WhichOneof=%r" % (g, a, b))
                )
        for f in SCHEMAS[cls]:
            if f.group and _selected(m, f.group) != f.name:
                continue
            if _lazy_unset(m, f):
                if ref.HasField(f.name):
                    out.append(Diff(cls, f, "presence", field_tag(f) + "-unset", "never set, reference HasField=True"))
                continue
            ok, v = _get(m, f.name)
            if not ok:
                out.append(Diff(cls, f, "error", field_tag(f), "selected member unreadable"))
                continue
            for d in _ref_diff_field(cls, f, v, ref):
                d.path = (f.name,) + d.path
                out.append(d)
    except Exception as e:
        out.append(Diff(cls, None, "error", "compare-raises", "comparison raised %r" % (e,)))
    return out


def _ref_diff_field(cls, f, v, ref):
    out = []
    if f.kind == "map":
        src = getattr(ref, f.name)
        vk = _elem_kind(f.value_kind, f.value_type_name)
        if not isinstance(v, dict):
            return [Diff(cls, f, "value", field_tag(f), "not a dict: %r" % (v,))]
        rkeys = list(src)
        for k in v:
            if _same_key(rkeys, k, strict=True) is None:
                out.append(Diff(cls, f, "key", _key_tag(f, k), "key %r missing in reference %r" % (k, rkeys)))
        for rk in rkeys:
            mk = _same_key(v, rk, strict=True)
            if mk is None:
                out.append(Diff(cls, f, "key", _key_tag(f, rk), "reference key %r missing in %r" % (rk, list(v))))
                continue
            item = v[mk]
            if f.value_kind == "message":
                if not isinstance(item, betterproto.Message):
                    out.append(Diff(cls, f, "value", field_tag(f, item, True), "map value %r" % (item,)))
                else:
                    out.extend(ref_diff(item, src[rk]))
            elif not scalar_equal(vk, item, src[rk]):
                out.append(
                    Diff(cls, f, "value", field_tag(f, src[rk], True), "map[%r]: %r vs reference %r" % (rk, item, src[rk]))
                )
        return out
    if f.label == "repeated":
        src = getattr(ref, f.name)
        if not isinstance(v, list):
            return [Diff(cls, f, "value", field_tag(f), "not a list: %r" % (v,))]
        if len(v) != len(src):
            return [Diff(cls, f, "length", _len_tag(f), "%d items vs reference %d: %r vs %r" % (len(v), len(src), _short(v), _short(list(src))))]
        for i, (a, b) in enumerate(zip(v, src)):
            if f.is_timestamp or f.is_duration:
                if not _time_equal_ref(f, a, b):
                    out.append(Diff(cls, f, "value", field_tag(f, a, True), "[%d]: %r vs reference (%d,%d)" % (i, a, b.seconds, b.nanos)))
            elif f.kind == "message":
                out.extend(ref_diff(a, b))
            elif not scalar_equal(f.kind, a, b):
                out.append(Diff(cls, f, "value", field_tag(f, b, True), "[%d]: %r vs reference %r" % (i, a, b)))
        return out
    explicit = f.label == "optional" or bool(f.group)
    if f.wraps:
        has = ref.HasField(f.name)
        if (v is not None) != has:
            return [Diff(cls, f, "presence", field_tag(f, v), "value %r, reference HasField=%r" % (v, has))]
        if has and not scalar_equal(f.wraps, v, getattr(ref, f.name).value):
            return [Diff(cls, f, "value", field_tag(f, getattr(ref, f.name).value), "%r vs reference %r" % (v, getattr(ref, f.name).value))]
        return out
    if f.is_timestamp or f.is_duration:
        has = ref.HasField(f.name)
        sub = getattr(ref, f.name)
        if explicit:
            if (v is not None) != has:
                return [Diff(cls, f, "presence", field_tag(f, v), "value %r, reference HasField=%r" % (v, has))]
            if not has:
                return out
        if v is None:
            return [Diff(cls, f, "value", field_tag(f, v), "None in non-optional time field")]
        if not _time_equal_ref(f, v, sub):
            return [Diff(cls, f, "value", field_tag(f, v), "%r vs reference (%d,%d)" % (v, sub.seconds, sub.nanos))]
        return out
    if f.kind == "message":
        has = ref.HasField(f.name)
        if f.label == "optional":
            mine = v is not None
        elif f.group:
            mine = True
        else:
            mine = isinstance(v, betterproto.Message) and betterproto.serialized_on_wire(v)
        if mine != has:
            return [Diff(cls, f, "presence", field_tag(f, v), "betterproto present=%r, reference HasField=%r" % (mine, has))]
        if has:
            if not isinstance(v, betterproto.Message):
                return [Diff(cls, f, "value", field_tag(f, v), "not a message: %r" % (v,))]
            out.extend(ref_diff(v, getattr(ref, f.name)))
        return out
    # scalar / enum
    if explicit:
        has = ref.HasField(f.name)
        if (v is not None) != has:
            return [Diff(cls, f, "presence", field_tag(f, v), "value %r, reference HasField=%r" % (v, has))]
        if not has:
            return out
    rv = getattr(ref, f.name)
    if not scalar_equal(f.kind, v, rv):
        out.append(Diff(cls, f, "value", field_tag(f, rv), "%r vs reference %r" % (v, rv)))
    return out


def _key_tag(f, k):
    cat = _keycat(f.key_kind)
    if cat == "str":
        return field_tag(f) + ("-default-key" if k == "" else "")
    return "map-%skey" % cat


def _len_tag(f):
    return "repeated-packable-scalar" if f.kind in PACKABLE_KINDS else field_tag(f)


def _same_key(d, k, strict=False):
    """The key of d equal to k (None if absent).  strict: a str never
    matches a non-str."""
    for kk in d:
        try:
            if kk == k and (not strict or isinstance(kk, str) == isinstance(k, str)):
                return kk if kk is not None else k
        except Exception:
            pass
    return None


def ref_equal(m, ref):
    return not ref_diff(m, ref)


# =========================================================================
# 9. betterproto <-> betterproto structural diff (values + presence)
# =========================================================================


def _elem_equal(ek, a, b):
    if ek == "timestamp":
        return isinstance(a, datetime) and isinstance(b, datetime) and _aware_eq(a, b)
    if ek == "duration":
        return isinstance(a, timedelta) and isinstance(b, timedelta) and a == b
    return scalar_equal(ek, a, b)


def _aware_eq(a, b):
    try:
        return a == b and (a.tzinfo is None) == (b.tzinfo is None)
    except TypeError:
        return False


def bp_diff(exp, got, presence=True):
    """Field-wise differences between two betterproto messages of one class:
    ``exp`` is the expected one (tags are derived from its values)."""
    cls = type(exp)
    out = []
    if type(got) is not cls:
        return [Diff(cls, None, "value", "wrong-class", "got %r" % type(got))]
    try:
        for g in groups(cls):
            a, b = _selected(exp, g), _selected(got, g)
            if a != b:
                gf = field_by_name(cls, a or b)
                ok, av = _get(exp, a) if a else (True, None)
                out.append(Diff(cls, gf, "oneof", field_tag(gf, av) if a else "none-selected", "which_one_of(%s): expected %r got %r" % (g, a, b)))
        for f in SCHEMAS[cls]:
            if f.group:
                if _selected(exp, f.group) != f.name or _selected(got, f.group) != f.name:
                    continue
            if _lazy_unset(exp, f) and _lazy_unset(got, f):
                continue
            oka, a = _get(exp, f.name)
            okb, b = _get(got, f.name)
            if not (oka and okb):
                out.append(Diff(cls, f, "error", field_tag(f), "unreadable field"))
                continue
            for d in _bp_diff_field(cls, f, a, b, presence):
                d.path = (f.name,) + d.path
                out.append(d)
    except Exception as e:
        out.append(Diff(cls, None, "error", "compare-raises", "comparison raised %r" % (e,)))
    return out


def _bp_diff_field(cls, f, a, b, presence):
    out = []
    if f.kind == "map":
        vk = _elem_kind(f.value_kind, f.value_type_name)
        if not isinstance(b, dict):
            return [Diff(cls, f, "value", field_tag(f), "not a dict: %r" % (b,))]
        for k in a:
            kk = _same_key(b, k, strict=True)
            if kk is None:
                out.append(Diff(cls, f, "key", _key_tag(f, k), "key %r missing/retyped in %r" % (k, list(b))))
                continue
            if f.value_kind == "message":
                if not isinstance(b[kk], betterproto.Message):
                    out.append(Diff(cls, f, "value", field_tag(f, a[k], True), "map[%r]: %r" % (k, b[kk])))
                else:
                    out.extend(bp_diff(a[k], b[kk], presence=False))
            elif not _elem_equal(vk, a[k], b[kk]):
                out.append(Diff(cls, f, "value", field_tag(f, a[k], True), "map[%r]: expected %r got %r" % (k, a[k], b[kk])))
        for k in b:
            if _same_key(a, k) is None:
                out.append(Diff(cls, f, "key", _key_tag(f, k), "extra key %r" % (k,)))
        return out
    ek = f.elem_kind
    if f.label == "repeated":
        if not isinstance(b, list):
            return [Diff(cls, f, "value", field_tag(f), "not a list: %r" % (b,))]
        if len(a) != len(b):
            return [Diff(cls, f, "length", _len_tag(f), "expected %d items got %d: %s vs %s" % (len(a), len(b), _short(a), _short(b)))]
        for i, (x, y) in enumerate(zip(a, b)):
            if f.is_plain_message:
                if not isinstance(y, betterproto.Message):
                    out.append(Diff(cls, f, "value", field_tag(f, x, True), "[%d]: %r" % (i, y)))
                else:
                    out.extend(bp_diff(x, y, presence=False))
            elif not _elem_equal(ek, x, y):
                out.append(Diff(cls, f, "value", field_tag(f, x, True), "[%d]: expected %r got %r" % (i, x, y)))
        return out
    if (a is None) != (b is None):
        return [Diff(cls, f, "presence", field_tag(f, a), "None-ness: expected %r got %r" % (a, b))]
    if a is None:
        return out
    if f.is_plain_message:
        if not isinstance(a, betterproto.Message) or not isinstance(b, betterproto.Message):
            return [Diff(cls, f, "value", field_tag(f, a), "expected %r got %r" % (a, b))]
        if presence and f.label == "singular":
            pa, pb = betterproto.serialized_on_wire(a), betterproto.serialized_on_wire(b)
            if pa != pb:
                out.append(Diff(cls, f, "presence", field_tag(f, a), "serialized_on_wire: expected %r got %r" % (pa, pb)))
        out.extend(bp_diff(a, b, presence))
        return out
    if not _elem_equal(ek, a, b):
        out.append(Diff(cls, f, "value", field_tag(f, a), "expected %r got %r" % (a, b)))
    return out


def presence_report(m):
    """What m reports as present through the public API, *without* reading
    field attributes of implicit-presence fields (reads can flip is_set)."""
    cls = type(m)
    rep = {}
    for g in groups(cls):
        rep["oneof:" + g] = _selected(m, g)
    for f in SCHEMAS[cls]:
        try:
            rep["is_set:" + f.name] = m.is_set(f.name)
        except Exception as e:
            rep["is_set:" + f.name] = "raises %s" % type(e).__name__
    return rep


def nested_presence(m):
    """serialized_on_wire of every singular plain-message field (this reads
    the attributes, i.e. it may materialise lazy defaults)."""
    cls = type(m)
    rep = {}
    for f in SCHEMAS[cls]:
        if f.is_plain_message and (f.label == "singular" or f.group):
            if _lazy_unset(m, f):
                rep[f.name] = False
                continue
            if f.group and _selected(m, f.group) != f.name:
                continue
            ok, v = _get(m, f.name)
            if ok and isinstance(v, betterproto.Message):
                rep[f.name] = betterproto.serialized_on_wire(v)
            elif ok:
                rep[f.name] = "non-message %r" % type(v).__name__
    return rep
