"""Per-property check driver: generate obligations from /repo's current sources, discharge them,
replay refutations on the real code, run guards and bounded stand-ins, write evidence.

Exit codes: 0 held / 1 violation (VIOLATION line printed) / 3 checker error.  UNDECIDED obligations never
become violations (DESIGN.md §4).
"""
import dataclasses
import hashlib
import importlib
import json
import os
import random
import subprocess
import sys
import time

import z3

from . import front
from . import proc
from .contracts import FN, LEMMA
from .exec import Engine, FnExec, State
from .solve import solve_all
from .speclib import SpecLib, ASSUMPTIONS

VERIF = os.path.dirname(os.path.dirname(os.path.abspath(__file__)))
OUT = os.environ.get("PYVC_OUT", VERIF)   # dev only: redirect evidence/replays when checking a scratch copy
VENV_PY = "/venv/bin/python"


def load_area(area):
    return importlib.import_module(f"contracts.{area}")


def contract_to_native(c: FN):
    return {"qualname": c.qualname, "types": c.types, "requires": c.requires, "ensures": c.ensures,
            "raises": c.raises, "ghost": c.ghost}


def native_run(jobs, spec_modules, timeout=600):
    """Run contract checks on the real code under the repo's interpreter."""
    if not jobs:
        return []
    req = json.dumps({"spec_modules": list(spec_modules), "jobs": jobs})
    env = dict(os.environ)
    env["PYTHONPATH"] = VERIF
    env.setdefault("PYVC_REPO", front.REPO)
    p = proc.run([VENV_PY, "-m", "pyvc.native"], input=req, cwd=VERIF, env=env, timeout=timeout)
    if p.returncode != 0:
        raise RuntimeError(f"native worker failed: {p.stderr[-800:]}")
    return json.loads(p.stdout)


def model_to_args(c: FN, model):
    """solver model -> JSON args for the native worker (None if the model is not a valid input)."""
    args = {}
    for p, kind in c.types.items():
        if kind == "stream":
            data = model.get(f"{p}.data", [])
            pos = model.get(f"{p}.pos", 0)
            if not isinstance(data, list) or not all(isinstance(x, int) and 0 <= x < 256 for x in data):
                return None
            args[p] = {"data": data, "pos": pos if isinstance(pos, int) else 0}
        elif kind == "bytes":
            v = model.get(p, [])
            if not isinstance(v, list) or not all(isinstance(x, int) and 0 <= x < 256 for x in v):
                return None
            args[p] = v
        elif kind == "int":
            v = model.get(p, 0)
            if not isinstance(v, int):
                return None
            args[p] = v
        elif kind == "bool":
            args[p] = bool(model.get(p, False))
        elif kind == "str":
            v = model.get(p, "")
            if not isinstance(v, str):
                return None
            args[p] = v
        elif kind == "obj":
            v = model.get(p, {"ctor": "PNone", "args": []})
            if not isinstance(v, dict) or v.get("ctor") in ("PMsg", "PList", "PDict", "PEnum", "POther", "PPlaceholder"):
                return None
            args[p] = v
        else:
            return None
    return args


def standin_bounded(prop, name=None, extra_args=()):
    """bounded stand-in: the executable relation of the property evaluated on the real code over the
    enumerated corpus of /verif/standin (stated bound: --n cases per class, seeded)."""
    def run(pc):
        n = 330 if pc.tier == "quick" else 1200      # 330 >= every single-field boundary recipe of the largest class (292)
        env = dict(os.environ)
        env["PYTHONPATH"] = VERIF
        env.setdefault("PYVC_REPO", front.REPO)
        cmd = [VENV_PY, "-m", "standin.run", prop, "--n", str(n), "--seed", str(pc.seed)] + list(extra_args)
        p = proc.run(cmd, cwd=VERIF, env=env, timeout=3000)
        if p.returncode != 0:
            raise RuntimeError(f"stand-in {prop} crashed: {p.stderr[-600:]}")
        r = json.loads(p.stdout)
        fails = []
        for f in r.get("failures", []):
            fails.append({"match": f.get("match"), "concrete_call": {"class": f.get("class"), "how": f.get("how"), "repr": f.get("repr")},
                          "observed": f.get("detail")})
        return {"name": name or f"standin:{prop}", "label": "bounded", "bound": f"{n} cases per class (all single-field boundary recipes first, then seeded combinations), seed {pc.seed}",
                "cases": r.get("cases", 0), "distinct_nontrivial": r.get("distinct_nontrivial", 0),
                "n_failures": r.get("n_failures", 0), "samples": r.get("samples", [])[:3], "failures": fails}
    return run


def external_bounded(name, module, quick_args, thorough_args, bound_text):
    """bounded stand-in implemented by a helper module under /verif (one JSON object on stdout)."""
    def run(pc):
        env = dict(os.environ)
        env["PYTHONPATH"] = VERIF
        env.setdefault("PYVC_REPO", front.REPO)
        args = list(quick_args if pc.tier == "quick" else thorough_args) + ["--seed", str(pc.seed)]
        p = proc.run([VENV_PY, "-m", module] + args, cwd=VERIF, env=env, timeout=3300)
        if p.returncode != 0:
            raise RuntimeError(f"stand-in {module} crashed: {p.stderr[-600:]}")
        r = json.loads(p.stdout)
        fails = []
        for f in r.get("failures", []):
            fails.append({"match": f.get("match"), "concrete_call": {k: f.get(k) for k in ("config", "schedule", "example", "schema", "class", "how") if f.get(k) is not None},
                          "observed": f.get("detail")})
        return {"name": name, "label": "bounded", "bound": bound_text + f", seed {pc.seed}", "cases": r.get("cases", 0),
                "distinct_nontrivial": r.get("distinct_nontrivial", 0), "n_failures": r.get("n_failures", 0),
                "exhaustive": r.get("exhaustive", False), "samples": r.get("samples", [])[:3], "failures": fails,
                "skipped": r.get("skipped", [])}
    return run


class PropertyCheck:
    def __init__(self, prop, tier, seed):
        self.prop = prop
        self.tier = tier
        self.seed = seed
        self.t0 = time.time()
        self.pmod = importlib.import_module(f"props.{prop}")
        names = []

        def add(a):
            m = load_area(a)
            for d in getattr(m, "DEPENDS", []):
                add(d)
            if a not in names:
                names.append(a)
        for a in self.pmod.AREAS:
            add(a)
        self.areas = [load_area(a) for a in names]
        spec_modules = []
        for a in self.areas:
            for m in getattr(a, "SPEC_MODULES", ("wire",)):
                if m not in spec_modules:
                    spec_modules.append(m)
        self.spec_modules = spec_modules
        self.spec = SpecLib(spec_modules)
        for a in self.areas:
            for plug in getattr(a, "PLUGINS", []):
                if plug not in self.spec.plugins:
                    self.spec.plugins.append(plug)
        contracts, lemmas = [], []
        for a in self.areas:
            contracts += a.CONTRACTS
            lemmas += getattr(a, "LEMMAS", [])
        self.contracts = contracts
        self.lemmas = lemmas
        self.eng = Engine(contracts, self.spec)
        self.eng.lemmas = {L.name: L for L in lemmas}
        self.known = self.load_known()
        self.messages = []
        self.violations = []
        self.known_hits = []
        self.errors = []
        self.undecided = []

    def load_known(self):
        path = os.path.join(VERIF, "known_findings.json")
        if not os.path.exists(path):
            return []
        with open(path) as f:
            return [k for k in json.load(f)["findings"] if k["property"] == self.prop]

    # ---------------------------------------------------------------------------------------
    def selected(self):
        only = getattr(self.pmod, "ONLY", None)
        fns = [c for c in self.contracts if self.prop in c.props and not c.inline and not c.assumed and (only is None or c.qualname in only)]
        lems = [L for L in self.lemmas if self.prop in L.props]
        # lemmas used (transitively) by selected items must be proved in this run too
        need = set()

        def add_uses(uses):
            for lem, _ in uses:
                if lem not in need:
                    need.add(lem)
                    add_uses(self.eng.lemmas[lem].use)
        for c in fns:
            add_uses(c.use)
            for lp in c.loops.values():
                add_uses(lp.use)
        for L in lems:
            add_uses(L.use)
        names = {L.name for L in lems}
        for n in sorted(need):
            if n not in names:
                lems.append(self.eng.lemmas[n])
        return fns, lems

    def run(self):
        fns, lems = self.selected()
        timeout = 150 if self.tier == "quick" else 240      # idle maximum is ~30 s: headroom for a loaded machine
        execs = []
        for L in lems:
            execs.append(("lemma", L, self.eng.verify_lemma(L)))
        for c in fns:
            execs.append(("fn", c, self.eng.verify_function(c.qualname)))
        # callees referenced by modular calls must themselves be verified somewhere: record them
        obls = []
        for kind, c, ex in execs:
            if ex.unsupported:
                self.undecided.append({"obligation": f"{ex.qualname}/*", "reason": "outside-subset: " + "; ".join(ex.unsupported)})
            if not getattr(ex, "requires_sat", True):
                self.errors.append(f"vacuous contract: requires of {ex.qualname} is unsatisfiable")
            obls += ex.obls
        if not obls:
            self.errors.append("zero obligations generated")
        # known findings: split the obligation by the recorded `when` predicate
        self.apply_known_findings(obls, execs)
        results = solve_all(obls, timeout_s=timeout)
        self.obls, self.results, self.execs = obls, results, execs
        by_fn = {c.qualname: c for k, c, ex in execs if k == "fn"}
        # vacuity: a group (loop body / function exits) all of whose paths are provably infeasible
        groups = {}
        for o, r in zip(obls, results):
            if o.kind == "vacuity":
                groups.setdefault(o.name, []).append(r["result"])
        partial = {ex.qualname for kind, c, ex in execs if ex.unsupported}     # execution aborted: path groups incomplete
        # a function with an obligation that is not discharged is not claimed proved: an infeasible path group there is
        # a symptom of the code disagreeing with the model (e.g. `.items()` reached with a non-dict), reported as
        # undecided; only a vacuity that would hide behind an otherwise complete proof is a checker error
        not_proved = {o.fn for o, r in zip(obls, results) if o.kind != "vacuity" and r["result"] != "unsat"}
        for g, rs in groups.items():
            if g.split("/")[0] in partial:
                continue
            if rs and all(x == "unsat" for x in rs):
                if g.split("/")[0] in not_proved:
                    self.undecided.append({"obligation": g, "reason": "vacuous: every path of this group is infeasible under the model while other obligations of the function are not discharged"})
                    continue
                self.errors.append(f"vacuous proof: every path of {g} is infeasible under the stated assumptions (contradictory contract or model)")
        self.vacuity = {"groups": len(groups), "paths": sum(len(v) for v in groups.values()),
                        "infeasible_paths": sum(1 for v in groups.values() for x in v if x == "unsat")}
        keep = [(o, r) for o, r in zip(obls, results) if o.kind != "vacuity"]
        obls = [o for o, r in keep]
        results = [r for o, r in keep]
        self.obls, self.results = obls, results
        refuted = []
        # functions in which a model side condition is not provable: every verdict there is only "undecided"
        outside_model = {o.fn for o, r in zip(obls, results) if o.kind == "model" and r["result"] != "unsat"}
        for o, r in zip(obls, results):
            if r["result"] == "unsat":
                continue
            if r["result"] == "sat" and o.kind == "model":
                # a side condition of the engine's own modelling (e.g. `|` only on disjoint bits) does not hold:
                # the construct is outside the model -> undecided, never a violation
                self.undecided.append({"obligation": o.name, "reason": "outside-model: side condition of a builtin/bit-operation model is not provable here"})
            elif r["result"] == "sat" and o.fn in outside_model:
                self.undecided.append({"obligation": o.name, "reason": "outside-model: refutation not trusted because a model side condition of this function fails"})
            elif r["result"] == "sat":
                refuted.append((o, r))
            else:
                self.undecided.append({"obligation": o.name, "reason": f"{r['result']}: {r['reason']}"[:200]})
        # replay refutations on the real code
        for o, r in refuted:
            self.handle_refuted(o, r, by_fn)
        # guards + bounded stand-ins on the real code
        self.cross_check(fns)
        self.run_bounded()
        self.replay_known_witnesses()
        self.write_evidence(fns, lems)
        return self.finish()

    # ---------------------------------------------------------------------------------------
    def apply_known_findings(self, obls, execs):
        for k in self.known:
            if k.get("status") != "known" or "when" not in k:
                continue
            for o in obls:
                if o.name == k["obligation"]:
                    ex = [e for _, _, e in execs if e.qualname == o.fn][0]
                    st = ex.entry.clone()
                    cond = ex.truth(ex.ev_spec(k["when"], st))
                    o.pc.append(z3.Not(cond))
                    o.note += f" [split by known finding {k['id']}]"

    def handle_refuted(self, o, r, by_fn):
        os.makedirs(os.path.join(OUT, "replays", self.prop), exist_ok=True)
        safe = o.name.replace("/", "__").replace("[", "_").replace("]", "_").replace("@", "_at_").replace(":", "_")
        path = os.path.join("replays", self.prop, f"{safe}.json")
        rec = {"property": self.prop, "obligation": o.name, "function": o.fn, "kind": o.kind,
               "backend": r["backend"], "solver_result": r["result"], "solver_time_s": r["time_s"],
               "model": r["model"], "note": o.note, "reproduced": False, "found_by": None}
        c = by_fn.get(o.fn)
        if c is not None:
            mi, q, node = front.get_function(c.qualname)
            rec["source_sha256"] = mi.fn_sha(q)
            rec["source_file"] = os.path.relpath(mi.path, front.REPO)
            args = model_to_args(c, r["model"] or {}) if r["model"] is not None else None
            tried = []
            if args is not None:
                tried.append(("solver-model", args))
            for s in self.samples_for(c):
                tried.append(("bounded-standin", s))
            if tried:
                res = native_run([{"contract": contract_to_native(c), "args": a} for _, a in tried], self.spec_modules)
                for (how, a), rr in zip(tried, res):
                    if rr["status"] == "violated":
                        rec.update(reproduced=True, found_by=how, concrete_call={"function": c.qualname, "args": a},
                                   failed_clauses=rr["failed"], observed=rr.get("observed"), detail=rr.get("detail"))
                        break
                rec["inputs_tried"] = len(tried)
        # Only a refuted PROPERTY-LEVEL clause (a postcondition / step / yield / end / always clause or a stated
        # "raises X iff ..." clause: their text comes from the property statement) is reported without a failing input.
        # A refuted INTERMEDIATE obligation (loop invariant initialisation / preservation, call precondition, frame,
        # safety, absence of an unlisted exception) that no tried input reproduces on the real code only says that the
        # proof as written no longer goes through - e.g. dump() emitting fields in another order breaks the invariant
        # "written so far == declaration-order prefix" although every property still holds. That is UNDECIDED; the
        # bounded stand-in decides.
        property_level = o.kind in ("ensures", "yields", "ends", "loop-step", "always") or \
            (o.kind == "raises" and "no-unlisted-exception" not in o.name)
        if not rec["reproduced"] and not property_level:
            rec["downgraded"] = "intermediate obligation refuted in the model, no failing input on the real code: undecided"
            with open(os.path.join(OUT, path), "w") as f:
                json.dump(rec, f, indent=1, default=str)
            if not any(u["obligation"] == o.name for u in self.undecided):
                self.undecided.append({"obligation": o.name, "reason": "refuted in the model (" + str(r["backend"]) + ": sat) but none of the "
                                       + str(rec.get("inputs_tried", 0)) + " tried inputs fails on the real code; intermediate obligation (" + o.kind + "): the bounded stand-in decides"})
            return
        # the same named obligation can be refuted on several paths: one replay file and one VIOLATION line per
        # obligation, keeping a reproduced record over an unreproduced one
        prev = getattr(self, "_replayed", {}).get(path)
        if prev is not None and (prev["reproduced"] or not rec["reproduced"]):
            prev["paths_refuted"] = prev.get("paths_refuted", 1) + 1
            with open(os.path.join(OUT, path), "w") as f:
                json.dump(prev, f, indent=1, default=str)
            return
        self.__dict__.setdefault("_replayed", {})[path] = rec
        if prev is not None:
            rec["paths_refuted"] = prev.get("paths_refuted", 1) + 1
            self.violations = [v for v in self.violations if v["replay"] != path]
            self.messages = [m for m in self.messages if f"replay={path}" not in m.split(" ")]
        with open(os.path.join(OUT, path), "w") as f:
            json.dump(rec, f, indent=1, default=str)
        tail = "" if rec["reproduced"] else " no-failing-input-found"
        self.violations.append({"obligation": o.name, "replay": path, "reproduced": rec["reproduced"]})
        self.messages.append(f"VIOLATION property={self.prop} replay={path}{tail}")

    def samples_for(self, c):
        gen = getattr(self.area_of(c), "SAMPLES", {}).get(c.qualname)
        out = []
        if c.witness is not None:
            out.append(self.encode_args(c, c.witness))
        if gen is not None:
            rnd = random.Random(self.seed)
            n = 300 if self.tier == "quick" else 5000
            for a in gen(rnd, n):
                out.append(self.encode_args(c, a))
        return out

    def area_of(self, c):
        for a in self.areas:
            if c in a.CONTRACTS:
                return a
        return None

    @staticmethod
    def encode_args(c, a):
        out = {}
        for p, kind in c.types.items():
            v = a[p]
            if kind == "stream":
                if isinstance(v, (bytes, bytearray)):
                    v = {"data": list(v), "pos": 0}
                else:
                    v = {"data": list(v[0]), "pos": v[1]}
            elif kind == "bytes":
                v = list(v)
            elif kind == "obj":
                if isinstance(v, (bytes, bytearray)):
                    v = {"__bytes__": list(v)}
                elif isinstance(v, float):
                    v = {"__float__": repr(v)}
            out[p] = v
        return out

    def cross_check(self, fns):
        """CPython cross-check: every contract whose obligations were all discharged must hold at run time
        on the witness and on sampled inputs of the real function.  A failure here contradicts a proof
        -> checker error (exit 3), unless the same function already has a refuted obligation."""
        self.cross = {"functions": 0, "calls": 0, "precondition_skips": 0, "samples": []}
        refuted_fns = {v["obligation"].split("/")[0] for v in self.violations}
        undecided_fns = {u["obligation"].split("/")[0] for u in self.undecided}
        # modular verification: a caller is proved against its callees' CONTRACTS.  If a callee's own contract is
        # refuted / undecided, a run-time failure of the caller is attributable to that callee, not to the engine.
        tainted = self.callers_of(refuted_fns | undecided_fns, fns)
        direct_refuted = set(refuted_fns)
        refuted_fns |= {q for q, root in tainted.items() if root in direct_refuted}
        undecided_fns |= {q for q in tainted if q not in refuted_fns}
        standin_hits = {}
        jobs, owners = [], []
        for c in fns:
            if not all(k in ("int", "bool", "bytes", "str", "stream", "obj") for k in c.types.values()):
                continue
            ss = self.samples_for(c)
            if not ss:
                continue
            self.cross["functions"] += 1
            for a in ss:
                jobs.append({"contract": contract_to_native(c), "args": a})
                owners.append((c, a))
        res = native_run(jobs, self.spec_modules)
        witnessed = set()
        for (c, a), r in zip(owners, res):
            self.cross["calls"] += 1
            if r["status"] == "precondition-not-met":
                self.cross["precondition_skips"] += 1
            elif r["status"] == "ok":
                witnessed.add(c.qualname)
                if len(self.cross["samples"]) < 5:
                    self.cross["samples"].append({"function": c.qualname, "args": a, "observed": r.get("observed")})
            elif r["status"] == "violated":
                if c.qualname in refuted_fns:
                    continue
                if c.qualname in undecided_fns:
                    # the deductive verdict for this function is "undecided": the executable contract on the real
                    # code is the bounded stand-in, and it found a failing input
                    if c.qualname not in standin_hits:
                        standin_hits[c.qualname] = (a, r)
                    continue
                self.errors.append(f"proved contract of {c.qualname} fails at run time on {a}: {r['failed']} "
                                   f"observed {r.get('observed')} (engine/model unsound or contract wrong)")
            else:
                self.errors.append(f"native harness problem for {c.qualname}: {r}")
        for q, (a, r) in standin_hits.items():
            os.makedirs(os.path.join(OUT, "replays", self.prop), exist_ok=True)
            path = os.path.join("replays", self.prop, f"standin_{q.replace('.', '_')}.json")
            with open(os.path.join(OUT, path), "w") as fh:
                json.dump({"property": self.prop, "obligation": f"{q}/" + ",".join(r["failed"]), "function": q,
                           "found_by": "bounded-standin", "reproduced": True, "concrete_call": {"function": q, "args": a},
                           "failed_clauses": r["failed"], "observed": r.get("observed"),
                           "note": "deductive verdict undecided for this function; executable contract evaluated on the real code"},
                          fh, indent=1, default=str)
            self.violations.append({"obligation": f"{q}/" + ",".join(r["failed"]), "replay": path, "reproduced": True})
            self.messages.append(f"VIOLATION property={self.prop} replay={path}")
        for c in fns:
            if c.witness is not None and c.qualname not in witnessed and c.qualname not in refuted_fns \
                    and all(k in ("int", "bool", "bytes", "str", "stream", "obj") for k in c.types.values()):
                self.errors.append(f"vacuity: no concrete call of {c.qualname} satisfied its precondition")

    def callers_of(self, bad, fns):
        """{caller qualname: a bad callee} for every function under contract that (transitively) calls a function in
        `bad` (static scan of the real source for the callee's simple name)."""
        import ast as _ast
        names = {}
        for c in fns:
            try:
                mi, q, node = front.get_function(c.qualname)
            except Exception:
                continue
            called = set()
            for n in _ast.walk(node):
                if isinstance(n, _ast.Call):
                    f = n.func
                    if isinstance(f, _ast.Name):
                        called.add(f.id)
                    elif isinstance(f, _ast.Attribute):
                        called.add(f.attr)
            names[c.qualname] = called
        out = {}
        frontier = set(bad)
        seen = set(bad)
        while frontier:
            nxt = set()
            for q, called in names.items():
                if q in seen:
                    continue
                for b in frontier:
                    if b.split(".")[-1].replace("@instance", "") in called:
                        out[q] = out.get(b, b)
                        nxt.add(q)
                        break
            seen |= nxt
            frontier = nxt
        return out

    def run_bounded(self):
        self.bounded = []
        for b in getattr(self.pmod, "BOUNDED", []):
            r = b(self)
            self.bounded.append(r)
            for f in r.get("failures", []):
                path = os.path.join("replays", self.prop, f"bounded_{r['name']}_{len(self.violations)}.json")
                os.makedirs(os.path.join(OUT, "replays", self.prop), exist_ok=True)
                with open(os.path.join(OUT, path), "w") as fh:
                    json.dump({"property": self.prop, "obligation": f"bounded:{r['name']}", "found_by": "bounded-standin",
                               "reproduced": True, **f}, fh, indent=1, default=str)
                if self.is_known_failure(f):
                    continue
                self.violations.append({"obligation": f"bounded:{r['name']}", "replay": path, "reproduced": True})
                self.messages.append(f"VIOLATION property={self.prop} replay={path}")

    def is_known_failure(self, f):
        for k in self.known:
            hit = (k.get("match") and k["match"] == f.get("match")) or \
                  (k.get("match_prefix") and str(f.get("match", "")).startswith(k["match_prefix"]))
            if k.get("status") == "known" and hit:
                if k["id"] not in [h["id"] for h in self.known_hits]:
                    self.known_hits.append(k)
                return True
        return False

    def replay_known_witnesses(self):
        by_q = {c.qualname: c for c in self.contracts}
        for k in self.known:
            if k.get("status") != "known" or "witness" not in k:
                continue
            c = by_q.get(k["witness"]["function"])
            if c is None:
                continue
            r = native_run([{"contract": contract_to_native(c), "args": k["witness"]["args"]}], self.spec_modules)[0]
            if r["status"] == "violated":
                if k["id"] not in [h["id"] for h in self.known_hits]:
                    self.known_hits.append(k)

    # ---------------------------------------------------------------------------------------
    def write_evidence(self, fns, lems):
        discharged = sum(1 for r in self.results if r["result"] == "unsat")
        by_backend = {}
        for r in self.results:
            if r["result"] == "unsat":
                by_backend[r["backend"]] = by_backend.get(r["backend"], 0) + 1
        fuc = []
        for c in fns:
            mi, q, node = front.get_function(c.qualname)
            seg, a, b = mi.fn_source(q)
            fuc.append({"function": c.qualname, "file": os.path.relpath(mi.path, front.REPO), "lines": [a, b],
                        "sha256": mi.fn_sha(q), "top_postconditions": c.top})
        samples = []
        for o, r in list(zip(self.obls, self.results))[:6]:
            samples.append({"obligation": o.name, "kind": o.kind, "result": r["result"], "backend": r["backend"],
                            "time_s": r["time_s"], "goal": str(z3.simplify(o.goal))[:240]})
        level = getattr(self.pmod, "LEVEL", "proof")
        all_ok = discharged == len(self.obls) and not self.undecided
        if level == "proof" and not all_ok:
            level = "other"
        assumptions = sorted(self.eng.assumptions_used)
        texts = dict(ASSUMPTIONS)
        for plug in self.eng.spec.plugins:
            pm = sys.modules.get(type(plug).__module__)
            for nm in dir(pm):
                if nm.endswith("_ASSUMPTIONS") and isinstance(getattr(pm, nm), dict):
                    texts.update(getattr(pm, nm))
        texts.update(getattr(self.pmod, "ASSUMPTIONS", {}))
        assumption_text = [f"{a}: {texts.get(a, '')}" for a in assumptions]
        assumption_text += list(getattr(self.pmod, "ASSUMED", []))
        cov = {
            "obligations": len(self.obls),
            "discharged": discharged,
            "checker_cmd": f"./vcheck {self.prop} --tier {self.tier}",
            "trusted_base": ["z3 5.1.0 / cvc5 1.0.3 (SMT back ends)", "pyvc VC generator (/verif/pyvc; guarded by the CPython cross-check, canaries and the mutation self-test)",
                             "spec functions in /verif/spec (oracle; validated natively)"] + assumption_text,
            "explanation": getattr(self.pmod, "EXPLANATION", ""),
            "functions_under_contract": fuc,
            "lemmas": [{"name": L.name, "goal": L.goal, "induction_measure": L.measure} for L in lems],
            "discharged_by_backend": by_backend,
            "solver_time_s": round(sum(r["time_s"] for r in self.results), 2),
            "max_obligation_time_s": max([r["time_s"] for r in self.results] or [0]),
            "undecided": self.undecided,
            "refuted": [v for v in self.violations],
            "paths_explored": sum(ex.paths for _, _, ex in self.execs),
            "vacuity_guard": getattr(self, "vacuity", {}),
            "cpython_cross_check": getattr(self, "cross", {}),
            "bounded_standins": [{k: v for k, v in b.items() if k != "failures"} | {"failures": len(b.get("failures", []))}
                                 for b in getattr(self, "bounded", [])],
            "known_findings_reproduced": [k["id"] for k in self.known_hits],
            "extraction_drops": "docstrings, comments, type annotations (hints only), non-binding decorators; `if TYPE_CHECKING` = False",
            "samples": samples,
            "evaluations": len(self.obls) + getattr(self, "cross", {}).get("calls", 0),
            "distinct_nontrivial": len({o.name for o, r in zip(self.obls, self.results)
                                        if not z3.is_true(z3.simplify(o.goal))}),
            "rule": "one evaluation per generated proof obligation plus one per run-time contract evaluation; "
                    "an obligation is non-trivial if its goal does not simplify to true syntactically",
        }
        ev = {"property_id": self.prop, "tier": self.tier, "seed": self.seed, "level": level, "coverage": cov,
              "assumptions": assumption_text, "wall_s": round(time.time() - self.t0, 2),
              "violations": len(self.violations)}
        os.makedirs(os.path.join(OUT, "evidence"), exist_ok=True)
        with open(os.path.join(OUT, "evidence", f"{self.prop}.json"), "w") as f:
            json.dump(ev, f, indent=1, default=str)

    def finish(self):
        for u in self.undecided:
            print(f"UNDECIDED obligation={u['obligation']} reason={u['reason']}")
        for k in self.known_hits:
            print(f"KNOWN-FINDING: property={self.prop} {k['what']}")
        for m in self.messages:
            print(m)
        discharged = sum(1 for r in self.results if r["result"] == "unsat")
        print(f"{self.prop}: obligations={len(self.obls)} discharged={discharged} undecided={len(self.undecided)} "
              f"violations={len(self.violations)} wall={round(time.time() - self.t0, 1)}s")
        if self.errors:
            for e in self.errors[:8]:
                print(f"CHECKER-ERROR {e}"[:600])
            if len(self.errors) > 8:
                print(f"CHECKER-ERROR ... and {len(self.errors) - 8} more")
            return 3
        return 1 if self.violations else 0


def replay(path):
    """re-execute a replay file against the current /repo"""
    with open(path if os.path.isabs(path) else os.path.join(VERIF, path)) as f:
        rec = json.load(f)
    print(f"replay of {rec.get('obligation')} (property {rec.get('property')}, found by {rec.get('found_by')})")
    cc = rec.get("concrete_call") or {}
    if "function" in cc and "args" in cc:
        sys.path.insert(0, VERIF)
        for area in ("varint", "single", "frame", "names", "time", "msgload"):
            mod = load_area(area)
            for c in mod.CONTRACTS:
                if c.qualname == cc["function"] and not c.assumed:
                    spec_modules = getattr(mod, "SPEC_MODULES", ("wire",))
                    r = native_run([{"contract": contract_to_native(c), "args": cc["args"]}], spec_modules)[0]
                    print(json.dumps({"call": cc, "result": r}, indent=1, default=str))
                    print("REPRODUCED" if r["status"] == "violated" else "NOT-REPRODUCED")
                    return 0 if r["status"] != "violated" else 1
        print("function not found among the contracts")
        return 3
    if "config" in cc and "schedule" in cc:
        env = dict(os.environ, PYTHONPATH=VERIF)
        p = subprocess.run([VENV_PY, "-m", "standin_misc.sched", "--replay", json.dumps({"config": cc["config"], "schedule": cc["schedule"]})],
                           cwd=VERIF, env=env, capture_output=True, text=True)
        print(p.stdout[-3000:])
        return 0
    print(json.dumps(rec, indent=1, default=str)[:4000])
    print("(no directly executable call in this replay file: the record above carries the failed obligation, the solver's "
          "model / the stand-in case; re-run the property's check to re-evaluate it)")
    return 0


def main(argv):
    if argv and argv[0] == "replay":
        return replay(argv[1])
    import argparse
    ap = argparse.ArgumentParser()
    ap.add_argument("prop")
    ap.add_argument("--tier", default=os.environ.get("VERIF_TIER", "quick"))
    a = ap.parse_args(argv)
    seed = int(os.environ.get("VERIF_SEED", "0"))
    sys.path.insert(0, VERIF)
    try:
        pc = PropertyCheck(a.prop, a.tier, seed)
        return pc.run()
    except Exception:
        import traceback
        traceback.print_exc()
        print("CHECKER-ERROR the check itself failed (no verdict)")
        return 3
