"""C13 — cross-package type references resolve to the right class."""
AREAS = ["names", "imports"]
LEVEL = "other"
EXPLANATION = (
    "reference_sibling / _descendent / _ancestor / _cousin / _absolute are verified for SYMBOLIC package and type names "
    "(identifier atoms) and every package shape with current and target depth <= 3 and every common-prefix length "
    "(enumerated, 39 shapes): the import line they add, interpreted with Python's relative-import rule from the current "
    "package, is exactly the target package module (the class itself for the root-ancestor form), the returned forward "
    "reference is '\"alias.Type\"' with the alias that line binds, and the alias is an identifier. "
    "Not covered deductively: the dispatch in get_type_reference (str.split on symbolic dotted names, regex in "
    "parse_source_type_name), coexistence of many references in one module (alias collisions), emission of the imports "
    "by the template and lazy resolution by get_type_hints: bounded end-to-end stand-in with the real plugin.")
ASSUMED = ["A-IMPORT (relative import semantics)", "shapes bounded: depth <= 3 (names unbounded)",
           "get_type_reference dispatch, alias collisions, template emission: bounded end-to-end stand-in"]
from pyvc.check import external_bounded
BOUNDED = [external_bounded("plugin-end-to-end:C13", "standin_plugin.run", ["C13", "--n", "8"], ["C13", "--n", "60"],
                            "real plugin via grpc_tools.protoc on generated multi-package schemas: all package-pair shapes of depth <= 3 (complete when n >= 60), import and resolve")]
