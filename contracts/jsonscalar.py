"""Contracts for the JSON scalar helpers (C04 / C05): _scalar_to_json, _scalar_from_json, _map_key_from_json,
_dump_float, _parse_float against the proto3 JSON mapping spec (spec/jsonmap.py)."""
from pyvc.contracts import FN, LOOP, LEMMA
from pyvc.models_json import JsonPlugin
from pyvc.models_wire import WirePlugin

DEPENDS = []
SPEC_MODULES = ("wire", "jsonmap")
PLUGINS = [JsonPlugin(), WirePlugin()]

SCALAR_KIND = ("scalar-kind", "KNOWN_KIND(proto_type) and proto_type != 'message' and proto_type != 'map' and proto_type != 'enum'")

LEMMAS = [
    LEMMA("AX_DECSTR_PARSE", {"n": "int"}, [], "ISNUMERAL(DECSTR(n)) and PARSEINT(DECSTR(n)) == n", assumed=True, props=["C04", "C05"],
          notes="A-DECSTR: int(str(n)) == n for every int (CPython's decimal conversion; exercised natively by the cross-check)"),
    LEMMA("AX_BASE64", {"b": "bytes"}, [], "ISB64(B64(b)) and UNB64(B64(b)) == b", assumed=True, props=["C04", "C05"],
          notes="A-BASE64: base64 decoding inverts encoding"),
    LEMMA("JSON_SCALAR_ROUNDTRIP", {"t": "str", "v": "obj"},
          ["KNOWN_KIND(t) and t != 'message' and t != 'map' and t != 'enum'", "TYV(t, '', v)", "implies(IS_INT64_KIND(t), is_pint(v))"],
          "JSONP_DEFINED(t, JSONS(t, v)) and (same(JSONP(t, JSONS(t, v)), v) or JSONP(t, JSONS(t, v)) == v)",
          use=[("AX_DECSTR_PARSE", {"n": "as_int(v)"}), ("AX_BASE64", {"b": "as_bytes(v)"})],
          props=["C04"], notes="per-kind link of C04: reading the canonical JSON form of a well-typed scalar gives the scalar back"),
    LEMMA("JSON_KEY_ROUNDTRIP", {"t": "str", "k": "obj"}, ["KEYTY(t, k)"],
          "same(KEYP(t, JSONKEY(t, k)), k)",
          use=[("AX_DECSTR_PARSE", {"n": "as_int(k)"})],
          props=["C04"], notes="map keys survive the trip through JSON object keys (negative integers, bools, strings)"),
]

CONTRACTS = [
    FN("betterproto._dump_float", types={"value": "obj"}, returns="obj",
       ensures=[("C05-nonfinite-floats-are-strings", "same(result, JSONS('double', value))")],
       top=["C05-nonfinite-floats-are-strings"], props=["C05", "C04"]),
    FN("betterproto._parse_float", types={"value": "obj"}, returns="obj",
       raises=[("ValueError", "may", ""), ("TypeError", "may", "")],
       ensures=[("C04-reads-the-three-strings-and-floats", "same(result, JSONP('double', value))")],
       top=["C04-reads-the-three-strings-and-floats"], props=["C04", "C05"]),
    FN("betterproto._scalar_to_json", types={"proto_type": "str", "value": "obj"}, returns="obj",
       requires=[SCALAR_KIND, ("typed", "TYV(proto_type, '', value)"),
                 ("plain-int", "implies(IS_INT64_KIND(proto_type), is_pint(value))")],
       ensures=[("C05-canonical-scalar-form", "same(result, JSONS(proto_type, value))")],
       top=["C05-canonical-scalar-form"], props=["C05", "C04"]),
    FN("betterproto._scalar_from_json", types={"proto_type": "str", "value": "obj"}, returns="obj",
       requires=[SCALAR_KIND],
       raises=[("ValueError", "only_if", "not JSONP_DEFINED(proto_type, value) or IS_FLOAT_KIND(proto_type)"),
               ("TypeError", "only_if", "not JSONP_DEFINED(proto_type, value) or IS_FLOAT_KIND(proto_type)")],
       ensures=[("C04-inverse-of-the-canonical-form", "implies(JSONP_DEFINED(proto_type, value), same(result, JSONP(proto_type, value)))")],
       top=["C04-inverse-of-the-canonical-form"], props=["C04", "C05"]),
    FN("betterproto._map_key_from_json", types={"proto_type": "str", "key": "obj"}, returns="obj",
       requires=[("key-kind", "proto_type == 'string' or proto_type == 'bool' or IS_INTKEY_KIND(proto_type)")],
       raises=[("ValueError", "iff", "is_str(key) and proto_type != 'string' and proto_type != 'bool' and not ISNUMERAL(as_str(key))")],
       ensures=[("C04-json-object-key-back-to-key-type", "implies(is_str(key), same(result, KEYP(proto_type, as_str(key))))"),
                ("python-keys-pass-through", "implies(not is_str(key), same(result, key))")],
       top=["C04-json-object-key-back-to-key-type"], props=["C04", "C05"]),
]


def _vals():
    return {
        "int32": [0, -1, 2**31 - 1], "uint32": [0, 2**32 - 1], "sint32": [-5], "fixed32": [7], "sfixed32": [-7],
        "int64": [0, -1, 2**63 - 1, -2**63, 2**53 + 1], "uint64": [0, 2**64 - 1], "sint64": [-2**63], "fixed64": [2**64 - 1], "sfixed64": [-2**63, 5],
        "bool": [True, False], "string": ["", "x", "Infinity"], "bytes": [b"", b"\x00\xff", b"abc"],
        "float": [0.0, 1.5, float("inf"), float("-inf"), float("nan")], "double": [1e308, -0.0, float("inf"), float("nan")],
    }


def _to_samples(rnd, n):
    return [{"proto_type": t, "value": v} for t, vs in _vals().items() for v in vs]


def _from_samples(rnd, n):
    import base64
    out = []
    for t, vs in _vals().items():
        for v in vs:
            if t in ("int64", "uint64", "sint64", "fixed64", "sfixed64"):
                out += [{"proto_type": t, "value": str(v)}, {"proto_type": t, "value": v}]
            elif t == "bytes":
                out.append({"proto_type": t, "value": base64.b64encode(v).decode()})
            elif t in ("float", "double"):
                out.append({"proto_type": t, "value": {float("inf"): "Infinity", float("-inf"): "-Infinity"}.get(v, "NaN" if v != v else v)})
            else:
                out.append({"proto_type": t, "value": v})
    out += [{"proto_type": "int64", "value": "12x"}, {"proto_type": "bytes", "value": "!!!"}, {"proto_type": "double", "value": "abc"}]
    return out


def _key_samples(rnd, n):
    out = []
    for t in ("int32", "int64", "uint32", "uint64", "sint32", "sint64", "fixed32", "fixed64", "sfixed32", "sfixed64"):
        out += [{"proto_type": t, "key": k} for k in ("0", "-1", "-5", "12", str(2**63 - 1), str(-2**63), 5, -5, "x", "")]
    out += [{"proto_type": "bool", "key": k} for k in ("true", "false", True, False)]
    out += [{"proto_type": "string", "key": k} for k in ("", "a", "-5", "true")]
    return out


SAMPLES = {
    "betterproto._scalar_to_json": _to_samples,
    "betterproto._scalar_from_json": _from_samples,
    "betterproto._map_key_from_json": _key_samples,
    "betterproto._dump_float": lambda rnd, n: [{"value": v} for v in (0.0, 1.5, float("inf"), float("-inf"), float("nan"), 5, "x")],
    "betterproto._parse_float": lambda rnd, n: [{"value": v} for v in ("Infinity", "-Infinity", "NaN", 1.5, 3, "2.5", "abc")],
}
