import sys, time, importlib
sys.path.insert(0, '/verif')
from pyvc.exec import Engine
from pyvc.speclib import SpecLib
from pyvc.solve import solve_all

def main():
    area = sys.argv[1]
    only = sys.argv[2:] 
    mod = importlib.import_module(f"contracts.{area}")
    spec = SpecLib(getattr(mod, "SPEC_MODULES", ("wire",)))
    eng = Engine(mod.CONTRACTS + getattr(mod, "EXTRA_CONTRACTS", []), spec)
    spec.plugins += getattr(mod, "PLUGINS", [])
    eng.lemmas = {L.name: L for L in getattr(mod, "LEMMAS", [])}
    obls = []
    t0 = time.time()
    for L in getattr(mod, "LEMMAS", []):
        if only and L.name not in only: continue
        ex = eng.verify_lemma(L)
        print("LEMMA", L.name, len(ex.obls), ex.unsupported)
        obls += ex.obls
    for c in mod.CONTRACTS:
        if only and c.qualname.split('.')[-1] not in only: continue
        ex = eng.verify_function(c.qualname)
        print("FN", c.qualname, "obls", len(ex.obls), "paths", ex.paths, "dead", ex.dead_paths, "unsupported", ex.unsupported, "req_sat", getattr(ex,'requires_sat',None))
        obls += ex.obls
    print("gen time", round(time.time()-t0,2))
    t0 = time.time()
    res = solve_all(obls, timeout_s=int(__import__('os').environ.get('T','30')))
    bad = 0
    groups = {}
    for o, r in zip(obls, res):
        if o.kind == "vacuity":
            groups.setdefault(o.name, []).append(r["result"])
    for g, rs in groups.items():
        if all(x == "unsat" for x in rs):
            print("VACUOUS", g, rs)
    for o, r in zip(obls, res):
        if o.kind == "vacuity":
            continue
        if r["result"] != "unsat":
            bad += 1
            print(r["result"].upper(), o.name, r["time_s"], r["model"], r["reason"])
    print("obligations", len(obls), "not-unsat", bad, "solve wall", round(time.time()-t0,2), "max", max([r['time_s'] for r in res] or [0]))

main()
