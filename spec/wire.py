"""Spec functions for the protobuf wire format (the oracle).

Transcribed from the protobuf encoding specification / the property statements, NOT from the code.
Pure recursive subset: translated to z3 define-fun-rec by pyvc.speclib and run natively for replay,
bounded stand-ins and the spec-vs-reference differential.
"""


def B(x):
    """single byte (native reading; symbolic reading is seq.unit)"""
    return bytes([x])


def U64(x: int) -> int:
    """two's-complement reinterpretation of an integer as an unsigned 64-bit value"""
    return x % 18446744073709551616


def VARINT(v: int) -> bytes:
    """canonical base-128 varint of a non-negative integer"""
    if v < 128:
        return B(v)
    return B(128 + v % 128) + VARINT(v // 128)


def NB(v: int) -> int:
    """number of bytes of the canonical varint of v >= 0"""
    if v < 128:
        return 1
    return 1 + NB(v // 128)


def VDEC(bs: bytes) -> int:
    """value denoted by a varint byte string: sum of the low 7 bits of byte i times 128**i"""
    if len(bs) == 0:
        return 0
    return bs[0] % 128 + 128 * VDEC(bs[1:])


def CONT(bs: bytes) -> bool:
    """every byte has the continuation bit set"""
    if len(bs) == 0:
        return True
    return bs[0] >= 128 and CONT(bs[1:])


def VWF(bs: bytes) -> bool:
    """bs is one complete (not necessarily minimal) varint of at most 10 bytes"""
    return 1 <= len(bs) <= 10 and CONT(bs[:len(bs) - 1]) and bs[len(bs) - 1] < 128


def ZZ(v: int) -> int:
    """zig-zag map of a signed integer"""
    if v >= 0:
        return 2 * v
    return -2 * v - 1


def UNZZ(u: int) -> int:
    if u % 2 == 0:
        return u // 2
    return -((u + 1) // 2)


def SX(u: int, n: int) -> int:
    """sign extension of the low n bits of u (n in {32, 64})"""
    m = u % (1 << n)
    if m >= (1 << (n - 1)):
        return m - (1 << n)
    return m


# ---------------------------------------------------------------------------------------------------
# single values: payload encoding ENCP and record framing RECS
# ---------------------------------------------------------------------------------------------------
from spec.pyobj import (uninterpreted, is_none, is_bool, is_int, as_int, is_float, is_str, as_str,  # noqa: E402
                        is_bytes, as_bytes, is_msg, is_dt, dt_us, is_td, td_us, is_list, is_dict, is_enum,
                        is_placeholder)


def IS_VARINT_KIND(t: str) -> bool:
    return t == "enum" or t == "bool" or t == "int32" or t == "int64" or t == "uint32" or t == "uint64" or t == "sint32" or t == "sint64"


def IS_FIXED32(t: str) -> bool:
    return t == "float" or t == "fixed32" or t == "sfixed32"


def IS_FIXED64(t: str) -> bool:
    return t == "double" or t == "fixed64" or t == "sfixed64"


def IS_LEN_KIND(t: str) -> bool:
    return t == "string" or t == "bytes" or t == "message" or t == "map"


def KNOWN_KIND(t: str) -> bool:
    return IS_VARINT_KIND(t) or IS_FIXED32(t) or IS_FIXED64(t) or IS_LEN_KIND(t)


def WT(t: str) -> int:
    """wire type of a proto type (protobuf encoding spec)"""
    if IS_VARINT_KIND(t):
        return 0
    if IS_FIXED64(t):
        return 1
    if IS_FIXED32(t):
        return 5
    return 2


def FMT(t: str) -> str:
    """little-endian struct format of the fixed-width kinds (protobuf encoding spec)"""
    if t == "double":
        return "<d"
    if t == "float":
        return "<f"
    if t == "fixed32":
        return "<I"
    if t == "fixed64":
        return "<Q"
    if t == "sfixed32":
        return "<i"
    return "<q"


@uninterpreted
def PACKF(fmt: str, v: object) -> bytes:
    """struct.pack(fmt, v) (A-STRUCT)"""
    import struct
    return struct.pack(fmt, v)


@uninterpreted
def UTF8(s: str) -> bytes:
    """s.encode('utf-8') (A-UTF8)"""
    return s.encode("utf-8")


@uninterpreted
def MSGWIRE(v: object) -> bytes:
    """the wire encoding of a nested message value = the same property at smaller nesting depth
    (induction hypothesis); native reading: bytes(v)"""
    return bytes(v)


@uninterpreted
def TSWIRE(us: int) -> bytes:
    """wire encoding of the Timestamp message denoting `us` microseconds since the epoch
    (contract of _Timestamp.from_datetime + Message.__bytes__, proved in the time area)"""
    import betterproto
    import datetime
    return bytes(betterproto._Timestamp.from_datetime(
        datetime.datetime(1970, 1, 1, tzinfo=datetime.timezone.utc) + datetime.timedelta(microseconds=us)))


@uninterpreted
def DURWIRE(us: int) -> bytes:
    import betterproto
    import datetime
    return bytes(betterproto._Duration.from_timedelta(datetime.timedelta(microseconds=us)))


@uninterpreted
def WRAPWIRE(w: str, v: object) -> bytes:
    """wire encoding of the google.protobuf wrapper message of kind w holding v"""
    import betterproto
    return bytes(betterproto._get_wrapper(w)(value=v))


def TYV(t: str, w: str, v: object) -> bool:
    """in-range value of a single (non-repeated) item of proto type t  (DESIGN Appendix C.1)"""
    if t == "bool":
        return is_bool(v)
    if t == "int32" or t == "sint32" or t == "enum" or t == "sfixed32":
        return is_int(v) and -2147483648 <= as_int(v) <= 2147483647
    if t == "int64" or t == "sint64" or t == "sfixed64":
        return is_int(v) and -9223372036854775808 <= as_int(v) <= 9223372036854775807
    if t == "uint32" or t == "fixed32":
        return is_int(v) and 0 <= as_int(v) <= 4294967295
    if t == "uint64" or t == "fixed64":
        return is_int(v) and 0 <= as_int(v) <= 18446744073709551615
    if t == "float" or t == "double":
        return is_float(v)
    if t == "string":
        return is_str(v)
    if t == "bytes" or t == "map":
        return is_bytes(v)
    if t == "message":
        if w != "":
            return is_none(v) or is_bool(v) or is_int(v) or is_float(v) or is_str(v) or is_bytes(v)
        return is_msg(v) or is_dt(v) or is_td(v)
    return False


def ENCP(t: str, w: str, v: object) -> bytes:
    """payload bytes of one value of proto type t (protobuf encoding spec)"""
    if t == "sint32" or t == "sint64":
        return VARINT(ZZ(as_int(v)))
    if IS_VARINT_KIND(t):
        return VARINT(U64(as_int(v)))
    if IS_FIXED32(t) or IS_FIXED64(t):
        return PACKF(FMT(t), v)
    if t == "string":
        return UTF8(as_str(v))
    if t == "message":
        if is_dt(v):
            return TSWIRE(dt_us(v))
        if is_td(v):
            return DURWIRE(td_us(v))
        if w != "":
            if is_none(v):
                return b""
            return WRAPWIRE(w, v)
        return MSGWIRE(v)
    return as_bytes(v)


def TAGV(n: int, wt: int) -> bytes:
    """field key: varint of (field_number << 3) | wire_type"""
    return VARINT(n * 8 + wt)


def RECS(n: int, t: str, p: bytes, se: bool, w: str) -> bytes:
    """the record of field n with payload p; an empty length-delimited payload is written only when
    presence demands it (se) or the field is a wrapper"""
    if WT(t) == 2:
        if len(p) > 0 or se or w != "":
            return TAGV(n, 2) + VARINT(len(p)) + p
        return b""
    return TAGV(n, WT(t)) + p


# ---------------------------------------------------------------------------------------------------
# record framing on the decode side
# ---------------------------------------------------------------------------------------------------
def VLEN(bs: bytes) -> int:
    """length of the varint that starts bs (position of the first byte without continuation bit, + 1);
    len(bs) + 1 if there is none"""
    if len(bs) == 0:
        return 1
    if bs[0] < 128:
        return 1
    return 1 + VLEN(bs[1:])
