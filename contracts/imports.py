"""Contracts for the cross-package reference builders (C13): for every package-shape (lengths and common prefix up
to depth 3, enumerated) and symbolic package / type names, the import line added, interpreted with Python's
relative-import rule from the current package, is the target module (or the class itself for the root-ancestor
form), the returned forward reference uses exactly the alias that line binds, and the alias is an identifier."""
from pyvc.contracts import FN, LOOP, LEMMA
from pyvc.models_imports import ImportsPlugin
from pyvc.models_names import NamesPlugin
from contracts import names as _n

DEPENDS = ["names"]
SPEC_MODULES = ("wire", "names")
PLUGINS = [ImportsPlugin(), NamesPlugin()]
LEMMAS = []
M = "betterproto.compile.importing."
MAXD = 3


def _atoms(prefix, n):
    return [f"{prefix}{i}" for i in range(n)]


def _shape(n_cur, n_tgt, shared):
    """current = s0..s{shared-1} c..., target = s0..s{shared-1} t...; first differing components distinct"""
    sh = _atoms("s", shared)
    cur = sh + _atoms("c", n_cur - shared)
    tgt = sh + _atoms("t", n_tgt - shared)
    distinct = [("c0", "t0")] if n_cur > shared and n_tgt > shared else []
    return {"current_package": cur, "py_package": tgt, "distinct": distinct}


DESC = [(f"cur{n}-desc{m}", _shape(n, m, n)) for n in range(0, MAXD + 1) for m in range(n + 1, MAXD + 2)]
ANC = [(f"cur{n}-anc{m}", _shape(n, m, m)) for n in range(1, MAXD + 2) for m in range(0, n)]
COUSIN = [(f"cur{n}-tgt{m}-shared{s}", _shape(n, m, s)) for n in range(1, MAXD + 1) for m in range(1, MAXD + 1)
          for s in range(0, min(n, m))]
ABS = [(f"abs{m}", {"py_package": _atoms("t", m)}) for m in range(1, MAXD + 2)]

T = {"current_package": "model:strlist", "imports": "model:strset", "py_package": "model:strlist", "py_type": "model:typename"}
POST = [("C13-one-import-added", "ADDED_COUNT(imports) == 1"),
        ("C13-import-resolves-to-the-target-package", "LINE_RESOLVES_TO_MODULE(ADDED_LINE(imports), current_package, py_package)"),
        ("C13-reference-uses-the-bound-alias", "REF_IS_ALIAS_DOT_TYPE(result, ADDED_LINE(imports), py_type)"),
        ("C13-alias-is-an-identifier", "ALIAS_IS_IDENTIFIER(ADDED_LINE(imports))")]

CONTRACTS = _n.CONTRACTS + [
    FN(M + "reference_sibling", inline_at_calls=True, types={"py_type": "model:typename"}, returns="str",
       ensures=[("C13-same-package-reference", "REF_IS_QUOTED_TYPE(result, py_type)")], top=["C13-same-package-reference"], props=["C13"]),
    FN(M + "reference_descendent", inline_at_calls=True, types=T, returns="str", variants=DESC, ensures=POST, top=[p[0] for p in POST], props=["C13"]),
    FN(M + "reference_cousin", inline_at_calls=True, types=T, returns="str", variants=COUSIN, ensures=POST, top=[p[0] for p in POST], props=["C13"]),
    FN(M + "reference_ancestor", inline_at_calls=True, types=T, returns="str", variants=ANC,
       ensures=[("C13-one-import-added", "ADDED_COUNT(imports) == 1"),
                ("C13-import-resolves-to-the-target", "LINE_RESOLVES_TO_MODULE(ADDED_LINE(imports), current_package, py_package)"
                                                      " if len(py_package) > 0 else LINE_RESOLVES_TO_CLASS(ADDED_LINE(imports), current_package, py_package, py_type)"),
                ("C13-reference-uses-the-bound-alias", "REF_IS_ALIAS_DOT_TYPE(result, ADDED_LINE(imports), py_type)"
                                                       " if len(py_package) > 0 else REF_IS_ALIAS(result, ADDED_LINE(imports), py_type)"),
                ("C13-alias-is-an-identifier", "ALIAS_IS_IDENTIFIER(ADDED_LINE(imports))")],
       top=["C13-import-resolves-to-the-target", "C13-reference-uses-the-bound-alias"], props=["C13"]),
    FN(M + "reference_absolute", inline_at_calls=True, types={"imports": "model:strset", "py_package": "model:strlist", "py_type": "model:typename"},
       returns="str", variants=ABS,
       ensures=[("C13-one-import-added", "ADDED_COUNT(imports) == 1"),
                ("C13-import-names-the-absolute-module", "LINE_RESOLVES_TO_MODULE(ADDED_LINE(imports), py_package, py_package)"),
                ("C13-reference-uses-the-bound-alias", "REF_IS_ALIAS_DOT_TYPE(result, ADDED_LINE(imports), py_type)"),
                ("C13-alias-is-an-identifier", "ALIAS_IS_IDENTIFIER(ADDED_LINE(imports))")],
       top=["C13-import-names-the-absolute-module", "C13-reference-uses-the-bound-alias"], props=["C13"]),
]
