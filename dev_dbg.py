import sys; sys.path.insert(0,'/verif')
import z3, importlib
from pyvc.exec import Engine, FnExec
from pyvc.speclib import SpecLib
area, fn, oname = sys.argv[1], sys.argv[2], sys.argv[3]
mod = importlib.import_module(f"contracts.{area}")
spec = SpecLib(getattr(mod,"SPEC_MODULES",("wire",))); spec.plugins += getattr(mod,"PLUGINS",[])
eng = Engine(mod.CONTRACTS + getattr(mod,"EXTRA_CONTRACTS",[]), spec); eng.lemmas={L.name:L for L in mod.LEMMAS}
ex = eng.verify_function(fn)
for o in ex.obls:
    if oname in o.name:
        s = z3.Solver(); s.set("timeout", 20000)
        for c in o.pc: s.add(c)
        s.add(z3.Not(o.goal))
        r = s.check()
        print("==", o.name, r)
        if r == z3.sat:
            m = s.model()
            for c in o.pc:
                print("  PC:", str(c)[:300].replace("\n"," "))
            print("  GOAL:", str(o.goal)[:600].replace("\n"," "))
            print("  MODEL:", {str(d): str(m[d])[:80] for d in m.decls() if d.arity()==0})
            break
