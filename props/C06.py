"""C06 — proto3 defaults and field presence."""
AREAS = ["varint", "single", "msg", "msgload", "msgattr"]
LEVEL = "other"
EXPLANATION = (
    "dump is proved to emit EMITC per readable field; lemma C06_EMISSION_FOLLOWS_PRESENCE proves EMITC == EMITP, the "
    "emission demanded by the presence rules of the statement (default implicit-presence values skipped; set optional / "
    "oneof / wrapper members emitted even when default; plain sub-message iff serialized_on_wire), for every field kind, "
    "except the recorded deep-assignment case (known finding). load sets serialized_on_wire. Agreement of the decoded "
    "presence with HasField/WhichOneof of the reference is bounded (stand-in).")
ASSUMED = ["AX_PAYLOAD_NONEMPTY (A-UTF8/A-STRUCT/time)", "reference presence: bounded differential only"]
from pyvc.check import standin_bounded
from pyvc.check import external_bounded
BOUNDED = [standin_bounded("C06"),
           external_bounded("deep-schema:C06", "standin.deep", ["C06", "--n", "150"], ["C06", "--n", "800"],
                            "nested schema (containers of oneof-carrying / field-less messages, two-level lazy parents, float maps, Duration JSON strings); observation-based oracle")]
