"""C04 — JSON / dict round trip."""
AREAS = ["time"]
LEVEL = "other"
EXPLANATION = (
    "Bounded: from_dict(to_dict(m)) / from_json(to_json(m)) on the stand-in corpus (all kinds, maps of every key kind, "
    "wrappers, oneofs, optionals, both casings, classmethod and instance form). Deductive part: the Timestamp / Duration "
    "converters feeding the JSON forms (time area). to_dict/_from_dict_init themselves use comprehensions, json, base64 and "
    "dateutil and are outside the proved subset.")
ASSUMED = ["to_dict / _from_dict_init are not under contract: bounded stand-in only"]
from pyvc.check import standin_bounded
BOUNDED = [standin_bounded("C04")]
