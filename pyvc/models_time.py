"""Trusted model of datetime / timedelta (A-DATETIME, A-TIMEDELTA): an aware datetime is an integer number of
microseconds since 1970-01-01T00:00:00Z (any fixed offset denotes the same instant), a timedelta an integer
number of microseconds with normalised days / seconds / microseconds."""
import ast
import z3

from .sym import SV, NONE, IntS, sv_int, sv_bool, sv_str, concrete_int
from .exec import Unsupported, Raised

US_DAY = 86400 * 10 ** 6


class TimePlugin:
    def make_model_param(self, ex, st, p, model):
        if model == "datetime":
            v = z3.Int(f"{p}.us")
            ex.inputs[f"{p}.us"] = v
            return SV("dt", v)
        if model == "timedelta":
            v = z3.Int(f"{p}.us")
            ex.inputs[f"{p}.us"] = v
            return SV("td", v)
        if model == "tsmsg":
            s, n = z3.Int(f"{p}.seconds"), z3.Int(f"{p}.nanos")
            ex.inputs[f"{p}.seconds"], ex.inputs[f"{p}.nanos"] = s, n
            return SV("rec", {"seconds": sv_int(s), "nanos": sv_int(n)}, "tsmsg")
        if model == "msgcls":
            return SV("func", ("tscls", p))
        return None

    SPEC_NAMES = {"US"}

    def spec_has(self, name):
        return name in self.SPEC_NAMES

    def spec_call(self, ex, name, pos, st):
        if name == "US":
            if pos[0].kind not in ("dt", "td"):
                raise Unsupported("US() of a non-time value")
            return sv_int(pos[0].t)
        raise Unsupported(name)

    def call_other(self, ex, tag, pos, kw, st, node):
        if tag[0] == "tscls":
            # cls(seconds, nanos): the generated dataclass constructor of Timestamp / Duration
            if len(pos) != 2 or kw:
                raise Unsupported("Timestamp/Duration constructor call shape")
            return [(st, SV("rec", {"seconds": sv_int(ex.as_int(pos[0], st)), "nanos": sv_int(ex.as_int(pos[1], st))}, "tsmsg"))]
        return None

    def call_builtin(self, ex, name, pos, kw, st, node):
        short = name.split(".")[-1]
        if short == "timedelta" and name.startswith("datetime"):
            ex.assumption("A-TIMEDELTA")
            us = z3.IntVal(0)
            for k, v in kw.items():
                mult = {"days": US_DAY, "seconds": 10 ** 6, "microseconds": 1, "milliseconds": 1000,
                        "minutes": 60 * 10 ** 6, "hours": 3600 * 10 ** 6}.get(k)
                if mult is None:
                    raise Unsupported(f"timedelta({k}=...)")
                if v.kind == "ratio":
                    a, c = v.t
                    cc = concrete_int(c)
                    if k != "microseconds" or cc is None or cc <= 0:
                        raise Unsupported("float argument of timedelta")
                    # a / c as a float microsecond count: exact when divisible (|a| < 2**53), otherwise the
                    # constructor rounds half-even -> only the divisible case is modelled
                    ex.oblige(st, f"timedelta-exact-microseconds@{ex.cur_line}", z3.And(a % cc == 0, a < 2 ** 53, a > -(2 ** 53)), "model")
                    us = us + a / cc
                else:
                    us = us + ex.as_int(v, st) * mult
            if pos:
                raise Unsupported("positional timedelta arguments")
            return [(st, SV("td", us))]
        if short == "datetime" and name.startswith("datetime") and len(pos) == 3:
            ymd = tuple(concrete_int(ex.as_int(p, st)) for p in pos)
            if ymd == (1970, 1, 1) and "tzinfo" in kw:
                ex.assumption("A-DATETIME")
                return [(st, SV("dt", z3.IntVal(0)))]
            raise Unsupported("datetime constructor other than the epoch")
        if name == "abs" and pos and pos[0].kind == "td":
            return [(st, SV("td", z3.If(pos[0].t >= 0, pos[0].t, -pos[0].t)))]
        return None

    def attr_hook(self, ex, st, v, attr):
        if v.kind == "td":
            ex.assumption("A-TIMEDELTA")
            if attr == "days":
                return [(st, sv_int(v.t / US_DAY))]
            if attr == "seconds":
                return [(st, sv_int((v.t % US_DAY) / 10 ** 6))]
            if attr == "microseconds":
                return [(st, sv_int(v.t % 10 ** 6))]
        if v.kind == "func" and v.t[0] == "builtin" and v.t[1].endswith("timezone"):
            return [(st, SV("const", "utc"))]
        return None

    def binop_hook(self, ex, op, a, b, st):
        if a.kind == "dt" and b.kind == "dt" and isinstance(op, ast.Sub):
            ex.assumption("A-DATETIME")
            return SV("td", a.t - b.t)
        if a.kind == "dt" and b.kind == "td" and isinstance(op, (ast.Add, ast.Sub)):
            ex.assumption("A-DATETIME")
            return SV("dt", a.t + b.t if isinstance(op, ast.Add) else a.t - b.t)
        if a.kind == "td" and b.kind == "dt" and isinstance(op, ast.Add):
            return SV("dt", a.t + b.t)
        if a.kind == "td" and b.kind == "td":
            ex.assumption("A-TIMEDELTA")
            if isinstance(op, ast.FloorDiv):
                return sv_int(ex.floordiv(a.t, b.t, st))
            if isinstance(op, ast.Add):
                return SV("td", a.t + b.t)
            if isinstance(op, ast.Sub):
                return SV("td", a.t - b.t)
        if isinstance(op, ast.Div) and a.kind in ("int", "bool") and b.kind == "const" and isinstance(b.t, float) and b.t == int(b.t) and b.t > 0:
            return SV("ratio", (ex.as_int(a, st), z3.IntVal(int(b.t))))
        return None


TIME_ASSUMPTIONS = {
    "A-DATETIME": "aware datetime = integer microseconds since the epoch (+ an offset that does not change the instant); dt - dt, dt + td as integer arithmetic",
    "A-TIMEDELTA": "timedelta = integer microseconds; days/seconds/microseconds are the normalised decomposition; td // td is integer floor division; timedelta(seconds=s, microseconds=u) = s*10**6 + u for integers",
}
