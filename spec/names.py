"""Native reading of the name predicates (symbolic reading: pyvc.models_names)."""
import keyword
import re

_IDENT = re.compile(r"[A-Za-z_][A-Za-z0-9_]*\Z")
_CHARS = re.compile(r"[A-Za-z0-9_]*\Z")
_LOWER = re.compile(r"[a-z0-9_]*\Z")


def ISIDENT(s):
    return bool(_IDENT.match(s))


def ISKW(s):
    return keyword.iskeyword(s)


def INCHARS(s):
    return bool(_CHARS.match(s))


def INLOWER(s):
    return bool(_LOWER.match(s))


_DOTTED = re.compile(r"[A-Za-z0-9_.]*\Z")


def INDOTTED(s):
    return bool(_DOTTED.match(s))
