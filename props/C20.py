"""C20 — enums are open, canonical and immutable."""
AREAS = ["enum", "varint", "single", "msgload"]
LEVEL = "other"
EXPLANATION = (
    "The member loop of EnumType.__new__ is verified (region contract) for an arbitrary declaration list: every name, "
    "aliases included, maps to the ONE member created for its number, which carries the first declared name and the declared "
    "number; undeclared numbers are absent. __call__ / __getitem__ / from_string return that canonical member or raise; "
    "try_value returns it or a fresh nameless member equal to the integer (open enum); __copy__/__deepcopy__ are the "
    "identity; class- and member-level __setattr__/__delattr__ always raise. In messages: _postprocess_single decodes an "
    "enum varint as try_value(SX(u, 32)) (negative numbers). Pickling, JSON and the field positions "
    "(repeated / map / oneof / optional) are decided by the bounded stand-in.")
ASSUMED = ["A-OBJ-CLASS (type()/type.__new__/int.__new__): the statements of EnumType.__new__ before the member loop are not verified",
           "pickle protocol and JSON paths: bounded stand-in"]
from pyvc.check import standin_bounded
from pyvc.check import external_bounded
BOUNDED = [standin_bounded("C20"),
           external_bounded("deep-schema:C20", "standin.deep", ["C20", "--n", "150"], ["C20", "--n", "800"],
                            "twin classes with different enums at the same field numbers, both first-use orders: decoded values belong to the field's own enum")]
