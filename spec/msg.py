"""Spec functions at the message level: what one field contributes to the encoding.

EMITC / ISDEF / PACKED / ITEMS / ENTRIES take the facts about a field and its value as explicit arguments so
that they are pure functions (translated to z3, and run natively for replay / bounded stand-ins).
The per-message concatenation WIRE = EMITC(f1) ++ ... ++ EMITC(fk) ++ unknown is built in pyvc.models_msg
(it ranges over the symbolic field table)."""
from spec.pyobj import (uninterpreted, is_none, is_bool, is_int, as_int, is_float, is_str, as_str, is_bytes,  # noqa
                        as_bytes, is_msg, is_dt, dt_us, is_td, td_us, is_list, is_dict, is_enum, is_placeholder,
                        float_is_zero, msg_is_default)
from spec.wire import (RECS, ENCP, TYV, KNOWN_KIND, IS_VARINT_KIND, IS_FIXED32, IS_FIXED64)  # noqa


def IS_PACKED_KIND(t: str) -> bool:
    """repeated fields of these kinds are encoded packed (one length-delimited record)"""
    return IS_VARINT_KIND(t) or IS_FIXED32(t) or IS_FIXED64(t)


def ISDEF(dk: str, v: object, n: int) -> bool:
    """v equals the proto3 default of a field whose default kind is dk (n = number of items if v is a container)"""
    if dk == "list":
        return is_list(v) and n == 0
    if dk == "dict":
        return is_dict(v) and n == 0
    if dk == "none":
        return is_none(v)
    if dk == "message":
        return is_msg(v) and msg_is_default(v)
    if dk == "datetime":
        return is_dt(v) and dt_us(v) == 0
    if dk == "timedelta":
        return is_td(v) and td_us(v) == 0
    if dk == "float":
        return is_float(v) and float_is_zero(v)
    if dk == "str":
        return is_str(v) and as_str(v) == ""
    if dk == "bytes":
        return is_bytes(v) and len(as_bytes(v)) == 0
    return is_int(v) and as_int(v) == 0


def PACKED(t: str, xs: "objseq", k: int) -> bytes:
    """concatenated payloads of the first k items (packed repeated scalars)"""
    if k <= 0:
        return b""
    return PACKED(t, xs, k - 1) + ENCP(t, "", xs[k - 1])


def ITEM1(n: int, t: str, w: str, x: object) -> bytes:
    """one element of an unpacked repeated field: always one record, also when its payload is empty"""
    r = RECS(n, t, ENCP(t, w, x), True, w)
    if len(r) > 0:
        return r
    return b"\n\x00"


def ITEMS(n: int, t: str, w: str, xs: "objseq", k: int) -> bytes:
    if k <= 0:
        return b""
    return ITEMS(n, t, w, xs, k - 1) + ITEM1(n, t, w, xs[k - 1])


def ENTRY1(n: int, mk: str, mv: str, key: object, val: object) -> bytes:
    """one map entry: a length-delimited record holding key (field 1) and value (field 2)"""
    return RECS(n, "map", RECS(1, mk, ENCP(mk, "", key), False, "") + RECS(2, mv, ENCP(mv, "", val), False, ""), True, "")


def ENTRIES(n: int, mk: str, mv: str, ks: "objseq", vs: "objseq", k: int) -> bytes:
    if k <= 0:
        return b""
    return ENTRIES(n, mk, mv, ks, vs, k - 1) + ENTRY1(n, mk, mv, ks[k - 1], vs[k - 1])


def ALLTY(t: str, w: str, xs: "objseq", k: int) -> bool:
    """the first k items are in-range values of proto type t"""
    if k <= 0:
        return True
    return ALLTY(t, w, xs, k - 1) and TYV(t, w, xs[k - 1]) and not is_none(xs[k - 1])


def TYFIELD(t: str, w: str, opt: bool, dk: str, v: object, cn: int, xs: "objseq", ks: "objseq", vs: "objseq", mk: str, mv: str) -> bool:
    """the (effective) value v of a field is in range for its declaration (DESIGN App. C.1)"""
    if dk == "list":
        return is_list(v) and len(xs) == cn and ALLTY(t, w, xs, cn) and t != "map"
    if dk == "dict":
        return is_dict(v) and len(ks) == cn and len(vs) == cn and ALLTY(mk, "", ks, cn) and ALLTY(mv, "", vs, cn) and t == "map"
    if is_none(v):
        return opt or dk == "none"
    return TYV(t, w, v) and not is_list(v) and not is_dict(v) and t != "map"


def EMITC(n: int, t: str, w: str, g: bool, opt: bool, dk: str, sel: bool, v: object, vsow: bool, cn: int,
          xs: "objseq", ks: "objseq", vs: "objseq", mk: str, mv: str) -> bytes:
    """bytes contributed by one readable field (g: member of a oneof group, sel: it is the selected member,
    vsow: v is a message that reports serialized_on_wire, cn/xs/ks/vs: container contents)"""
    if is_none(v):
        return b""
    if ISDEF(dk, v, cn) and not (g or opt or (is_msg(v) and vsow) or sel):
        return b""
    if is_list(v):
        if IS_PACKED_KIND(t):
            return RECS(n, "bytes", PACKED(t, xs, cn), False, "")
        return ITEMS(n, t, w, xs, cn)
    if is_dict(v):
        return ENTRIES(n, mk, mv, ks, vs, cn)
    return RECS(n, t, ENCP(t, w, v), (is_msg(v) and vsow) or (is_str(v) and as_str(v) == "" and sel) or g or opt, w)


# ---------------------------------------------------------------------------------------------------
# property-level presence (C06), transcribed from the statement / DESIGN App. C.3 -- NOT from the code
# ---------------------------------------------------------------------------------------------------
def PRESENT(g: bool, opt: bool, dk: str, sel: bool, v: object, vsow: bool, cn: int) -> bool:
    """the field is present: oneof member -> selected; proto3 optional / wrapper -> not None; plain sub-message ->
    serialized_on_wire; repeated / map -> non-empty; implicit-presence scalar -> not the default value"""
    if is_none(v):
        return False
    if g:
        return sel
    if opt:
        return True
    if dk == "none":
        return True
    if dk == "message":
        return vsow
    if dk == "list" or dk == "dict":
        return cn > 0
    return not ISDEF(dk, v, cn)


def EMITP(n: int, t: str, w: str, g: bool, opt: bool, dk: str, sel: bool, v: object, vsow: bool, cn: int,
          xs: "objseq", ks: "objseq", vs: "objseq", mk: str, mv: str) -> bytes:
    """what the protobuf encoding rules emit for a field: nothing if absent, else its record(s)"""
    if not PRESENT(g, opt, dk, sel, v, vsow, cn):
        return b""
    if is_list(v):
        if IS_PACKED_KIND(t):
            return RECS(n, "bytes", PACKED(t, xs, cn), False, "")
        return ITEMS(n, t, w, xs, cn)
    if is_dict(v):
        return ENTRIES(n, mk, mv, ks, vs, cn)
    return RECS(n, t, ENCP(t, w, v), True, w)
