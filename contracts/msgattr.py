"""Contracts for the attribute protocol of Message (C07 oneof bookkeeping, C14 purity of reads, C06 presence flag):
__post_init__, __getattribute__, __setattr__, is_set, which_one_of, serialized_on_wire.

These are the functions that the other message-level proofs use as MODELS (C-GETATTR, C-SETATTR); here the real
bodies are verified against exactly those model contracts, at the level of the raw instance dictionary."""
from pyvc.contracts import FN, LOOP, LEMMA
from contracts import msg as _m

DEPENDS = ["varint", "single", "msg"]
SPEC_MODULES = ("wire", "msg", "decode")
PLUGINS = _m.PLUGINS
LEMMAS = _m.LEMMAS

RAW = {"self": "model:rawmsg"}
I = "FNAME_IDX(attr)"
G = f"F_group({I})"
N = "FNAME_IDX(name)"

def SEL(sel, k):
    """the recorded selection of every group among the first k fields is the LAST member holding a non-sentinel value
    (None if there is none); every group with a member among them has an entry"""
    return (f"forall(0, NF, lambda jq: implies(INGROUP(jq), "
            f"({sel} == -2 or {sel} == -1 or (0 <= {sel} < {k} and F_group({sel}) == F_group(jq) and ISSETV({sel})))"
            f" and implies(jq < {k}, {sel} != -2 and implies(ISSETV(jq), {sel} >= jq))"
            f" and implies({sel} == -2, forall(0, {k}, lambda hq: F_group(hq) != F_group(jq)))))")


CONTRACTS = [
    FN("betterproto.Message.__post_init__", types=RAW, returns="none", modifies=["self"],
       requires=[("well-formed-class", "WF()")],
       ensures=[("C06-fresh-message-is-not-on-the-wire", "SOWF() == (not ALLSENT(NF))"),
                ("C08-no-unknown-fields", "UNKF() == b''"),
                ("initialised", "INITIALISED()"),
                ("C07-selection-from-constructor-arguments", SEL("GCV(F_group(jq))", "NF")),
                ("values-untouched", "RAWARR() == old(RAWARR())")],
       top=["C06-fresh-message-is-not-on-the-wire", "C07-selection-from-constructor-arguments"],
       loops={0: LOOP(index="fi", inv=[
           ("sentinels", "all_sentinel == ALLSENT(fi)"),
           ("selection", SEL("SELECT(group_current, F_group(jq))", "fi")),
           ("frame", "RAWARR() == old(RAWARR())")])},
       inst_terms=["fi", "fi - 1"],
       props=["C06", "C07"]),
    FN("betterproto.Message.__getattribute__", types={**RAW, "name": "model:fname"}, returns="obj", modifies=["self"],
       requires=[("well-formed-class", "WF() and NAMES_WF()"), ("after-__post_init__", "INITIALISED()"),
                 ("field-name", f"0 <= {N} < NF")],
       ensures=[("C06-unset-field-reads-as-default", f"same(result, old(VAL({N})))"),
                ("materialised-in-place", f"same(RAWV({N}), old(VAL({N})))"
                                          f" and forall(0, NF, lambda jq: implies(jq != {N}, same(RAWV(jq), old(RAWV(jq)))))"),
                ("C14-read-leaves-presence-and-selection-alone", "GCARR() == old(GCARR()) and SOWF() == old(SOWF()) and UNKF() == old(UNKF())")],
       raises=[("AttributeError", "iff", f"INGROUP({N}) and GCV(F_group({N})) != {N}")],
       on_raise=[("AttributeError", "RAWARR() == old(RAWARR()) and GCARR() == old(GCARR()) and SOWF() == old(SOWF()) and UNKF() == old(UNKF())")],
       top=["C06-unset-field-reads-as-default", "C14-read-leaves-presence-and-selection-alone"],
       inst_terms=[N],
       props=["C07", "C14", "C06", "C09"]),
    FN("betterproto.Message.__setattr__", types={**RAW, "attr": "model:fname", "value": "obj"}, returns="none", modifies=["self"],
       requires=[("well-formed-class", "WF() and NAMES_WF() and GROUPS_WF()"), ("after-__post_init__", "INITIALISED()"),
                 ("field-name", f"0 <= {I} < NF")],
       ensures=[("stored", f"same(RAWV({I}), value)"),
                ("C06-assignment-marks-presence", "SOWF()"),
                ("C07-assigned-member-is-selected", f"implies(INGROUP({I}), GCV({G}) == {I})"),
                ("C07-siblings-are-reset", f"forall(0, NF, lambda jq: implies(INGROUP({I}) and jq != {I} and F_group(jq) == {G}, is_placeholder(RAWV(jq))))"),
                ("other-fields-untouched", f"forall(0, NF, lambda jq: implies(jq != {I} and not (INGROUP({I}) and F_group(jq) == {G}), same(RAWV(jq), old(RAWV(jq)))))"),
                ("other-groups-untouched", f"forall(0, NF, lambda jq: implies(INGROUP(jq) and F_group(jq) != {G}, GCV(F_group(jq)) == SELECT(old(GCARR()), F_group(jq))))"
                                           f" and implies(not INGROUP({I}), GCARR() == old(GCARR()))"),
                ("unknown-fields-untouched", "UNKF() == old(UNKF())")],
       top=["C07-assigned-member-is-selected", "C07-siblings-are-reset"],
       loops={0: LOOP(index="gk", inv=[
           ("processed-members", f"forall(0, gk, lambda q: (GCV({G}) == {I}) if MEMBER({G}, q) == {I} else is_placeholder(RAWV(MEMBER({G}, q))))"),
           ("other-fields-untouched", f"forall(0, NF, lambda jq: implies(F_group(jq) != {G} or jq == {I}, same(RAWV(jq), old(RAWV(jq)))))"),
           ("other-groups-untouched", f"forall(0, NF, lambda jq: implies(INGROUP(jq) and F_group(jq) != {G}, GCV(F_group(jq)) == SELECT(old(GCARR()), F_group(jq))))"),
           ("flags", "SOWF() and UNKF() == old(UNKF()) and INITIALISED()")])},
       inst_terms=[I, f"POS_OF({I})"],
       props=["C07", "C06", "C14"]),
    # ---- small observers and the state part of copy / pickle (C14) ----
    FN("betterproto.serialized_on_wire", types={"message": "model:rawmsg"}, returns="bool",
       ensures=[("C06-presence-flag", "result == SOWF_OF(message)"),
                ("C14-observer-is-pure", "RAWARR_OF(message) == old(RAWARR_OF(message)) and GCARR_OF(message) == old(GCARR_OF(message))"
                                         " and SOWF_OF(message) == old(SOWF_OF(message)) and UNKF_OF(message) == old(UNKF_OF(message))")],
       top=["C14-observer-is-pure"], props=["C14", "C06"]),
    FN("betterproto.which_one_of", types={"message": "model:msg", "group_name": "str"}, returns="any", modifies=["message"],
       requires=[("well-formed-class", "WF_OF(message) and NAMES_WF_OF(message)"), ("a-group-of-the-class", "group_name != ''"),
                 ("selection-well-formed", "GCV_OF(message, group_name) == -2 or GCV_OF(message, group_name) == -1 or "
                                           "(0 <= GCV_OF(message, group_name) < NF and F_group(GCV_OF(message, group_name)) == group_name)")],
       ensures=[("C07-reports-the-recorded-selection",
                 "(FNAME_IDX(result[0]) == old(GCV_OF(message, group_name)) and same(result[1], old(VAL_OF(message, GCV_OF(message, group_name)))))"
                 " if old(GCV_OF(message, group_name)) >= 0 else (result[0] == '' and is_none(result[1]))"),
                ("C14-observer-leaves-presence-and-selection-alone",
                 "GCARR_OF(message) == old(GCARR_OF(message)) and SOWF_OF(message) == old(SOWF_OF(message)) and UNKF_OF(message) == old(UNKF_OF(message))")],
       top=["C07-reports-the-recorded-selection"], props=["C07", "C14"]),
    FN("betterproto.Message.is_set", types={**RAW, "name": "model:fname"}, returns="bool",
       requires=[("well-formed-class", "WF() and NAMES_WF()"), ("after-__post_init__", "INITIALISED()"), ("field-name", f"0 <= {N} < NF")],
       ensures=[("reads-the-raw-slot", f"result == (not (is_none(RAWV({N})) if F_optional({N}) else is_placeholder(RAWV({N}))))"),
                ("C14-observer-is-pure", "RAWARR() == old(RAWARR()) and GCARR() == old(GCARR()) and SOWF() == old(SOWF()) and UNKF() == old(UNKF())")],
       top=["C14-observer-is-pure"], props=["C14", "C06"]),
    FN("betterproto.Message.__copy__", types={"self": "model:rawmsg", "_": "obj"}, returns="any",
       requires=[("well-formed-class", "WF() and NAMES_WF()"), ("after-__post_init__", "INITIALISED()")],
       ensures=[("C14-copy-has-the-same-values", "forall(0, NF, lambda jq: same(RAWV_OF(result, jq), RAWV(jq)))"),
                ("C14-copy-keeps-presence", "SOWF_OF(result) == SOWF()"),
                ("C14-copy-keeps-unknown-fields", "UNKF_OF(result) == UNKF()"),
                ("C14-copy-keeps-selection", "GCARR_OF(result) == GCARR()"),
                ("C14-original-untouched", "RAWARR() == old(RAWARR()) and GCARR() == old(GCARR()) and SOWF() == old(SOWF()) and UNKF() == old(UNKF())")],
       top=["C14-copy-has-the-same-values", "C14-copy-keeps-presence", "C14-copy-keeps-unknown-fields", "C14-copy-keeps-selection"],
       loops={0: LOOP(index="sk", inv=[
           ("copied-so-far", "forall(0, NF, lambda jq: same(RAWV_OF(new, jq), RAWV(jq)) if SORTED_RANK(jq) < sk"
                             " else is_placeholder(RAWV_OF(new, jq)))"),
           ("new-object", "INITIALISED_OF(new)"),
           ("frame", "RAWARR() == old(RAWARR()) and GCARR() == old(GCARR()) and SOWF() == old(SOWF()) and UNKF() == old(UNKF()) and INITIALISED()")])},
       props=["C14", "C07", "C08"]),
    FN("betterproto.Message.__deepcopy__", types={"self": "model:rawmsg", "_": "obj"}, returns="any",
       requires=[("well-formed-class", "WF() and NAMES_WF()"), ("after-__post_init__", "INITIALISED()")],
       ensures=[("C14-deepcopy-has-the-same-scalars-and-the-same-unset-fields",
                 "forall(0, NF, lambda jq: (same(RAWV_OF(result, jq), RAWV(jq)) if IS_SCALAR_VALUE(RAWV(jq)) else not is_placeholder(RAWV_OF(result, jq))))"),
                ("C14-copy-keeps-presence", "SOWF_OF(result) == SOWF()"),
                ("C14-copy-keeps-unknown-fields", "UNKF_OF(result) == UNKF()"),
                ("C14-copy-keeps-selection", "GCARR_OF(result) == GCARR()"),
                ("C14-original-untouched", "RAWARR() == old(RAWARR()) and GCARR() == old(GCARR()) and SOWF() == old(SOWF()) and UNKF() == old(UNKF())")],
       top=["C14-deepcopy-has-the-same-scalars-and-the-same-unset-fields", "C14-copy-keeps-presence", "C14-copy-keeps-unknown-fields", "C14-copy-keeps-selection"],
       loops={0: LOOP(index="sk", inv=[
           ("copied-so-far", "forall(0, NF, lambda jq: ((same(RAWV_OF(new, jq), RAWV(jq)) if IS_SCALAR_VALUE(RAWV(jq)) else not is_placeholder(RAWV_OF(new, jq)))"
                             " if SORTED_RANK(jq) < sk else is_placeholder(RAWV_OF(new, jq))))"),
           ("new-object", "INITIALISED_OF(new)"),
           ("frame", "RAWARR() == old(RAWARR()) and GCARR() == old(GCARR()) and SOWF() == old(SOWF()) and UNKF() == old(UNKF()) and INITIALISED()")])},
       props=["C14", "C07", "C08"]),
    FN("betterproto.Message.__copy_state", types={"self": "model:rawmsg", "new": "model:rawmsg"}, returns="any", modifies=["new"],
       inline_at_calls=True,
       requires=[("initialised", "INITIALISED() and INITIALISED_OF(new)")],
       ensures=[("C14-copy-keeps-presence", "SOWF_OF(new) == SOWF()"),
                ("C14-copy-keeps-unknown-fields", "UNKF_OF(new) == UNKF()"),
                ("C14-copy-keeps-selection", "GCARR_OF(new) == GCARR()"),
                ("values-from-the-constructor-untouched", "RAWARR_OF(new) == old(RAWARR_OF(new))"),
                ("C14-original-untouched", "RAWARR() == old(RAWARR()) and GCARR() == old(GCARR()) and SOWF() == old(SOWF()) and UNKF() == old(UNKF())")],
       top=["C14-copy-keeps-presence", "C14-copy-keeps-unknown-fields", "C14-copy-keeps-selection", "C14-original-untouched"],
       props=["C14", "C07", "C08"]),
]
EXTRA_CONTRACTS = _m.EXTRA_CONTRACTS + _m.CONTRACTS
