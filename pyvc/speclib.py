"""Spec-function library + trusted models of builtins/stdlib (assumption registry).

Spec functions live in /verif/spec/*.py, written in a pure recursive subset of Python with type
annotations, so that they (a) translate to z3 `define-fun-rec` and (b) run natively for replay,
the bounded stand-ins and the spec-vs-reference differential.
"""
import ast
import importlib.util
import os
import z3

from .sym import (SV, NONE, IntS, BoolS, BytesS, StrS, PyObj, sv_int, sv_bool, sv_bytes, sv_str,
                  sv_tuple, concrete_int, concrete_str, concrete_bool, pow2_table, from_python, to_obj)

HERE = os.path.dirname(os.path.abspath(__file__))
SPEC_DIR = os.path.join(os.path.dirname(HERE), "spec")

OBJSEQ = z3.SeqSort(PyObj)
KIND_SORT = {"int": IntS, "bool": BoolS, "bytes": BytesS, "str": StrS, "obj": PyObj, "objseq": OBJSEQ}
FLOAT_ISZERO = z3.Function("FLOAT_ISZERO", IntS, BoolS)
MSG_ISDEF = z3.Function("MSG_ISDEF", PyObj, BoolS)

EXC_NAMES = {"ValueError", "EOFError", "KeyError", "TypeError", "AttributeError", "NotImplementedError",
             "StopAsyncIteration", "StopIteration", "IndexError", "RuntimeError", "AssertionError",
             "ChannelClosed", "ChannelDone", "Exception", "OverflowError"}

ASSUMPTIONS = {
    "A-INT": "Python int is unbounded; // and % floor; >> floors; << multiplies; x & (2^k-1) == x mod 2^k",
    "A-BITLEN": "for v>0: 2^(bl-1) <= v < 2^bl where bl = v.bit_length(); math.ceil(a/c) == (a+c-1)//c for 0<=a<=2^20, small c>0",
    "A-BYTESIO": "BytesIO: read(n) returns data[pos:pos+n] and advances pos by the length obtained; write appends at the end; seek/getvalue as documented",
    "A-STRUCT": "struct.pack(fmt, v) is a total injective function of v on the format's range with the format's width (4/8 bytes); unpack is its inverse and raises struct.error on wrong length",
    "A-UTF8": "str.encode('utf-8') is total and injective on surrogate-free str; encode(s)==b'' iff s==''; str(b,'utf-8') inverts it and raises UnicodeDecodeError on invalid input",
    "A-PYVER": "sys.version_info is that of the repository's interpreter, CPython 3.12 (version-dependent branches are resolved accordingly)",
    "A-LEN": "len() of any bytes/str object is below 2**63 (CPython Py_ssize_t)",
    "A-BYTES": "every element of a bytes value is in 0..255",
    "A-TOBYTES": "(x).to_bytes(1,'little') == bytes([x]) for 0<=x<256 else OverflowError; int.from_bytes(b,'little') is the little-endian value",
}


OBJ_DSL = {
    "is_none": lambda t: sv_bool(PyObj.is_PNone(t)),
    "is_placeholder": lambda t: sv_bool(PyObj.is_PPlaceholder(t)),
    "is_bool": lambda t: sv_bool(PyObj.is_PBool(t)),
    "is_pint": lambda t: sv_bool(PyObj.is_PInt(t)),
    "is_int": lambda t: sv_bool(z3.Or(PyObj.is_PInt(t), PyObj.is_PBool(t), PyObj.is_PEnum(t))),
    "as_int": lambda t: sv_int(obj_int(t)),
    "is_float": lambda t: sv_bool(PyObj.is_PFloat(t)),
    "is_str": lambda t: sv_bool(PyObj.is_PStr(t)),
    "as_str": lambda t: sv_str(PyObj.pstr(t)),
    "is_bytes": lambda t: sv_bool(PyObj.is_PBytes(t)),
    "as_bytes": lambda t: sv_bytes(PyObj.pbytes(t)),
    "is_msg": lambda t: sv_bool(PyObj.is_PMsg(t)),
    "is_dt": lambda t: sv_bool(PyObj.is_PDatetime(t)),
    "dt_us": lambda t: sv_int(PyObj.pdt_us(t)),
    "is_td": lambda t: sv_bool(PyObj.is_PTimedelta(t)),
    "td_us": lambda t: sv_int(PyObj.ptd_us(t)),
    "is_list": lambda t: sv_bool(PyObj.is_PList(t)),
    "is_dict": lambda t: sv_bool(PyObj.is_PDict(t)),
    "is_enum": lambda t: sv_bool(PyObj.is_PEnum(t)),
    "mk_int": lambda t: SV("obj", PyObj.PInt(t)),
    "mk_bool": lambda t: SV("obj", PyObj.PBool(t)),
    "mk_bytes": lambda t: SV("obj", PyObj.PBytes(t)),
    "mk_str": lambda t: SV("obj", PyObj.PStr(t)),
    "float_is_zero": lambda t: sv_bool(FLOAT_ISZERO(PyObj.pfloat(t))),
    "is_finf": lambda t: sv_bool(z3.And(PyObj.is_PFloat(t), PyObj.pfloat(t) == 3)),
    "is_fnan": lambda t: sv_bool(z3.And(PyObj.is_PFloat(t), PyObj.pfloat(t) == 4)),
    "is_fninf": lambda t: sv_bool(z3.And(PyObj.is_PFloat(t), PyObj.pfloat(t) == 7)),
    "mk_float_id": lambda t: SV("obj", PyObj.PFloat(t)),
    "msg_is_default": lambda t: sv_bool(MSG_ISDEF(t)),
}


def obj_int(t):
    return z3.If(PyObj.is_PBool(t), z3.If(PyObj.pbool(t), z3.IntVal(1), z3.IntVal(0)),
                 z3.If(PyObj.is_PEnum(t), PyObj.penum_val(t), PyObj.pint(t)))


class SpecLib:
    def __init__(self, modules=("wire",)):
        self.src = {}        # name -> (FunctionDef, module)
        self.z3fn = {}       # name -> (RecFunction, param kinds, ret kind)
        self.native = {}     # module name -> python module
        self.plugins = []
        self.defined = set()
        for m in modules:
            self.load(m)

    # ---- loading / translation -------------------------------------------------------------
    def load(self, modname):
        path = os.path.join(SPEC_DIR, modname + ".py")
        with open(path) as f:
            tree = ast.parse(f.read(), filename=path)
        for node in tree.body:
            if isinstance(node, ast.FunctionDef) and node.returns is not None and not node.name.startswith("_"):
                self.src[node.name] = (node, modname)
        spec = importlib.util.spec_from_file_location(f"pyvc_spec_{modname}", path)
        mod = importlib.util.module_from_spec(spec)
        spec.loader.exec_module(mod)
        self.native[modname] = mod
        self.consts = getattr(self, "consts", {})
        for node in tree.body:
            if isinstance(node, ast.Assign) and len(node.targets) == 1 and isinstance(node.targets[0], ast.Name):
                self.consts[node.targets[0].id] = getattr(mod, node.targets[0].id)

    def has(self, name):
        if any(getattr(p, "spec_has", lambda n: False)(name) for p in self.plugins):
            return True
        return (name in self.src or name in ("B", "EMPTY", "LEN", "mk_enum", "EMPTYSEQ", "SEQ1", "LISTREF", "DICTREF") or name in OBJ_DSL
                or name in getattr(self, "consts", {}))

    @staticmethod
    def ann_kind(a):
        if isinstance(a, ast.Name):
            return {"int": "int", "bool": "bool", "bytes": "bytes", "str": "str", "object": "obj"}[a.id]
        if isinstance(a, ast.Constant) and isinstance(a.value, str):
            return a.value
        raise ValueError(ast.unparse(a))

    def declare(self, name):
        if name in self.z3fn:
            return self.z3fn[name]
        node, mod = self.src[name]
        pk = [self.ann_kind(a.annotation) for a in node.args.args]
        rk = self.ann_kind(node.returns)
        unint = any(isinstance(d, ast.Name) and d.id == "uninterpreted" for d in node.decorator_list)
        if unint:
            f = z3.Function(name, *[KIND_SORT[k] for k in pk], KIND_SORT[rk])
            self.defined.add(name)
            self.uninterpreted = getattr(self, "uninterpreted", set()) | {name}
        else:
            f = z3.RecFunction(name, *[KIND_SORT[k] for k in pk], KIND_SORT[rk])
        self.z3fn[name] = (f, pk, rk)
        return self.z3fn[name]

    def define(self, ex, name):
        if name in self.defined:
            return
        self.defined.add(name)
        f, pk, rk = self.declare(name)
        node, mod = self.src[name]
        from .exec import State, FnExec
        st = State()
        params = []
        for a, k in zip(node.args.args, pk):
            v = z3.Const(a.arg, KIND_SORT[k])
            params.append(v)
            st.env[a.arg] = SV(k, v)
        sub = FnExec.__new__(FnExec)
        sub.__dict__.update(ex.__dict__)
        sub.is_spec = True
        sub._result = None
        sub.entry = st
        body = self.translate_body(sub, node.body, st, rk)
        z3.RecAddDefinition(f, params, body)

    def translate_body(self, sub, stmts, st, rk):
        stmts = [s for s in stmts if not (isinstance(s, ast.Expr) and isinstance(s.value, ast.Constant))]
        if not stmts:
            raise ValueError("spec function falls off the end")
        s = stmts[0]
        if isinstance(s, ast.Return):
            v = sub.ev_spec(s.value, st)
            return self.to_kind(sub, v, rk)
        if isinstance(s, ast.If):
            c = sub.truth(sub.ev_spec(s.test, st))
            a = self.translate_body(sub, s.body + stmts[1:], st, rk)
            b = self.translate_body(sub, (s.orelse or []) + stmts[1:], st, rk)
            return z3.If(c, a, b)
        if isinstance(s, ast.Assign) and len(s.targets) == 1 and isinstance(s.targets[0], ast.Name):
            st2 = st.clone()
            st2.env[s.targets[0].id] = sub.ev_spec(s.value, st)
            return self.translate_body(sub, stmts[1:], st2, rk)
        raise ValueError(f"spec statement {type(s).__name__} not supported")

    def to_kind(self, sub, v, k):
        if v.kind == k:
            return v.t
        if k == "int":
            return sub.as_int(v, None)
        if k == "obj":
            return to_obj(v)
        if k == "bool":
            return sub.truth(v)
        raise ValueError(f"spec result kind {v.kind} != {k}")

    def call(self, ex, name, pos, st):
        for p in self.plugins:
            if getattr(p, "spec_has", lambda n: False)(name):
                return p.spec_call(ex, name, pos, st)
        if name == "B":
            return sv_bytes(z3.Unit(ex.as_int(pos[0], st)))
        if name == "LEN":
            return sv_int(z3.Length(pos[0].t))
        if name == "EMPTYSEQ":
            return SV("objseq", z3.Empty(OBJSEQ))
        if name == "SEQ1":
            return SV("objseq", z3.Unit(to_obj(pos[0])))
        if name == "LISTREF":
            return sv_int(PyObj.plist(to_obj(pos[0])))
        if name == "DICTREF":
            return sv_int(PyObj.pdict(to_obj(pos[0])))
        if name == "mk_enum":
            return SV("obj", PyObj.PEnum(ex.as_int(pos[0], st), ex.as_int(pos[1], st)))
        if name in ("mk_int", "mk_bool", "mk_bytes", "mk_str", "mk_float_id"):
            a = pos[0]
            t = ex.as_int(a, st) if name in ("mk_int", "mk_float_id") else (ex.truth(a) if name == "mk_bool" else a.t)
            return OBJ_DSL[name](t)
        if name in OBJ_DSL:
            return OBJ_DSL[name](to_obj(pos[0]))
        if name in getattr(self, "consts", {}) and name not in self.src:
            return from_python(self.consts[name])
        f, pk, rk = self.declare(name)
        self.define(ex, name)
        args = []
        for v, k in zip(pos, pk):
            args.append(self.to_kind(ex, v, k))
        return SV(rk, f(*args))

    # ---- hooks with default behaviour (plugins may override) --------------------------------
    def _plug(self, name, *a):
        for p in self.plugins:
            h = getattr(p, name, None)
            if h is not None:
                r = h(*a)
                if r is not None:
                    return r
        return None

    def obj_truth(self, ex, t):
        r = self._plug("obj_truth", ex, t)
        if r is not None:
            return r
        return z3.If(PyObj.is_PNone(t), False,
               z3.If(PyObj.is_PBool(t), PyObj.pbool(t),
               z3.If(PyObj.is_PInt(t), PyObj.pint(t) != 0,
               z3.If(PyObj.is_PStr(t), z3.Length(PyObj.pstr(t)) > 0,
               z3.If(PyObj.is_PBytes(t), z3.Length(PyObj.pbytes(t)) > 0, z3.BoolVal(True))))))

    def obj_equal(self, ex, a, b, st):
        r = self._plug("obj_equal", ex, a, b, st)
        if r is not None:
            return r
        x, y = to_obj(a), to_obj(b)
        intlike = lambda t: z3.Or(PyObj.is_PInt(t), PyObj.is_PBool(t), PyObj.is_PEnum(t))
        # Python ==: bool / int / Enum(int) compare by integer value; everything else structurally
        return z3.If(z3.And(intlike(x), intlike(y)), obj_int(x) == obj_int(y), x == y)

    def binop_hook(self, ex, op, a, b, st):
        if isinstance(op, ast.Div) and a.kind in ("int", "bool") and b.kind in ("int", "bool"):
            return SV("ratio", (ex.as_int(a, st), ex.as_int(b, st)))
        return self._plug("binop_hook", ex, op, a, b, st)

    def compare_hook(self, ex, op, a, b, st):
        if a.kind == "func" and a.t == ("builtin", "sys.version_info") and b.kind == "tuple":
            # A-PYVER: the repository's interpreter (/venv) is CPython 3.12
            tgt = tuple(concrete_int(x.t) for x in b.t)
            ex.assumption("A-PYVER")
            ver = (3, 12)
            import operator
            opf = {ast.Lt: operator.lt, ast.LtE: operator.le, ast.Gt: operator.gt, ast.GtE: operator.ge}.get(type(op))
            if opf is not None and None not in tgt:
                return z3.BoolVal(opf(ver, tgt))
        return self._plug("compare_hook", ex, op, a, b, st)

    def identical_hook(self, ex, a, b, st):
        return self._plug("identical_hook", ex, a, b, st)

    def contains_hook(self, ex, a, b, st):
        return self._plug("contains_hook", ex, a, b, st)

    def slice_hook(self, ex, seq, lo, hi, st):
        return self._plug("slice_hook", ex, seq, lo, hi, st)

    def index_hook(self, ex, seq, idx, st):
        return self._plug("index_hook", ex, seq, idx, st)

    def getattr_hook(self, ex, st, v, attr):
        return self._plug("getattr_hook", ex, st, v, attr)

    def value_attr_hook(self, ex, st, v, attr):
        return self._plug("value_attr_hook", ex, st, v, attr)

    def setattr_hook(self, ex, st, recv, attr, v):
        return self._plug("setattr_hook", ex, st, recv, attr, v)

    def set_item(self, ex, st, recv, key, v):
        r = self._plug("set_item", ex, st, recv, key, v)
        if r is None:
            from .exec import Unsupported
            raise Unsupported(f"item assignment on {recv.kind}")

    def havoc_hook(self, ex, st, refs):
        self._plug("havoc_hook", ex, st, refs)

    def iter_hook(self, ex, st, itv):
        return self._plug("iter_hook", ex, st, itv)

    def fresh_yield(self, ex, c, st):
        """a fresh value of the generator's yield type (ParsedField for load_fields / parse_fields)"""
        from .exec import fresh
        return SV("rec", {"number": sv_int(fresh("pf_number", IntS)), "wire_type": sv_int(fresh("pf_wire_type", IntS)),
                          "value": SV("obj", fresh("pf_value", PyObj)), "raw": sv_bytes(fresh("pf_raw", BytesS))},
                  "betterproto.ParsedField")

    def make_model_param(self, ex, st, p, model):
        r = self._plug("make_model_param", ex, st, p, model)
        if r is None:
            from .exec import Unsupported
            raise Unsupported(f"model parameter {model}")
        return r

    def call_class(self, ex, tag, pos, kw, st, node):
        r = self._plug("call_class", ex, tag, pos, kw, st, node)
        if r is None and tag[0] == "class" and self.is_exception_class(tag[1]):
            r = [(st, SV("exc", tag[1].split(".")[-1]))]
        if r is None and tag[0] == "class":
            r = self.dataclass_ctor(ex, tag[1], pos, kw, st)
        if r is None:
            from .exec import Unsupported
            raise Unsupported(f"class call {tag}")
        yield from r

    def is_exception_class(self, qualname):
        from . import front
        mod, q = front.split_qualname(qualname)
        cd = front.load_module(mod).classes.get(q)
        if cd is None:
            return False
        return any(isinstance(b, ast.Name) and (b.id in EXC_NAMES or b.id.endswith("Error") or b.id == "Exception") for b in cd.bases)

    def dataclass_ctor(self, ex, qualname, pos, kw, st):
        """frozen @dataclass value classes of the repo (ParsedField): the constructor builds a record."""
        from . import front
        mod, q = front.split_qualname(qualname)
        mi = front.load_module(mod)
        cd = mi.classes.get(q)
        if cd is None:
            return None
        is_dc = any("dataclass" in ast.unparse(d) for d in cd.decorator_list)
        if not is_dc or cd.bases:
            return None
        names = [n.target.id for n in cd.body if isinstance(n, ast.AnnAssign) and isinstance(n.target, ast.Name)]
        vals = dict(zip(names, pos))
        vals.update(kw)
        if set(vals) != set(names):
            return None
        return [(st, SV("rec", vals, qualname))]

    # ---- builtins --------------------------------------------------------------------------
    def call_builtin(self, ex, name, pos, kw, st, node):
        from .exec import Unsupported, Raised
        r = self._plug("call_builtin", ex, name, pos, kw, st, node)
        if r is not None:
            yield from r
            return
        short = name.split(".")[-1]
        if short in EXC_NAMES and (name == short or name.endswith("." + short)):
            yield st, SV("exc", short)
            return
        if name == "len":
            v = pos[0]
            if v.kind in ("bytes", "str"):
                st2 = st
                if not ex.is_spec:
                    st2 = st.clone()
                    st2.assume(z3.Length(v.t) < 2 ** 63)      # sys.maxsize
                    ex.assumption("A-LEN")
                yield st2, sv_int(z3.Length(v.t))
                return
            if v.kind == "tuple":
                yield st, sv_int(len(v.t))
                return
            if v.kind == "objseq":
                yield st, sv_int(z3.Length(v.t))
                return
            raise Unsupported(f"len of {v.kind}")
        if name == "bool":
            yield st, sv_bool(ex.truth(pos[0]))
            return
        if name == "int":
            v = pos[0]
            if v.kind in ("int", "bool", "obj"):
                yield st, sv_int(ex.as_int(v, st))
                return
            if v.kind == "str":
                s = concrete_str(v.t)
                if s is not None:
                    yield st, sv_int(int(s))
                    return
            raise Unsupported(f"int() of {v.kind}")
        if name == "str" and len(pos) == 2 and concrete_str(pos[1].t) == "utf-8":
            b = ex.as_bytes(pos[0], st)
            ex.assumption("A-UTF8")
            yield st, Raised(SV("exc", "UnicodeDecodeError"))
            yield st, self.call(ex, "UTF8DEC", [sv_bytes(b)], st)
            return
        if name == "struct.unpack":
            ex.assumption("A-STRUCT")
            b = ex.as_bytes(pos[1], st)
            yield st, Raised(SV("exc", "StructError"))
            yield st, sv_tuple([self.call(ex, "UNPACKF", [pos[0], sv_bytes(b)], st)])
            return
        if name in ("bytes", "bytearray"):
            if not pos:
                yield st, sv_bytes(b"")
                return
            if pos[0].kind == "bytes":
                yield st, pos[0]
                return
            raise Unsupported(f"{name}() of {pos[0].kind}")
        if name == "isinstance":
            yield st, sv_bool(self.isinstance_(ex, pos[0], pos[1], st))
            return
        if name in ("io.BytesIO", "BytesIO"):
            key = f"stream:local{next(_ctr)}"
            st2 = st.clone()
            init = pos[0] if pos else sv_bytes(b"")
            st2.heap[(key, "data")] = sv_bytes(ex.as_bytes(init, st))
            st2.heap[(key, "pos")] = sv_int(0)
            ex.assumption("A-BYTESIO")
            yield st2, SV("ref", key, "stream")
            return
        if name in ("itertools.count", "count"):
            a = ex.as_int(pos[0], st) if pos else z3.IntVal(0)
            b = ex.as_int(pos[1], st) if len(pos) > 1 else z3.IntVal(1)
            yield st, SV("iter_count", (a, b))
            return
        if name == "range":
            if len(pos) != 1:
                raise Unsupported("range with start/step")
            n = ex.as_int(pos[0], st)
            yield st, SV("iter_range", z3.If(n > 0, n, 0))
            return
        if name == "math.ceil":
            v = pos[0]
            if v.kind == "ratio":
                a, c = v.t
                cc = concrete_int(c)
                if cc is None or cc <= 0 or cc > 64:
                    raise Unsupported("math.ceil(a / c) with non-constant c")
                ex.assumption("A-BITLEN")
                # exact only where float division is trustworthy; elsewhere the result is left unconstrained
                r = z3.Int(f"ceil!{next(_ctr)}")
                st2 = st.clone()
                st2.assume(z3.Implies(z3.And(a >= 0, a <= 2 ** 20), r == (a + cc - 1) / cc))
                yield st2, sv_int(r)
                return
            raise Unsupported("math.ceil of non-ratio")
        if name == "int.from_bytes":
            b = ex.as_bytes(pos[0], st)
            order = kw.get("byteorder", pos[1] if len(pos) > 1 else None)
            if order is None or concrete_str(order.t) != "little":
                raise Unsupported("int.from_bytes byteorder")
            ex.assumption("A-TOBYTES")
            s = State_assume_len1(ex, st, b)
            if s is not None:
                st2 = st.clone()
                st2.assume(z3.And(b[0] >= 0, b[0] < 256))
                ex.assumption("A-BYTES")
                yield st2, sv_int(b[0])
                return
            raise Unsupported("int.from_bytes of a value whose length is not provably 1")
        if name in ("max", "min"):
            a, b = ex.as_int(pos[0], st), ex.as_int(pos[1], st)
            yield st, sv_int(z3.If(a >= b, a, b) if name == "max" else z3.If(a <= b, a, b))
            return
        if name == "abs":
            a = ex.as_int(pos[0], st)
            yield st, sv_int(z3.If(a >= 0, a, -a))
            return
        if name == "divmod":
            a, b = ex.as_int(pos[0], st), ex.as_int(pos[1], st)
            yield st, sv_tuple([sv_int(ex.floordiv(a, b, st)), sv_int(ex.pymod(a, b, st))])
            return
        raise Unsupported(f"builtin {name} is not modelled")

    def isinstance_(self, ex, v, cls, st):
        from .exec import Unsupported
        names = []
        for c in (cls.t if cls.kind == "tuple" else [cls]):
            if c.kind != "func":
                raise Unsupported("isinstance class")
            names.append(c.t[1] if c.t[0] in ("builtin", "class") else str(c.t))
        out = []
        for n in names:
            n = n.split(".")[-1]
            r = self._plug("isinstance_", ex, v, n, st)
            if r is not None:
                out.append(r)
                continue
            if v.kind == "obj":
                t = v.t
                m = {"int": z3.Or(PyObj.is_PInt(t), PyObj.is_PBool(t), PyObj.is_PEnum(t)),
                     "bool": PyObj.is_PBool(t), "str": PyObj.is_PStr(t), "bytes": PyObj.is_PBytes(t),
                     "float": PyObj.is_PFloat(t), "list": PyObj.is_PList(t), "dict": PyObj.is_PDict(t),
                     "datetime": PyObj.is_PDatetime(t), "timedelta": PyObj.is_PTimedelta(t),
                     "Message": PyObj.is_PMsg(t)}.get(n)
                if m is None:
                    raise Unsupported(f"isinstance(obj, {n})")
                out.append(m)
            else:
                static = {"int": ("int", "bool"), "bool": ("bool",), "str": ("str",), "bytes": ("bytes",)}.get(n, ())
                out.append(z3.BoolVal(v.kind in static))
        return z3.Or(*out) if len(out) > 1 else out[0]

    # ---- methods ----------------------------------------------------------------------------
    def call_method(self, ex, recv, name, pos, kw, st, node):
        from .exec import Unsupported, Raised
        r = self._plug("call_method", ex, recv, name, pos, kw, st, node)
        if r is not None:
            yield from r
            return
        if recv.kind == "ref" and recv.extra == "stream":
            key = recv.t
            data = st.heap[(key, "data")].t
            p = st.heap[(key, "pos")].t
            ex.assumption("A-BYTESIO")
            if name == "write":
                b = ex.as_bytes(pos[0], st)
                # the append model of write() is only valid at the end of the buffer
                ex.oblige(st, f"write-at-end@{ex.cur_line}", p == z3.Length(data), "model")
                st2 = st.clone()
                nd = z3.Concat(data, b)
                st2.heap[(key, "data")] = sv_bytes(nd)
                st2.heap[(key, "pos")] = sv_int(z3.Length(nd))
                yield st2, sv_int(z3.Length(b))
                return
            if name == "read":
                n = ex.as_int(pos[0], st)
                if concrete_int(n) is None:
                    ex.oblige(st, f"read-nonneg@{ex.cur_line}", n >= 0, "safety")
                res = z3.SubSeq(data, p, n)
                st2 = st.clone()
                # explicit length of the slice obtained (helps the sequence solvers)
                ln = z3.Length(data)
                st2.assume(z3.Implies(z3.And(p >= 0, n >= 0),
                                      z3.Length(res) == z3.If(p >= ln, 0, z3.If(p + n <= ln, n, ln - p))))
                st2.heap[(key, "pos")] = sv_int(p + z3.Length(res))
                yield st2, sv_bytes(res)
                return
            if name == "getvalue":
                yield st, sv_bytes(data)
                return
            if name == "seek":
                n = ex.as_int(pos[0], st)
                ex.oblige(st, f"seek-nonneg@{ex.cur_line}", n >= 0, "safety")
                st2 = st.clone()
                # positions past the end are legal for BytesIO; reads there return b""
                st2.heap[(key, "pos")] = sv_int(n)
                yield st2, sv_int(n)
                return
            if name == "tell":
                yield st, sv_int(p)
                return
            raise Unsupported(f"stream.{name}")
        if recv.kind in ("int", "bool"):
            x = ex.as_int(recv, st)
            if name == "to_bytes":
                ln = concrete_int(ex.as_int(pos[0], st))
                order = pos[1] if len(pos) > 1 else kw.get("byteorder")
                if ln != 1 or order is None or concrete_str(order.t) != "little":
                    raise Unsupported("to_bytes with length != 1 or non-little byteorder")
                ex.assumption("A-TOBYTES")
                ex.oblige(st, f"to_bytes-range@{ex.cur_line}", z3.And(x >= 0, x < 256), "safety")
                yield st, sv_bytes(z3.Unit(x))
                return
            if name == "bit_length":
                ex.assumption("A-BITLEN")
                bl = z3.Int(f"bitlen!{next(_ctr)}")
                ax = z3.If(x >= 0, x, -x)
                st2 = st.clone()
                # table model up to 72 bits; above that only bl > 72 is known
                st2.assume(z3.If(ax == 0, bl == 0,
                                 z3.If(ax < 2 ** 72,
                                       z3.And(bl >= 1, bl <= 72, pow2_table(bl - 1) <= ax, ax < pow2_table(bl)),
                                       bl > 72)))
                yield st2, sv_int(bl)
                return
        raise Unsupported(f"method {name} on {recv.kind}")


import itertools
_ctr = itertools.count()


def State_assume_len1(ex, st, b):
    """True if the path condition implies len(b) == 1."""
    s = z3.Solver()
    s.set("timeout", 2000)
    for c in st.pc:
        s.add(c)
    s.add(z3.Length(b) != 1)
    return True if s.check() == z3.unsat else None
