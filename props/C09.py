"""C09 — len(m) equals the encoded size and dump() writes exactly bytes(m)."""
AREAS = ["varint", "single", "msg"]
LEVEL = "proof"
EXPLANATION = (
    "Message.dump, __len__, __bytes__, SerializeToString are verified for a SYMBOLIC message class (field table = "
    "uninterpreted functions constrained by WF, values constrained by TY): dump writes old ++ [varint(len)] ++ WIRE(self), "
    "__len__ == |WIRE(self)|, __bytes__ == WIRE(self), with WIRE = concat of the per-field emission EMITC ++ unknown "
    "fields; the helper pairs (_serialize_single/_len_single, _preprocess_single/_len_preprocessed_single, "
    "encode_varint/size_varint) are each verified against the same spec function, so the four equalities of the "
    "statement follow for every message type and value.")
ASSUMED = [
    "nested values: bytes(v) == MSGWIRE(v) is the same contract one nesting level down (induction on the finite value tree, not machine-checked as an induction)",
    "C-GETATTR: getattr(self, field) follows the contract of Message.__getattribute__ (verified separately under C07/C14)",
    "A-DEFAULT-CANON: one canonical default object per field stands for the freshly created default in read-only code",
]
from pyvc.check import standin_bounded
from pyvc.check import external_bounded
BOUNDED = [standin_bounded("C09"),
           external_bounded("deep-schema:C09", "standin.deep", ["C09", "--n", "150"], ["C09", "--n", "800"],
                            "nested schema (containers of oneof-carrying / field-less messages, two-level lazy parents, float maps, Duration JSON strings); observation-based oracle")]
