"""C17 — malformed or truncated input is rejected or isolated, never mis-decoded."""
AREAS = ["varint", "frame", "msg", "msgload"]
LEVEL = "proof"
EXPLANATION = (
    "Termination: variants on load_varint (10 - k), parse_fields (len - i), the packed inner loop of load "
    "(len - pos), and load_fields' step contract 'stream.pos > P' (strict progress) for the outer loops. Rejection: "
    "load_fields/parse_fields never yield a record with number 0, wire type outside {0,1,2,5} or a payload shorter than "
    "declared, and end only at a record boundary. Isolation: Message.load keeps a known number with a non-fitting wire type "
    "verbatim in _unknown_fields and touches only the addressed field and its oneof group otherwise. Typed result: "
    "_postprocess_single returns a value of the declared Python type (PYTYPED).")
ASSUMED = ["A-STRUCT / A-UTF8: struct.unpack and utf-8 decoding raise on malformed payloads (modelled as may-raise)",
           "C-SUBPARSE: nested payloads are parsed by the same load() one level down"]
from pyvc.check import standin_bounded
from pyvc.check import external_bounded
BOUNDED = [standin_bounded("C17"),
           external_bounded("deep-schema:C17", "standin.deep", ["C17", "--n", "150"], ["C17", "--n", "800"],
                            "field numbers whose tags take 2..5 bytes (32 .. 2**29-1) in every presence discipline: encoding vs reference, decode, len, delimited round trip, read as unknown fields")]
