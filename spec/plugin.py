"""Spec: how one field of a message schema (a FieldDescriptorProto) must be declared in the generated dataclass (C03).

Written from descriptor.proto (the Type enum numbers) and from the betterproto runtime API (`betterproto.<kind>_field(
number, wraps=..., optional=True, group="...")`, kind = the lower-case proto type name): the declaration must carry the
schema's field number, its wire type kind, the wrapped scalar for google.protobuf.*Value fields, proto3 presence and the
oneof group; the annotation is the Python scalar type, wrapped in List[...] for repeated and Optional[...] for proto3
optional fields."""
from spec.pyobj import uninterpreted  # noqa: F401


def FIELD_TYPE_NAME(t: int) -> str:
    """descriptor.proto FieldDescriptorProto.Type -> name of the betterproto field function (without `_field`)"""
    if t == 1:
        return "double"
    if t == 2:
        return "float"
    if t == 3:
        return "int64"
    if t == 4:
        return "uint64"
    if t == 5:
        return "int32"
    if t == 6:
        return "fixed64"
    if t == 7:
        return "fixed32"
    if t == 8:
        return "bool"
    if t == 9:
        return "string"
    if t == 10:
        return "group"
    if t == 11:
        return "message"
    if t == 12:
        return "bytes"
    if t == 13:
        return "uint32"
    if t == 14:
        return "enum"
    if t == 15:
        return "sfixed32"
    if t == 16:
        return "sfixed64"
    if t == 17:
        return "sint32"
    return "sint64"


def IS_SCALAR_TYPE(t: int) -> bool:
    return (1 <= t <= 9 or t == 12 or t == 13 or 15 <= t <= 18)


def PY_TYPE(t: int) -> str:
    """Python type of a scalar proto type"""
    if t == 1 or t == 2:
        return "float"
    if t == 8:
        return "bool"
    if t == 9:
        return "str"
    if t == 12:
        return "bytes"
    return "int"


def IS_PACKABLE(t: int) -> bool:
    """scalar numeric types (protobuf encoding guide: everything except string, bytes, message, group)"""
    return (1 <= t <= 8) or t == 13 or (15 <= t <= 18)


def FIELD_DECL(py_name: str, annotation: str, kind: str, number: str, wraps: str, optional: bool, group: str) -> str:
    """the text of a dataclass field declaration; `wraps` / `group` empty = not given; number already printed"""
    s = py_name + ": " + annotation + " = betterproto." + kind + "_field(" + number
    if wraps != "":
        s = s + ", wraps=" + wraps
    if optional:
        s = s + ", optional=True"
    if group != "":
        s = s + ', group="' + group + '"'
    return s + ")"
