"""C02 — wire interoperability with the reference implementation."""
AREAS = ["varint", "single", "frame", "msg", "msgload"]
LEVEL = "other"
EXPLANATION = (
    "Encode direction: dump == WIRE(self), WIRE/EMIT/ENC/RECS being the protobuf encoding rules (spec functions). Decode "
    "direction: the contracts of load_varint (every well-formed, also padded, varint), load_fields (any record order, any "
    "field number) and Message.load (step contract quantified over an arbitrary next record: singular scalars and oneof "
    "members last-wins, repeated elements append, packed chunks extend, unknown fields interleaved anywhere) cover every "
    "legal alternative encoding, not only encoder outputs. That the spec functions agree with google.protobuf is validated "
    "only by the bounded differential (stand-in with an independent re-encoder).")
ASSUMED = ["spec functions == google.protobuf (bounded differential only)", "A-FOLD"]
from pyvc.check import standin_bounded
from pyvc.check import external_bounded
BOUNDED = [standin_bounded("C02"),
           external_bounded("deep-schema:C02", "standin.deep", ["C02", "--n", "150"], ["C02", "--n", "800"],
                            "nested schema (containers of oneof-carrying / field-less messages, two-level lazy parents, float maps, Duration JSON strings); observation-based oracle")]
