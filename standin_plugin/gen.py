"""Schema generator + real-plugin runner for the bounded end-to-end stand-ins
of C03 / C18 / C13 / C11.

Everything here is *bounded testing*, not proof.  The ground truth for every
check is the generator's own data structure (``Schema``); protoc descriptors
(``--descriptor_set_out``) are used as a second, independent opinion.

Assumptions (also listed in every result dict):

A-RUFF   ``ruff`` is not installed in the sandbox.  The plugin pipes the rendered
         module through ``ruff check --select I,F401 --fix --silent -`` and
         ``ruff format -`` (stdin -> stdout).  A shim that copies stdin to stdout
         is put first on PATH *for the protoc subprocess only*.  We assume ruff's
         two passes are semantics preserving (import sorting, removal of unused
         imports, formatting).
A-HASH   The plugin iterates over a ``set`` of import lines; the subprocess runs
         with PYTHONHASHSEED=0 so that runs are reproducible.
A-PROTOC protoc (grpc_tools) is the arbiter of "valid proto3 schema": a schema
         protoc rejects is a generator bug and is reported under ``skipped`` as
         ``generator-invalid`` (never as a failure).
"""
from __future__ import annotations

import atexit
import json
import os
import random
import shutil
import subprocess
import sys
import tempfile
from dataclasses import dataclass, field

sys.path.insert(0, os.path.dirname(os.path.dirname(os.path.abspath(__file__))))
from pyvc import proc as _proc  # noqa: E402
from typing import Dict, List, Optional, Tuple

VENV_PY = "/venv/bin/python"
ROOT_PKG = "genroot"  # python package that holds the generated tree
HERE = os.path.dirname(os.path.abspath(__file__))
CHILD = os.path.join(HERE, "child.py")

ASSUMPTIONS = [
    "A-RUFF: ruff is absent; a stdin->stdout pass-through shim named `ruff` is put on PATH "
    "for the protoc subprocess only; ruff's import sorting / unused-import removal / "
    "formatting is assumed to be semantics preserving",
    "A-HASH: plugin subprocess runs with PYTHONHASHSEED=0 (it iterates over a set of import lines)",
    "A-PROTOC: grpc_tools.protoc decides validity of a generated schema; rejected schemas are "
    "generator bugs and are listed under skipped, never under failures",
    "A-BOUNDED: bounded randomised testing of the real plugin and real generated code; "
    "not a proof",
]


def repo_src() -> str:
    return os.path.join(os.environ.get("PYVC_REPO", "/repo"), "src")


# --------------------------------------------------------------------------
# scratch handling
# --------------------------------------------------------------------------
_SCRATCH: List[str] = []


def new_scratch(prefix: str = "standin_plugin_") -> str:
    d = tempfile.mkdtemp(prefix=prefix)
    _SCRATCH.append(d)
    return d


def cleanup(path: Optional[str]) -> None:
    """Remove one scratch dir (the dir itself or anything below a registered dir)."""
    if not path:
        return
    for d in list(_SCRATCH):
        if path == d or path.startswith(d + os.sep):
            shutil.rmtree(d, ignore_errors=True)
            _SCRATCH.remove(d)
            return
    # not registered: only remove if it is under the system temp dir
    if os.path.abspath(path).startswith(tempfile.gettempdir() + os.sep):
        shutil.rmtree(path, ignore_errors=True)


def cleanup_all() -> None:
    for d in list(_SCRATCH):
        shutil.rmtree(d, ignore_errors=True)
    _SCRATCH.clear()


atexit.register(cleanup_all)


# --------------------------------------------------------------------------
# tool dir: ruff shim + plugin wrapper (A-RUFF)
# --------------------------------------------------------------------------
_TOOLS: Optional[str] = None


def tools_dir() -> str:
    """Directory with the `ruff` pass-through shim and the plugin wrapper."""
    global _TOOLS
    if _TOOLS and os.path.isdir(_TOOLS):
        return _TOOLS
    d = new_scratch("standin_plugin_tools_")
    ruff = os.path.join(d, "ruff")
    with open(ruff, "w") as fh:
        # compiler.py calls:  ruff check --select I,F401 --fix --silent -
        #                     ruff format -
        # both read the module from stdin and must print it on stdout.
        fh.write("#!/bin/sh\n# pass-through shim (assumption A-RUFF)\nexec cat\n")
    os.chmod(ruff, 0o755)
    wrapper = os.path.join(d, "protoc-gen-python_betterproto.sh")
    with open(wrapper, "w") as fh:
        fh.write("#!/bin/sh\nexec env PYTHONPATH=$PYVC_SRC %s -m betterproto.plugin\n" % VENV_PY)
    os.chmod(wrapper, 0o755)
    _TOOLS = d
    return d


# --------------------------------------------------------------------------
# plugin runner
# --------------------------------------------------------------------------
@dataclass
class PluginResult:
    ok: bool
    scratch: str
    out_dir: str  # directory to put on sys.path; contains ROOT_PKG/
    returncode: int
    stderr: str
    protoc_rejected: bool  # protoc itself (not the plugin) refused the schema
    descriptor_set: Optional[str] = None
    options: Tuple[str, ...] = ()


class PluginError(RuntimeError):
    def __init__(self, result: PluginResult):
        super().__init__(result.stderr[-2000:])
        self.result = result


def run_plugin_ex(
    protos: Dict[str, str],
    options: List[str],
    want_descriptor: bool = False,
    timeout: float = 180.0,
    named: Optional[List[str]] = None,
) -> PluginResult:
    tools = tools_dir()
    scratch = new_scratch()
    proto_dir = os.path.join(scratch, "proto")
    out_dir = os.path.join(scratch, "out")
    gen_dir = os.path.join(out_dir, ROOT_PKG)
    cwd = os.path.join(scratch, "cwd")
    for d in (proto_dir, gen_dir, cwd):
        os.makedirs(d)
    for name, text in protos.items():
        p = os.path.join(proto_dir, name)
        os.makedirs(os.path.dirname(p), exist_ok=True)
        with open(p, "w", encoding="utf-8") as fh:
            fh.write(text)
    env = dict(os.environ)
    env["PATH"] = tools + os.pathsep + env.get("PATH", "")
    env["PYVC_SRC"] = repo_src()
    env["PYTHONHASHSEED"] = "0"
    env.pop("PYTHONPATH", None)
    cmd = [
        VENV_PY,
        "-m",
        "grpc_tools.protoc",
        "-I" + proto_dir,
        "--plugin=protoc-gen-python_betterproto=" + os.path.join(tools, "protoc-gen-python_betterproto.sh"),
        "--python_betterproto_out=" + gen_dir,
    ]
    for o in options:
        cmd.append("--python_betterproto_opt=" + o)
    ds = None
    if want_descriptor:
        ds = os.path.join(scratch, "descriptor_set.bin")
        cmd += ["--descriptor_set_out=" + ds, "--include_imports"]
    cmd += sorted(named) if named else sorted(protos)
    try:
        cp = _proc.run(cmd, cwd=cwd, env=env, timeout=timeout)
        rc, err = cp.returncode, (cp.stdout or "") + (cp.stderr or "")
    except subprocess.TimeoutExpired as e:  # pragma: no cover
        rc, err = -9, "TIMEOUT " + str(e)
    rejected = False
    if rc != 0:
        # protoc's own diagnostics look like "file.proto:LINE:COL: message" or
        # "file.proto: message"; plugin failures are reported as "--python_betterproto_out: ..."
        # (a plugin that does not finish is a plugin failure, not a schema protoc refused)
        rejected = "--python_betterproto_out" not in err and "Traceback" not in err and not err.startswith("TIMEOUT")
    return PluginResult(
        ok=(rc == 0),
        scratch=scratch,
        out_dir=out_dir,
        returncode=rc,
        stderr=err,
        protoc_rejected=rejected,
        descriptor_set=ds if (ds and os.path.exists(ds)) else None,
        options=tuple(options),
    )


def run_plugin(protos: Dict[str, str], options: List[str]) -> str:
    """Run the real plugin; return the directory to put on sys.path (it contains the
    package ``genroot``).  Raises PluginError.  Remove with ``cleanup(out_dir)``."""
    r = run_plugin_ex(protos, options)
    if not r.ok:
        raise PluginError(r)
    return r.out_dir


def run_child(mode: str, out_dir: str, spec: dict, timeout: float = 240.0) -> dict:
    """Import / exercise the generated tree in a fresh interpreter."""
    spec_path = os.path.join(os.path.dirname(out_dir), "spec_%s_%d.json" % (mode, random.getrandbits(32)))
    with open(spec_path, "w") as fh:
        json.dump(spec, fh)
    env = dict(os.environ)
    env["PYVC_SRC"] = repo_src()
    env.pop("PYTHONPATH", None)
    try:
        cp = _proc.run([VENV_PY, CHILD, mode, out_dir, spec_path], env=env, timeout=timeout, cwd=os.path.dirname(out_dir))
    except subprocess.TimeoutExpired:
        return {"child_error": "timeout after %ss" % timeout}
    if cp.stderr.strip():
        sys.stderr.write(cp.stderr[-3000:] + "\n")
    try:
        return json.loads(cp.stdout)
    except Exception:
        return {"child_error": "rc=%s no JSON; stderr tail: %s" % (cp.returncode, cp.stderr[-1500:])}


# --------------------------------------------------------------------------
# schema data structures (ground truth)
# --------------------------------------------------------------------------
SCALARS = [
    "double", "float", "int32", "int64", "uint32", "uint64", "sint32", "sint64",
    "fixed32", "fixed64", "sfixed32", "sfixed64", "bool", "string", "bytes",
]
PY_OF_SCALAR = {
    "double": "float", "float": "float", "bool": "bool", "string": "str", "bytes": "bytes",
    **{k: "int" for k in ["int32", "int64", "uint32", "uint64", "sint32", "sint64",
                          "fixed32", "fixed64", "sfixed32", "sfixed64"]},
}
MAP_KEYS = [s for s in SCALARS if s not in ("double", "float", "bytes")]
WRAPPERS = {
    "DoubleValue": "double", "FloatValue": "float", "Int32Value": "int32", "Int64Value": "int64",
    "UInt32Value": "uint32", "UInt64Value": "uint64", "BoolValue": "bool",
    "StringValue": "string", "BytesValue": "bytes",
}
WKT_FILE = {
    "Timestamp": "google/protobuf/timestamp.proto",
    "Duration": "google/protobuf/duration.proto",
    "Empty": "google/protobuf/empty.proto",
    "Struct": "google/protobuf/struct.proto",
    "Value": "google/protobuf/struct.proto",
    "ListValue": "google/protobuf/struct.proto",
    "Any": "google/protobuf/any.proto",
    "FieldMask": "google/protobuf/field_mask.proto",
    **{w: "google/protobuf/wrappers.proto" for w in WRAPPERS},
}
WKT_ALL = list(WKT_FILE)


@dataclass(frozen=True)
class TypeRef:
    kind: str  # scalar | message | enum | wkt
    name: str  # scalar name | wkt short name | ""
    pkg: str = ""
    path: Tuple[str, ...] = ()

    def proto(self) -> str:
        if self.kind == "scalar":
            return self.name
        if self.kind == "wkt":
            return ".google.protobuf." + self.name
        return "." + ".".join(([self.pkg] if self.pkg else []) + list(self.path))

    def full(self) -> str:
        return self.proto().lstrip(".")


def scalar(name: str) -> TypeRef:
    return TypeRef("scalar", name)


def wkt(name: str) -> TypeRef:
    return TypeRef("wkt", name)


@dataclass
class Field:
    name: str
    number: int
    type: TypeRef
    label: str = "singular"  # singular | optional | repeated | map
    map_key: Optional[str] = None
    oneof: Optional[str] = None
    comment: Optional[str] = None
    deprecated: bool = False


@dataclass
class Enum:
    name: str
    values: List[Tuple[str, int]]
    allow_alias: bool = False
    comment: Optional[str] = None
    value_comments: Dict[str, str] = field(default_factory=dict)


@dataclass
class Message:
    name: str
    fields: List[Field] = field(default_factory=list)
    messages: List["Message"] = field(default_factory=list)
    enums: List[Enum] = field(default_factory=list)
    comment: Optional[str] = None
    deprecated: bool = False


@dataclass
class Method:
    name: str
    input: TypeRef
    output: TypeRef
    client_streaming: bool = False
    server_streaming: bool = False
    comment: Optional[str] = None
    deprecated: bool = False


@dataclass
class Service:
    name: str
    methods: List[Method] = field(default_factory=list)
    comment: Optional[str] = None


@dataclass
class File:
    name: str
    package: str
    imports: List[str] = field(default_factory=list)
    messages: List[Message] = field(default_factory=list)
    enums: List[Enum] = field(default_factory=list)
    services: List[Service] = field(default_factory=list)
    comment: Optional[str] = None


@dataclass
class Schema:
    files: List[File] = field(default_factory=list)
    features: Dict[str, int] = field(default_factory=dict)
    invocation: str = "all"      # which files are named on the protoc command line: "all" | "roots" (the others only via import)

    def protos(self) -> Dict[str, str]:
        return {f.name: emit_file(f) for f in self.files}

    def roots(self) -> List[str]:
        """files of the schema that no other file of the schema imports (naming them reaches every file)"""
        imported = {i for f in self.files for i in f.imports}
        return sorted(f.name for f in self.files if f.name not in imported)

    def named(self) -> Optional[List[str]]:
        if self.invocation == "roots":
            r = self.roots()
            return r or None
        return None

    def roots_only(self) -> Optional["Schema"]:
        """the same schema compiled by naming only its root files; None if that is the same command line"""
        r = self.roots()
        if not r or len(r) == len(self.files):
            return None
        return Schema(files=self.files, features=dict(self.features, **{"invocation.roots_only": 1}), invocation="roots")

    def text(self, limit: int = 1500) -> str:
        t = "\n".join("// ---- %s\n%s" % (n, s) for n, s in self.protos().items())
        return t if len(t) <= limit else t[:limit] + "\n... [truncated]"

    def packages(self) -> List[str]:
        out: List[str] = []
        for f in self.files:
            if f.package not in out:
                out.append(f.package)
        return out


# --------------------------------------------------------------------------
# .proto emission
# --------------------------------------------------------------------------
def _emit_comment(c: Optional[str], ind: str) -> List[str]:
    if not c:
        return []
    return [ind + "//" + (" " + line if line else "") for line in c.split("\n")]


def _emit_enum(e: Enum, ind: str) -> List[str]:
    out = _emit_comment(e.comment, ind)
    out.append("%senum %s {" % (ind, e.name))
    if e.allow_alias:
        out.append(ind + "  option allow_alias = true;")
    for n, v in e.values:
        out += _emit_comment(e.value_comments.get(n), ind + "  ")
        out.append("%s  %s = %d;" % (ind, n, v))
    out.append(ind + "}")
    return out


def _emit_field(f: Field, ind: str) -> List[str]:
    out = _emit_comment(f.comment, ind)
    opt = " [deprecated = true]" if f.deprecated else ""
    if f.label == "map":
        out.append("%smap<%s, %s> %s = %d%s;" % (ind, f.map_key, f.type.proto(), f.name, f.number, opt))
    else:
        pre = {"singular": "", "optional": "optional ", "repeated": "repeated "}[f.label]
        out.append("%s%s%s %s = %d%s;" % (ind, pre, f.type.proto(), f.name, f.number, opt))
    return out


def _emit_message(m: Message, ind: str) -> List[str]:
    out = _emit_comment(m.comment, ind)
    out.append("%smessage %s {" % (ind, m.name))
    if m.deprecated:
        out.append(ind + "  option deprecated = true;")
    for e in m.enums:
        out += _emit_enum(e, ind + "  ")
    for sub in m.messages:
        out += _emit_message(sub, ind + "  ")
    done = set()
    for f in m.fields:
        if f.oneof:
            if f.oneof in done:
                continue
            done.add(f.oneof)
            out.append("%s  oneof %s {" % (ind, f.oneof))
            for g in m.fields:
                if g.oneof == f.oneof:
                    out += _emit_field(g, ind + "    ")
            out.append(ind + "  }")
        else:
            out += _emit_field(f, ind + "  ")
    out.append(ind + "}")
    return out


def emit_file(f: File) -> str:
    out = _emit_comment(f.comment, "")
    out.append('syntax = "proto3";')
    if f.package:
        out.append("package %s;" % f.package)
    for i in f.imports:
        out.append('import "%s";' % i)
    out.append("")
    for e in f.enums:
        out += _emit_enum(e, "") + [""]
    for m in f.messages:
        out += _emit_message(m, "") + [""]
    for s in f.services:
        out += _emit_comment(s.comment, "")
        out.append("service %s {" % s.name)
        for me in s.methods:
            out += _emit_comment(me.comment, "  ")
            out.append("  rpc %s (%s%s) returns (%s%s)%s" % (
                me.name,
                "stream " if me.client_streaming else "", me.input.proto(),
                "stream " if me.server_streaming else "", me.output.proto(),
                " { option deprecated = true; }" if me.deprecated else ";"))
        out.append("}")
        out.append("")
    return "\n".join(out) + "\n"


# --------------------------------------------------------------------------
# ground truth derived from a Schema (pure function of the data structure;
# deliberately does NOT use betterproto's casing / naming code)
# --------------------------------------------------------------------------
def norm(name: str) -> str:
    """Name normalisation used to locate generated classes / fields / methods without
    re-implementing (or trusting) betterproto's re-casing: case and underscores are ignored."""
    return name.replace("_", "").lower()


def module_of(pkg: str) -> str:
    return ROOT_PKG + ("." + pkg if pkg else "")


def hint_of(f: Field) -> object:
    t = f.type
    if t.kind == "scalar":
        base: object = PY_OF_SCALAR[t.name]
    elif t.kind == "wkt":
        if t.name == "Timestamp":
            base = "datetime"
        elif t.name == "Duration":
            base = "timedelta"
        elif t.name in WRAPPERS:
            base = ["optional", PY_OF_SCALAR[WRAPPERS[t.name]]]
        else:
            base = {"wkt": t.name}
    else:
        base = {"ref": [t.pkg, list(t.path)], "kind": t.kind}
    if f.label == "repeated":
        return ["list", base]
    if f.label == "map":
        return ["dict", PY_OF_SCALAR[f.map_key], base]
    if f.label == "optional":
        if isinstance(base, list) and base[0] == "optional":
            return base
        return ["optional", base]
    return base


def field_truth(f: Field) -> dict:
    t = f.type
    vkind = t.name if t.kind == "scalar" else ("enum" if t.kind == "enum" else "message")
    d = {
        "name": f.name,
        "number": f.number,
        "label": f.label,
        "proto_type": "map" if f.label == "map" else vkind,
        "map_types": [f.map_key, vkind] if f.label == "map" else None,
        "group": f.oneof,
        "wraps": WRAPPERS[t.name] if (t.kind == "wkt" and t.name in WRAPPERS and f.label != "map") else None,
        "optional": f.label == "optional",
        "hint": hint_of(f),
        "type": {"kind": t.kind, "name": t.name, "pkg": t.pkg, "path": list(t.path)},
    }
    return d


def schema_truth(s: Schema) -> dict:
    pk: Dict[str, dict] = {}

    def P(pkg: str) -> dict:
        return pk.setdefault(pkg, {"module": module_of(pkg), "messages": {}, "enums": {}, "services": {}})

    def walk(pkg: str, m: Message, path: Tuple[str, ...]):
        p = path + (m.name,)
        P(pkg)["messages"][".".join(p)] = {
            "path": list(p),
            "fields": [field_truth(f) for f in m.fields],
            "groups": sorted({f.oneof for f in m.fields if f.oneof}),
        }
        for e in m.enums:
            P(pkg)["enums"][".".join(p + (e.name,))] = {"path": list(p + (e.name,)), "values": [list(v) for v in e.values]}
        for sub in m.messages:
            walk(pkg, sub, p)

    for f in s.files:
        P(f.package)
        for e in f.enums:
            P(f.package)["enums"][e.name] = {"path": [e.name], "values": [list(v) for v in e.values]}
        for m in f.messages:
            walk(f.package, m, ())
        for sv in f.services:
            P(f.package)["services"][sv.name] = {
                "methods": [
                    {
                        "name": me.name,
                        "route": "/%s%s/%s" % (f.package + "." if f.package else "", sv.name, me.name),
                        "cs": me.client_streaming,
                        "ss": me.server_streaming,
                        "input": {"kind": me.input.kind, "name": me.input.name, "pkg": me.input.pkg, "path": list(me.input.path)},
                        "output": {"kind": me.output.kind, "name": me.output.name, "pkg": me.output.pkg, "path": list(me.output.path)},
                    }
                    for me in sv.methods
                ]
            }
    return {"packages": pk}


# --------------------------------------------------------------------------
# seeded grammar-based random schema generator
# --------------------------------------------------------------------------
WORDS = ["Alpha", "Beta", "Node", "Item", "Order", "User", "Tree", "Leaf", "Config", "Frame",
         "Point", "Shape", "Entry2", "Record", "Batch", "Event", "Query", "Reply", "Token", "Page"]
FIELD_WORDS = ["id", "name", "count", "total_size", "created_at", "payload", "flag", "score",
               "parent_ref", "items", "labels", "x", "y2", "user_name", "v2_value", "data"]
# names colliding with python keywords / builtins / dataclass machinery
SPECIAL_FIELD_NAMES = ["from", "class", "int", "list", "self", "import", "lambda", "in", "is",
                       "str", "bytes", "float", "bool", "dict", "type", "id", "object", "def",
                       "global", "None", "True", "pass", "async", "await", "yield", "not",
                       "camelCaseName", "HTTPCode", "value", "key", "set", "map", "len", "max"]
BUILTIN_TYPE_NAMES = ["int", "str", "bytes", "float", "bool", "list", "dict"]
PACKAGE_POOL = ["", "alpha", "alpha.beta", "alpha.beta.gamma", "alpha.delta", "zeta",
                "zeta.eta_theta", "alpha_beta", "omega.v1", "omega.v1.inner"]
FIELD_NUMBERS = list(range(1, 16)) * 3 + [16, 17, 100, 127, 128, 2047, 2048, 16383, 16384,
                                           18999, 20000, 65535, 1 << 20, 536870911]
COMMENTS_PLAIN = ["A plain comment.", "Multi line\ncomment text\n\nwith a blank line.",
                  "Comment with unicode: \u00e9\u00e8 \u2603", "x" * 90,
                  "Mentions datetime and timedelta words.", "TODO: `code` and <html> & stuff"]
# tricky but (one would hope) harmless inside a docstring
COMMENTS_MILD = ['He said "hello" to them.', "100% sure {braces} {{x}}", "It's an apostrophe",
                 "jinja {% raw %} tags {# x #}", "a # hash and a ' quote"]
# need escaping inside a triple-quoted docstring; only used when tricky_comments=True
COMMENTS_TRICKY = ["Windows path C:\\temp\\new", "Ends with a quote\"", 'Has """triple""" quotes inside',
                   "trailing backslash \\"]


class SchemaGen:
    """Seeded generator.  ``profile``:
       'full'    everything (C03 / C18)
       'service' smaller messages, always services (C11)
    """

    def __init__(self, seed: int, profile: str = "full", tricky_comments: bool = False, risky_names: bool = True,
                 client_streaming=True):
        self.rng = random.Random(seed)
        # client_streaming: True (all four cardinalities) | False (unary + server streaming) | "none" (unary only)
        self.cards = ["uu"] if client_streaming == "none" else (["uu", "us", "su", "ss"] if client_streaming else ["uu", "us"])
        # names of builtin *types* (int, str, ...) trigger a known shadowing defect that makes the
        # whole module unimportable; they are confined to a subset of the schemas so that the
        # remaining schemas keep their checking power
        self.special = [n for n in SPECIAL_FIELD_NAMES if risky_names or n not in BUILTIN_TYPE_NAMES]
        self.profile = profile
        self.tricky_comments = tricky_comments
        self.counter = 0
        self.feat: Dict[str, int] = {}
        # cycling decks guarantee coverage of every scalar / key kind / wkt
        self.decks: Dict[str, List[str]] = {}

    # -- helpers
    def hit(self, k: str) -> None:
        self.feat[k] = self.feat.get(k, 0) + 1

    def deck(self, name: str, items: List[str]) -> str:
        d = self.decks.get(name)
        if not d:
            d = list(items)
            self.rng.shuffle(d)
            self.decks[name] = d
        return d.pop()

    def uid(self) -> int:
        self.counter += 1
        return self.counter

    def comment(self, p: float = 0.25) -> Optional[str]:
        r = self.rng.random()
        if r > p:
            return None
        if self.tricky_comments and self.rng.random() < 0.3:
            self.hit("comment.tricky")
            return self.rng.choice(COMMENTS_TRICKY)
        if self.rng.random() < 0.25:
            self.hit("comment.mild")
            return self.rng.choice(COMMENTS_MILD)
        self.hit("comment.plain")
        return self.rng.choice(COMMENTS_PLAIN)

    # -- enums
    def make_enum(self, name: str, scope_used: set) -> Enum:
        rng = self.rng
        prefix = "".join(("_" + c if c.isupper() and i else c) for i, c in enumerate(name)).upper()
        style = rng.choice(["prefixed", "prefixed", "bare"])
        n = rng.randint(1, 5)
        values: List[Tuple[str, int]] = []
        used_nums = {0}

        def vname(base: str) -> str:
            nm = (prefix + "_" + base) if style == "prefixed" else base
            while nm in scope_used or norm(nm) in {norm(x) for x in scope_used}:
                nm = nm + "_%d" % self.uid()
            scope_used.add(nm)
            return nm

        values.append((vname("UNSPECIFIED" if style == "prefixed" else "ZERO_%d" % self.uid()), 0))
        allow_alias = False
        pool = ["ONE", "TWO", "RED", "GREEN", "ACTIVE", "DONE", "V1", "X", "LAST", "OTHER"]
        rng.shuffle(pool)
        for i in range(n):
            r = rng.random()
            if r < 0.2:
                num = -rng.choice([1, 2, 7, 128, 2147483648])
                self.hit("enum.negative")
            elif r < 0.35 and len(values) > 1:
                num = rng.choice(values)[1]
                allow_alias = True
                self.hit("enum.alias")
            elif r < 0.45:
                num = rng.choice([127, 128, 300, 2147483647])
            else:
                num = max(used_nums) + 1 if max(used_nums) < 1000 else rng.randint(1, 900)
            if num in used_nums and not allow_alias:
                if any(v == num for _, v in values):
                    allow_alias = True
                    self.hit("enum.alias")
            used_nums.add(num)
            values.append((vname(pool[i]), num))
        e = Enum(name=name, values=values, allow_alias=allow_alias, comment=self.comment())
        for nm, _ in values:
            c = self.comment(0.1)
            if c:
                e.value_comments[nm] = c
        self.hit("enum")
        return e

    # -- main
    def generate(self) -> Schema:
        rng = self.rng
        service_profile = self.profile == "service"
        npk = rng.choice([1, 2, 2, 3])
        pkgs = rng.sample(PACKAGE_POOL, npk)
        files: List[File] = []
        for p in pkgs:
            for _ in range(rng.choice([1, 1, 2])):
                files.append(File(name="", package=p))
        rng.shuffle(files)
        for i, f in enumerate(files):
            f.name = "f%d_%s.proto" % (i, (f.package.replace(".", "_") or "root"))
            f.comment = self.comment(0.2)
            if not f.package:
                self.hit("package.none")
            self.hit("package.depth%d" % (len(f.package.split(".")) if f.package else 0))

        # per package used names (normalised, flattened)
        used: Dict[str, set] = {p: set() for p in pkgs}
        top_scope: Dict[str, set] = {p: set() for p in pkgs}  # enum value scope at package level
        visible_msgs: List[Tuple[TypeRef, str]] = []  # (ref, file)
        visible_enums: List[Tuple[TypeRef, str, Enum]] = []

        def fresh_type_name(pkg: str, prefix: Tuple[str, ...]) -> str:
            for _ in range(100):
                w = rng.choice(WORDS)
                if rng.random() < 0.3:
                    w = w + rng.choice(WORDS)
                flat = norm("".join(prefix) + w)
                # a nested name must also not collide with an existing flattened name
                if flat not in used[pkg] and norm(w) not in used[pkg]:
                    used[pkg].add(flat)
                    return w
            w = "T%d" % self.uid()
            used[pkg].add(norm("".join(prefix) + w))
            return w

        for fi, f in enumerate(files):
            local_msgs: List[Tuple[Message, Tuple[str, ...]]] = []
            # skeleton -------------------------------------------------
            for _ in range(rng.randint(0, 2)):
                e = self.make_enum(fresh_type_name(f.package, ()), top_scope[f.package])
                f.enums.append(e)
                visible_enums.append((TypeRef("enum", "", f.package, (e.name,)), f.name, e))
            nm = rng.randint(1, 2) if service_profile else rng.randint(1, 3)

            def make_msg(prefix: Tuple[str, ...], depth: int) -> Message:
                m = Message(name=fresh_type_name(f.package, prefix), comment=self.comment())
                path = prefix + (m.name,)
                local_msgs.append((m, path))
                visible_msgs.append((TypeRef("message", "", f.package, path), f.name))
                self.hit("message.depth%d" % depth)
                scope: set = set()
                if rng.random() < (0.2 if service_profile else 0.45):
                    for _ in range(rng.randint(1, 2)):
                        e = self.make_enum(fresh_type_name(f.package, path), scope)
                        m.enums.append(e)
                        visible_enums.append((TypeRef("enum", "", f.package, path + (e.name,)), f.name, e))
                        self.hit("enum.nested")
                if depth < 2 and rng.random() < (0.2 if service_profile else 0.45):
                    for _ in range(rng.randint(1, 2)):
                        m.messages.append(make_msg(path, depth + 1))
                return m

            for _ in range(nm):
                f.messages.append(make_msg((), 0))

            # fields ---------------------------------------------------
            earlier = {g.name for g in files[:fi]}

            def pick_msg() -> TypeRef:
                cands = [r for r, fn in visible_msgs if fn == f.name or fn in earlier]
                r = rng.choice(cands)
                return r

            def pick_enum() -> Optional[TypeRef]:
                cands = [r for r, fn, _ in visible_enums if fn == f.name or fn in earlier]
                return rng.choice(cands) if cands else None

            def note_import(t: TypeRef) -> None:
                if t.kind == "wkt":
                    imp = WKT_FILE[t.name]
                elif t.kind in ("message", "enum"):
                    imp = next(fn for r, fn in
                               ([(r, fn) for r, fn in visible_msgs] + [(r, fn) for r, fn, _ in visible_enums])
                               if r == t)
                    if imp == f.name:
                        return
                    if t.pkg != f.package:
                        self.hit("ref.cross_package")
                    else:
                        self.hit("ref.cross_file")
                else:
                    return
                if imp not in f.imports:
                    f.imports.append(imp)

            def value_type(allow_wkt: bool = True) -> TypeRef:
                r = rng.random()
                if r < 0.45:
                    return scalar(self.deck("scalar", SCALARS))
                if r < 0.6:
                    e = pick_enum()
                    if e:
                        return e
                    return scalar(self.deck("scalar", SCALARS))
                if r < 0.8 or not allow_wkt:
                    return pick_msg()
                w = self.deck("wkt", WKT_ALL)
                self.hit("wkt." + w)
                return wkt(w)

            for m, path in local_msgs:
                nf = rng.randint(0, 5) if service_profile else rng.randint(0, 9)
                if rng.random() < 0.05:
                    nf = 0
                    self.hit("message.empty")
                used_names: set = set()
                nums = rng.sample(sorted(set(FIELD_NUMBERS)), 14)
                rng.shuffle(nums)
                # prefer small numbers mostly
                nums = sorted(nums, key=lambda z: (rng.random() < 0.3, rng.random()))

                def fname() -> str:
                    for _ in range(100):
                        if rng.random() < 0.3:
                            n = self.deck("special", self.special)
                            sp = True
                        else:
                            n = rng.choice(FIELD_WORDS)
                            sp = False
                        if norm(n) not in used_names:
                            used_names.add(norm(n))
                            if sp:
                                self.hit("field.special_name")
                            return n
                    n = "f%d" % self.uid()
                    used_names.add(norm(n))
                    return n

                me_ref = TypeRef("message", "", f.package, path)
                i = 0
                while i < nf and nums:
                    r = rng.random()
                    if r < 0.14:  # oneof group with 1..3 members
                        g = rng.choice(["choice", "kind", "type", "payload_kind", "from", "one_of"])
                        while norm(g) in used_names:
                            g = g + "_%d" % self.uid()
                        used_names.add(norm(g))
                        for _ in range(rng.randint(1, 3)):
                            if not nums:
                                break
                            t = value_type()
                            note_import(t)
                            m.fields.append(Field(fname(), nums.pop(), t, "singular", oneof=g, comment=self.comment(0.15)))
                            self.hit("oneof.member." + t.kind)
                            i += 1
                        self.hit("oneof")
                        continue
                    if r < 0.28:  # map
                        k = self.deck("mapkey", MAP_KEYS)
                        t = value_type(allow_wkt=(rng.random() < 0.5 and not service_profile))
                        note_import(t)
                        m.fields.append(Field(fname(), nums.pop(), t, "map", map_key=k, comment=self.comment(0.15)))
                        self.hit("map.key." + k)
                        self.hit("map.value." + t.kind)
                    elif r < 0.42:
                        t = value_type(allow_wkt=not service_profile)
                        note_import(t)
                        m.fields.append(Field(fname(), nums.pop(), t, "repeated", comment=self.comment(0.15)))
                        self.hit("repeated." + t.kind)
                    elif r < 0.56:
                        t = value_type()
                        note_import(t)
                        m.fields.append(Field(fname(), nums.pop(), t, "optional", comment=self.comment(0.15)))
                        self.hit("optional." + t.kind)
                    elif r < 0.64:  # explicit recursion
                        lab = rng.choice(["singular", "repeated", "map", "optional"])
                        m.fields.append(Field(fname(), nums.pop(), me_ref, lab,
                                              map_key=self.deck("mapkey", MAP_KEYS) if lab == "map" else None))
                        self.hit("recursive.self")
                    else:
                        t = value_type()
                        note_import(t)
                        m.fields.append(Field(fname(), nums.pop(), t, "singular", comment=self.comment(0.15)))
                        self.hit("singular." + t.kind)
                        if t.kind == "scalar":
                            self.hit("scalar." + t.name)
                    i += 1
                for fld in m.fields:
                    if fld.type.kind == "scalar":
                        self.hit("scalar." + fld.type.name)
            # mutual recursion inside the file
            if len(local_msgs) >= 2 and rng.random() < 0.5:
                (a, pa), (b, pb) = rng.sample(local_msgs, 2)
                for src, dst_path in ((a, pb), (b, pa)):
                    taken = {x.number for x in src.fields}
                    num = next(n for n in range(30, 60) if n not in taken)
                    names = {norm(x.name) for x in src.fields} | {norm(x.oneof) for x in src.fields if x.oneof}
                    nme = "peer"
                    while norm(nme) in names:
                        nme += "_%d" % self.uid()
                    src.fields.append(Field(nme, num, TypeRef("message", "", f.package, dst_path), "singular"))
                self.hit("recursive.mutual")

            # services -------------------------------------------------
            ns = rng.randint(1, 2) if service_profile else rng.choice([0, 0, 1, 1, 2])
            for _ in range(ns):
                sv = Service(name=fresh_type_name(f.package, ()) + rng.choice(["Service", "Api", "", "RPC"]),
                             comment=self.comment())
                used[f.package].add(norm(sv.name))
                mnames: set = set()
                for _ in range(rng.randint(1, 5) if service_profile else rng.randint(0, 4)):
                    base = rng.choice(["Get", "List", "Stream", "Put", "do_thing", "GetURL", "Import",
                                       "sendHTTP2Frame", "Watch", "from", "Update_Item", "X"])
                    mn = base
                    while norm(mn) in mnames:
                        mn = base + "%d" % self.uid()
                    mnames.add(norm(mn))

                    def rpc_type() -> TypeRef:
                        if rng.random() < 0.2:
                            w = rng.choice(["Empty", "Timestamp", "Duration", "StringValue", "Int64Value",
                                            "Struct", "BoolValue", "FieldMask"])
                            self.hit("rpc.wkt")
                            return wkt(w)
                        return pick_msg()

                    ti, to = rpc_type(), rpc_type()
                    note_import(ti)
                    note_import(to)
                    cs, ss = self.deck("cardinality", self.cards)
                    sv.methods.append(Method(mn, ti, to, cs == "s", ss == "s", comment=self.comment(0.15)))
                    self.hit("rpc." + cs + ss)
                    if ti.kind == "message" and ti.pkg != f.package or to.kind == "message" and to.pkg != f.package:
                        self.hit("rpc.cross_package")
                f.services.append(sv)
                self.hit("service")
        # `deprecated` options (a separate random stream, so the schemas themselves are those of earlier runs): the
        # plugin emits a __post_init__ / a warning for them, everything else must be as for any other message
        drng = random.Random(self.rng.random())
        for f in files:
            def walk(ms):
                for m in ms:
                    if drng.random() < 0.08:
                        m.deprecated = True
                        self.hit("deprecated.message")
                    for fl in m.fields:
                        if drng.random() < 0.06:
                            fl.deprecated = True
                            self.hit("deprecated.field." + ("oneof" if fl.oneof else fl.label))
                    walk(m.messages)
            walk(f.messages)
            for sv in f.services:
                for me in sv.methods:
                    if drng.random() < 0.15:
                        me.deprecated = True
                        self.hit("deprecated.method")
        return Schema(files=files, features=dict(self.feat))


def gen_schema(seed: int, profile: str = "full", tricky_comments: bool = False, risky_names: bool = True,
               client_streaming=True) -> Schema:
    return SchemaGen(seed, profile, tricky_comments, risky_names, client_streaming).generate()


# --------------------------------------------------------------------------
# ablations: used to attribute an import error / plugin crash to one feature
# --------------------------------------------------------------------------
def _all_messages(s: Schema):
    def rec(m: Message):
        yield m
        for x in m.messages:
            yield from rec(x)
    for f in s.files:
        for m in f.messages:
            yield from rec(m)


def _all_enums(s: Schema):
    for f in s.files:
        yield from f.enums
    for m in _all_messages(s):
        yield from m.enums


def ablate(s: Schema, what: str) -> Schema:
    import copy
    s = copy.deepcopy(s)
    if what in ("comments-tricky", "comments-all"):
        def keep(c):
            if c is None or what == "comments-all":
                return None
            return None if c in COMMENTS_TRICKY else c
        for f in s.files:
            f.comment = keep(f.comment)
            for sv in f.services:
                sv.comment = keep(sv.comment)
                for me in sv.methods:
                    me.comment = keep(me.comment)
        for m in _all_messages(s):
            m.comment = keep(m.comment)
            for fl in m.fields:
                fl.comment = keep(fl.comment)
        for e in _all_enums(s):
            e.comment = keep(e.comment)
            e.value_comments = {k: v for k, v in ((k, keep(v)) for k, v in e.value_comments.items()) if v}
    elif what == "builtin-type-names":
        for m in _all_messages(s):
            for i, fl in enumerate(m.fields):
                if fl.name in BUILTIN_TYPE_NAMES:
                    fl.name = "plain_%d_%d" % (i, fl.number)
    elif what == "special-names":
        for m in _all_messages(s):
            for i, fl in enumerate(m.fields):
                if fl.name in SPECIAL_FIELD_NAMES:
                    fl.name = "plain_%d_%d" % (i, fl.number)
                if fl.oneof:
                    fl.oneof = "grp_" + norm(fl.oneof)
    elif what == "rpc-streaming":
        for f in s.files:
            for sv in f.services:
                for me in sv.methods:
                    me.client_streaming = me.server_streaming = False
    elif what == "services":
        for f in s.files:
            f.services = []
    elif what in ("maps", "oneofs", "optional", "repeated", "wkt", "enum-fields", "message-fields"):
        for m in _all_messages(s):
            def drop(fl: Field) -> bool:
                if what == "maps":
                    return fl.label == "map"
                if what == "oneofs":
                    return fl.oneof is not None
                if what == "optional":
                    return fl.label == "optional"
                if what == "repeated":
                    return fl.label == "repeated"
                if what == "wkt":
                    return fl.type.kind == "wkt"
                if what == "enum-fields":
                    return fl.type.kind == "enum"
                return fl.type.kind == "message"
            m.fields = [fl for fl in m.fields if not drop(fl)]
    elif what == "enum-odd-numbers":
        for e in _all_enums(s):
            e.values = [(n, i) for i, (n, _) in enumerate(e.values)]
            e.allow_alias = False
    return s


ABLATIONS = ["comments-tricky", "comments-all", "builtin-type-names", "special-names", "rpc-streaming", "services", "maps", "oneofs",
             "optional", "repeated", "wkt", "enum-odd-numbers", "enum-fields", "message-fields"]


# --------------------------------------------------------------------------
# deterministic edge-case probes (all are valid proto3; protoc accepts them)
# --------------------------------------------------------------------------
def edge_schemas() -> List[Tuple[str, Schema]]:
    out: List[Tuple[str, Schema]] = []

    def S(tag: str, pkg: str, msgs=(), enums=(), imports=(), services=()):
        out.append((tag, Schema(files=[File(name="edge.proto", package=pkg, imports=list(imports),
                                            messages=list(msgs), enums=list(enums), services=list(services))],
                                features={"edge." + tag: 1})))

    # deterministic feature cover (always part of the quick tier): every label x type-category combination that the
    # random grammar reaches only with some probability, plus a service with all four cardinalities
    fc = "edge.cover"
    R = lambda *path: TypeRef("message", "", fc, tuple(path))
    E = lambda *path: TypeRef("enum", "", fc, tuple(path))
    S("feature-cover", fc,
      imports=[WKT_FILE["Timestamp"], WKT_FILE["Duration"], WKT_FILE["Int32Value"], WKT_FILE["Empty"]],
      enums=[Enum("Color", [("COLOR_UNSPECIFIED", 0), ("COLOR_RED", 1), ("COLOR_NEG", -3)]),
             Enum("OnNone", [("ON_NONE_IGNORE", 0), ("ON_NONE_FAIL", 1)])],       # type names that END in words the typing compilers emit
      msgs=[
          Message("Leaf", [Field("n", 1, scalar("int32")), Field("s", 2, scalar("string"))]),
          Message("AuthNone", [Field("token", 1, scalar("string"))]),
          Message("NoneHolder", [Field("o_on_none", 1, E("OnNone"), "optional"), Field("o_auth_none", 2, R("AuthNone"), "optional"),
                                 Field("c_on_none", 3, E("OnNone"), oneof="pick"), Field("c_auth_none", 4, R("AuthNone"), oneof="pick"),
                                 Field("r_on_none", 5, E("OnNone"), "repeated"), Field("m_auth_none", 6, R("AuthNone"), "map", map_key="string"),
                                 Field("plain_on_none", 7, E("OnNone"))]),
          Message("Tree", [Field("kids", 1, R("Tree"), "repeated"), Field("parent", 2, R("Tree")), Field("leaf", 3, R("Leaf"))]),
          Message("Cover", [
              Field("ow_i32", 1, wkt("Int32Value"), "optional"), Field("ow_str", 2, wkt("StringValue"), "optional"),
              Field("ow_bool", 3, wkt("BoolValue"), "optional"), Field("w_plain", 4, wkt("Int64Value")),
              Field("rw", 5, wkt("BytesValue"), "repeated"),
              Field("o_msg", 6, R("Leaf"), "optional"), Field("o_enum", 7, E("Color"), "optional"),
              Field("o_ts", 8, wkt("Timestamp"), "optional"), Field("o_str", 9, scalar("string"), "optional"),
              Field("o_i64", 10, scalar("sint64"), "optional"), Field("o_inner", 11, E("Cover", "Kind"), "optional"),
              Field("m_enum", 12, E("Color"), "map", map_key="string"), Field("m_msg", 13, R("Leaf"), "map", map_key="sint64"),
              Field("m_inner", 14, E("Cover", "Kind"), "map", map_key="bool"),
              Field("r_enum", 15, E("Color"), "repeated"), Field("r_dbl", 16, scalar("double"), "repeated"),
              Field("c_ts", 20, wkt("Timestamp"), oneof="choice"), Field("c_du", 21, wkt("Duration"), oneof="choice"),
              Field("c_w", 22, wkt("Int32Value"), oneof="choice"), Field("c_msg", 23, R("Leaf"), oneof="choice"),
              Field("c_str", 24, scalar("string"), oneof="choice"), Field("c_enum", 25, E("Color"), oneof="choice"),
              Field("from", 30, scalar("int32")), Field("class", 31, scalar("string")), Field("camelCase", 32, scalar("bool")),
          ], enums=[Enum("Kind", [("KIND_A", 0), ("KIND_B", 2)])]),
          Message("Old", [Field("a", 1, scalar("int32"), deprecated=True), Field("b", 2, scalar("string")),
                          Field("o", 3, scalar("int64"), "optional", deprecated=True), Field("r", 4, scalar("int32"), "repeated", deprecated=True),
                          Field("m", 5, scalar("string"), "map", map_key="int32", deprecated=True),
                          Field("c_a", 6, scalar("int32"), oneof="pick", deprecated=True), Field("c_b", 7, R("Leaf"), oneof="pick"),
                          Field("sub", 8, R("Leaf"), deprecated=True)], deprecated=True),
          Message("HalfOld", [Field("a", 1, scalar("int32")), Field("gone", 2, scalar("bytes"), deprecated=True),
                              Field("c_a", 6, scalar("int32"), oneof="pick"), Field("c_b", 7, scalar("string"), oneof="pick", deprecated=True)]),
      ],
      services=[Service("CoverSvc", [
          Method("UnaryUnary", R("Leaf"), R("Cover")),
          Method("UnaryStream", R("Leaf"), R("Cover"), False, True),
          Method("StreamUnary", R("Leaf"), R("Cover"), True, False),
          Method("StreamStream", R("Cover"), R("Leaf"), True, True),
          Method("snake_name", R("Tree"), R("Tree")),
          Method("OldCall", R("Old"), R("HalfOld"), deprecated=True),
          Method("OldStream", R("Leaf"), R("Old"), True, True, deprecated=True),
      ]), Service("WktSvc", [
          Method("Now", wkt("Empty"), wkt("Timestamp")),
          Method("Ticks", wkt("Duration"), wkt("Timestamp"), False, True),
          Method("Collect", wkt("Timestamp"), wkt("Duration"), True, False),
          Method("Wrap", wkt("Int32Value"), wkt("StringValue"), True, True),
      ])])

    # RPCs whose request / response types are well-known types, in a package whose messages use none of them (so
    # nothing else imports datetime / timedelta / the bundled google package)
    S("wkt-rpc", "edge.wktrpc", imports=[WKT_FILE["Timestamp"], WKT_FILE["Duration"], WKT_FILE["Int32Value"], WKT_FILE["Empty"]],
      msgs=[Message("Plain", [Field("a", 1, scalar("int32"))])],
      services=[Service("Clock", [
          Method("Now", wkt("Empty"), wkt("Timestamp")),
          Method("Ticks", TypeRef("message", "", "edge.wktrpc", ("Plain",)), wkt("Timestamp"), False, True),
          Method("Collect", wkt("Duration"), TypeRef("message", "", "edge.wktrpc", ("Plain",)), True, False),
          Method("Wrap", wkt("Int32Value"), wkt("StringValue"), True, True),
      ])])
    # message names that shadow typing names used by the template
    S("typing-name-message", "edge.typingnames", msgs=[
        Message("List", [Field("a", 1, scalar("int32"))]),
        Message("Optional", [Field("a", 1, scalar("int32"))]),
        Message("Dict", [Field("a", 1, scalar("int32"))]),
        Message("User", [Field("xs", 1, scalar("int32"), "repeated"),
                         Field("o", 2, scalar("string"), "optional"),
                         Field("m", 3, scalar("string"), "map", map_key="int32")]),
    ])
    # flattening collision: Foo_Bar (top level) vs Foo.Bar (nested)
    S("flatten-collision", "edge.flatten", msgs=[
        Message("Foo", [Field("a", 1, scalar("int32"))], messages=[Message("Bar", [Field("n", 1, scalar("int32"))])]),
        Message("Foo_Bar", [Field("t", 2, scalar("string"))]),
    ])
    # re-casing collision HTTPServer / HttpServer
    S("recase-collision", "edge.recase", msgs=[
        Message("HTTPServer", [Field("a", 1, scalar("int32"))]),
        Message("HttpServer", [Field("b", 2, scalar("string"))]),
    ])
    # builtin-named field followed by a field of that builtin type
    S("builtin-shadow", "edge.builtinshadow", msgs=[
        Message("M", [Field("int", 1, scalar("string")), Field("n", 2, scalar("int32"))]),
    ])
    S("builtin-shadow-generic", "edge.builtinshadow2", msgs=[
        Message("M", [Field("float", 1, scalar("string")), Field("xs", 2, scalar("float"), "repeated"),
                      Field("o", 3, scalar("double"), "optional")]),
    ])
    # comments that need escaping inside a docstring
    for tag, c in (("comment-triple-quote", 'Has """triple""" quotes'), ("comment-trailing-quote", 'Ends with a quote"'),
                   ("comment-trailing-backslash", "ends with backslash \\"), ("comment-backslash-escape", "path C:\\new\\x41")):
        S(tag, "edge.comments", msgs=[Message("M", [Field("a", 1, scalar("int32"), comment=c)], comment=c)])
    # lower-case message names (valid, if unusual)
    S("lowercase-message", "edge.lower", msgs=[
        Message("outer", [Field("a", 1, scalar("int32"))], messages=[Message("inner", [Field("n", 1, scalar("int32"))])]),
        Message("Holder", [Field("i", 1, TypeRef("message", "", "edge.lower", ("outer", "inner"))),
                           Field("o", 2, TypeRef("message", "", "edge.lower", ("outer",)))]),
    ])
    # capitalised package component
    S("capitalized-package", "edge.Cap", msgs=[
        Message("Target", [Field("a", 1, scalar("int32"))]),
        Message("Holder", [Field("t", 1, TypeRef("message", "", "edge.Cap", ("Target",)))]),
    ])
    # wrappers / Timestamp / Duration as map values and in repeated
    S("wkt-in-map", "edge.wktmap", imports=[WKT_FILE["Timestamp"], WKT_FILE["Duration"], WKT_FILE["Int32Value"]], msgs=[
        Message("M", [Field("ts", 1, wkt("Timestamp"), "map", map_key="string"),
                      Field("du", 2, wkt("Duration"), "map", map_key="int32"),
                      Field("wr", 3, wkt("Int32Value"), "map", map_key="string"),
                      Field("rts", 4, wkt("Timestamp"), "repeated"),
                      Field("rwr", 5, wkt("StringValue"), "repeated")]),
    ])
    # several map fields in one message whose names are related (one a suffix of another on an underscore boundary,
    # or equal once underscores / case are removed: protoc derives FooBarEntry / FoobarEntry, distinct nested types)
    # with different key / value kinds, declared in both orders
    mn = "edge.mapnames"
    S("map-name-neighbours", mn, enums=[Enum("Hue", [("HUE_ZERO", 0), ("HUE_ONE", 1)])], msgs=[
        Message("Item", [Field("n", 1, scalar("int32"))]),
        Message("LongFirst", [Field("foo_bar", 1, scalar("int32"), "map", map_key="string"),
                              Field("bar", 2, scalar("bool"), "map", map_key="int64"),
                              Field("item_count", 3, TypeRef("message", "", mn, ("Item",)), "map", map_key="int32"),
                              Field("count", 4, TypeRef("enum", "", mn, ("Hue",)), "map", map_key="string")]),
        Message("ShortFirst", [Field("bar", 1, scalar("bool"), "map", map_key="int64"),
                               Field("foo_bar", 2, scalar("int32"), "map", map_key="string"),
                               Field("x_bar", 3, scalar("bytes"), "map", map_key="uint32")]),
        Message("SameSquashed", [Field("foo_bar", 1, scalar("int32"), "map", map_key="string"),
                                 Field("foobar", 2, scalar("bool"), "map", map_key="int64")]),
        Message("SameSquashedRev", [Field("foobar", 1, scalar("bool"), "map", map_key="int64"),
                                    Field("foo_bar", 2, scalar("int32"), "map", map_key="string"),
                                    Field("fo_ob_ar", 3, scalar("double"), "map", map_key="sint32")]),
    ])
    # two packages in two files, the first using an enum, a nested enum and a message of the second in every position;
    # only the first file is named on the protoc command line (the second is compiled because it is imported)
    pa, pb = "edge.shop", "edge.shop.money"
    out.append(("cross-file-roots-only", Schema(files=[
        File(name="shop.proto", package=pa, imports=["money.proto"], messages=[
            Message("Order", [Field("currency", 1, TypeRef("enum", "", pb, ("Currency",))),
                              Field("rounding", 2, TypeRef("enum", "", pb, ("Price", "Rounding"))),
                              Field("price", 3, TypeRef("message", "", pb, ("Price",))),
                              Field("accepted", 4, TypeRef("enum", "", pb, ("Currency",)), "repeated"),
                              Field("by_name", 5, TypeRef("enum", "", pb, ("Currency",)), "map", map_key="string"),
                              Field("o_cur", 6, TypeRef("enum", "", pb, ("Currency",)), "optional"),
                              Field("c_cur", 7, TypeRef("enum", "", pb, ("Currency",)), oneof="pay"),
                              Field("c_price", 8, TypeRef("message", "", pb, ("Price",)), oneof="pay")])]),
        File(name="money.proto", package=pb, enums=[Enum("Currency", [("CURRENCY_UNSPECIFIED", 0), ("CURRENCY_EUR", 1), ("CURRENCY_NEG", -2)])],
             messages=[Message("Price", [Field("units", 1, scalar("int64")), Field("currency", 2, TypeRef("enum", "", pb, ("Currency",)))],
                               enums=[Enum("Rounding", [("ROUNDING_NONE", 0), ("ROUNDING_UP", 1)])])]),
    ], features={"edge.cross-file-roots-only": 1, "invocation.roots_only": 1}, invocation="roots")))
    # scale: a message with 140 fields of every kind and label (numbers up to 2**29-1, skipping the reserved
    # 19000..19999), types nested 7 deep referenced from the top, an enum with 160 values reaching both int32 ends, a
    # service with 24 methods
    sp = "edge.scale"
    kinds = ["double", "float", "int32", "int64", "uint32", "uint64", "sint32", "sint64", "fixed32", "fixed64", "sfixed32", "sfixed64",
             "bool", "string", "bytes"]
    keyk = ["int32", "int64", "uint32", "uint64", "sint32", "sint64", "fixed32", "fixed64", "sfixed32", "sfixed64", "bool", "string"]
    deep_path = ("L1", "L2", "L3", "L4", "L5", "L6", "L7")
    inner = Message("L7", [Field("v", 1, scalar("int32"))], enums=[Enum("Bottom", [("BOTTOM_ZERO", 0), ("BOTTOM_ONE", 1)])])
    for nm in reversed(deep_path[:-1]):
        inner = Message(nm, [Field("here", 1, scalar("string"))], messages=[inner])
    big_fields = []
    numbers = [i + 1 for i in range(100)] + [18999, 20000, 65535, 65536, 2**21 - 1, 2**21, 2**28 - 1, 2**28, 2**28 + 1, 2**29 - 1]
    numbers += [30000 + i for i in range(30)]
    for i, num in enumerate(numbers):
        k = kinds[i % len(kinds)]
        lab = ("singular", "repeated", "optional", "map", "singular")[i % 5]
        if i % 17 == 3:
            t = TypeRef("message", "", sp, deep_path)
        elif i % 17 == 9:
            t = TypeRef("enum", "", sp, deep_path + ("Bottom",))
        elif i % 17 == 12:
            t = TypeRef("enum", "", sp, ("Wide",))
        else:
            t = scalar(k)
        big_fields.append(Field("f%03d_%s" % (i, lab[:3]), num, t, lab, map_key=keyk[i % len(keyk)] if lab == "map" else None))
    wide_vals = [("WIDE_ZERO", 0)] + [("WIDE_P%d" % i, i * 13421772) for i in range(1, 80)] + [("WIDE_N%d" % i, -i * 13421772) for i in range(1, 79)]
    wide_vals += [("WIDE_MAX", 2**31 - 1), ("WIDE_MIN", -2**31)]
    S("scale", sp, enums=[Enum("Wide", wide_vals)], msgs=[inner, Message("Big", big_fields),
                                                         Message("Req", [Field("id", 1, scalar("int64"))])],
      services=[Service("ManyMethods", [Method("Call%02d" % i, TypeRef("message", "", sp, ("Req",)), TypeRef("message", "", sp, ("Big",) if i % 2 else deep_path),
                                               bool(i & 1) and i % 3 == 0, i % 4 == 1) for i in range(24)])])
    # packages alpha.beta and alpha_beta referenced from one module: both get the import alias __alpha_beta__
    out.append(("alias-collision-packages", Schema(files=[
        File(name="ab1.proto", package="alpha.beta", messages=[Message("Point", [Field("x", 1, scalar("int32"))])]),
        File(name="ab2.proto", package="alpha_beta", messages=[Message("Tree", [Field("n", 1, scalar("int32"))])]),
        File(name="user.proto", package="omega.v1", imports=["ab1.proto", "ab2.proto"], messages=[
            Message("Holder", [Field("p", 1, TypeRef("message", "", "alpha.beta", ("Point",))),
                               Field("t", 2, TypeRef("message", "", "alpha_beta", ("Tree",)))])],
             services=[Service("AliasSvc", [Method("Watch", TypeRef("message", "", "alpha.beta", ("Point",)), TypeRef("message", "", "alpha_beta", ("Tree",)), True, True),
                                            Method("Get", TypeRef("message", "", "alpha_beta", ("Tree",)), TypeRef("message", "", "alpha.beta", ("Point",)))])]),
    ], features={"edge.alias-collision-packages": 1})))
    # user messages / enums in an ordinary package that carry the NAMES of well-known types, used next to the real ones
    wn = "edge.wktnames"
    U = lambda *path: TypeRef("message", "", wn, tuple(path))
    S("wkt-named-user-types", wn, imports=[WKT_FILE["StringValue"], WKT_FILE["Timestamp"], WKT_FILE["Duration"], WKT_FILE["Empty"]], msgs=[
        Message("StringValue", [Field("text", 1, scalar("string")), Field("lang", 2, scalar("string"))]),
        Message("Int64Value", [Field("units", 1, scalar("int64")), Field("unit_name", 2, scalar("string"))]),
        Message("BoolValue", [Field("flag", 1, scalar("bool")), Field("why", 2, scalar("string"))]),
        Message("Timestamp", [Field("label", 1, scalar("string")), Field("ticks", 2, scalar("int64"))]),
        Message("Duration", [Field("label", 1, scalar("string")), Field("beats", 2, scalar("int32"))]),
        Message("Empty", [Field("not_really", 1, scalar("int32"))]),
        Message("Article", [Field("title", 1, U("StringValue")), Field("aliases", 2, U("StringValue"), "repeated"),
                            Field("price", 3, U("Int64Value"), "optional"), Field("by_lang", 4, U("StringValue"), "map", map_key="string"),
                            Field("text", 5, U("StringValue"), oneof="body"), Field("teaser", 6, U("BoolValue"), oneof="body"),
                            Field("when", 7, U("Timestamp")), Field("lasts", 8, U("Duration")), Field("nothing", 9, U("Empty")),
                            Field("real_title", 10, wkt("StringValue")), Field("real_when", 11, wkt("Timestamp")),
                            Field("real_lasts", 12, wkt("Duration")), Field("real_nothing", 13, wkt("Empty"))]),
    ], services=[Service("Press", [Method("Publish", U("Article"), U("Timestamp")), Method("Stamp", wkt("Timestamp"), U("StringValue"), True, True)])])
    # one package per field kind, each with ONE message that has ONE field: whatever a module needs (datetime / timedelta /
    # typing / bundled-package imports) must come from that field alone
    lonely = [("dur", wkt("Duration"), "singular", None), ("ts", wkt("Timestamp"), "singular", None), ("rdur", wkt("Duration"), "repeated", None),
              ("mts", wkt("Timestamp"), "map", "string"), ("ots", wkt("Timestamp"), "optional", None), ("wrap", wkt("Int32Value"), "singular", None),
              ("rwrap", wkt("StringValue"), "repeated", None), ("emp", wkt("Empty"), "singular", None), ("opt", scalar("int32"), "optional", None),
              ("rep", scalar("string"), "repeated", None), ("map", scalar("bytes"), "map", "int32"), ("one", scalar("bool"), "singular", None)]
    files = []
    for i, (nm, t, lab, mk) in enumerate(lonely):
        fld = Field("only", 1, t, lab, map_key=mk, oneof="pick" if nm == "one" else None)
        files.append(File(name="lonely_%s.proto" % nm, package="edge.lonely.%s" % nm, imports=[WKT_FILE[t.name]] if t.kind == "wkt" else [],
                          messages=[Message("M", [fld])]))
    out.append(("lonely-fields", Schema(files=files, features={"edge.lonely-fields": 1})))
    # field names that differ only in case / underscores but are accepted by protoc
    S("field-recase-collision", "edge.fieldrecase", msgs=[
        Message("M", [Field("HTTPCode", 1, scalar("int32")), Field("http_code", 2, scalar("int32"))]),
    ])
    return out


# --------------------------------------------------------------------------
# C13: systematic cross-package reference schemas
# --------------------------------------------------------------------------
REF_KINDS = ["msg", "nested", "enum", "nested_enum"]
REF_SITES = ["field", "repeated", "map", "oneof"]
STYLE_NAMES = {
    "pascal": {"Target": "Target", "Inner": "Inner", "Color": "Color", "Kind": "Kind"},
    "capitalized": {"Target": "Target", "Inner": "Inner", "Color": "Color", "Kind": "Kind"},
    "lower": {"Target": "target", "Inner": "inner", "Color": "color", "Kind": "kind"},
    # lowerCamel / underscore-first names: an upper-case letter inside, but not at the start of, the type name
    "camel": {"Target": "geoTarget", "Inner": "x2Inner", "Color": "rgbColor", "Kind": "_Kind"},
}


def all_paths(components: List[str], max_depth: int = 3) -> List[str]:
    out = [""]
    frontier = [""]
    for _ in range(max_depth):
        nxt = []
        for p in frontier:
            for c in components:
                nxt.append((p + "." if p else "") + c)
        out += nxt
        frontier = nxt
    return out


def relation(src: str, dst: str) -> Tuple[str, int, int, int]:
    """(relation, up, down, lcp) of the *referenced* package dst as seen from src."""
    a = src.split(".") if src else []
    b = dst.split(".") if dst else []
    lcp = 0
    while lcp < len(a) and lcp < len(b) and a[lcp] == b[lcp]:
        lcp += 1
    up, down = len(a) - lcp, len(b) - lcp
    if a == b:
        rel = "same"
    elif not a:
        rel = "root-to-descendant"
    elif not b:
        rel = "to-root"
    elif down == 0:
        rel = "ancestor"
    elif up == 0:
        rel = "descendant"
    elif up == 1 and down == 1:
        rel = "sibling"
    else:
        rel = "cousin"
    return rel, up, down, lcp


def ref_schema(packages: List[str], edges: List[Tuple[str, str]], style: str = "pascal", with_wkt: bool = True):
    """One types file per package, one refs file per package that has outgoing edges.
    File-level imports are acyclic (refs -> types); package-level dependencies may be cyclic."""
    nm = STYLE_NAMES[style]
    idx = {p: i for i, p in enumerate(packages)}
    files: List[File] = []
    for p in packages:
        i = idx[p]
        target = Message(nm["Target"], [Field("v", 1, scalar("int32"))],
                         messages=[Message(nm["Inner"], [Field("w", 1, scalar("int32"))])],
                         enums=[Enum(nm["Kind"], [("KIND_ZERO", 0), ("KIND_ONE", 1)])])
        files.append(File(name="t%d.proto" % i, package=p, messages=[target],
                          enums=[Enum(nm["Color"], [("COLOR_ZERO", 0), ("COLOR_ONE", 1)])]))

    def tref(dst: str, kind: str) -> TypeRef:
        if kind == "msg":
            return TypeRef("message", "", dst, (nm["Target"],))
        if kind == "nested":
            return TypeRef("message", "", dst, (nm["Target"], nm["Inner"]))
        if kind == "enum":
            return TypeRef("enum", "", dst, (nm["Color"],))
        return TypeRef("enum", "", dst, (nm["Target"], nm["Kind"]))

    refs, rpc_refs = [], []
    by_src: Dict[str, List[str]] = {}
    for s, d in edges:
        by_src.setdefault(s, [])
        if d not in by_src[s]:
            by_src[s].append(d)
    cards = [(False, False), (False, True), (True, False), (True, True)]
    for s, dsts in by_src.items():
        i = idx[s]
        # one holder message per referenced package: betterproto builds class metadata in time
        # quadratic in the number of fields, so a single 240-field holder would dominate the run;
        # all holders (and therefore all import aliases) still coexist in ONE generated module
        holders: List[Message] = []
        svc = Service("Svc")
        imports = []
        for d in dsts:
            j = idx[d]
            hname = "Holder%d" % j
            holder = Message(hname)
            holders.append(holder)
            holder_ref = TypeRef("message", "", s, (hname,))
            num = 0
            if "t%d.proto" % j not in imports:
                imports.append("t%d.proto" % j)
            for kind in REF_KINDS:
                t = tref(d, kind)
                flat = "".join(t.path)
                for site in REF_SITES:
                    num += 1
                    f = Field("f%d_%s_%s" % (j, kind, site), num, t,
                              {"field": "singular", "repeated": "repeated", "map": "map", "oneof": "singular"}[site],
                              map_key="string" if site == "map" else None,
                              oneof=("pick%d" % j) if site == "oneof" else None)
                    holder.fields.append(f)
                    refs.append({"key": "%s|%s|%s|%s" % (s, d, kind, site), "src": s, "dst": d, "kind": kind, "site": site,
                                 "src_module": module_of(s), "holder": hname, "number": num,
                                 "dst_module": module_of(d), "dst_flat": flat,
                                 "dst_kind": "message" if kind in ("msg", "nested") else "enum"})
            # a message that refers to a descendant package AND has a field named like that package's import alias
            # (`from . import x` / `from .x import y as x_y`): the field name must not capture the reference
            sp, dp = (s.split(".") if s else []), (d.split(".") if d else [])
            if len(dp) > len(sp) and dp[:len(sp)] == sp:
                alias = "_".join(dp[len(sp):])
                hname2 = "HolderAlias%d" % j
                t = tref(d, "msg")
                holders.append(Message(hname2, [Field(alias, 1, scalar("int32")), Field("item", 2, t), Field("items", 3, t, "repeated")]))
                for num2, site2 in ((2, "field"), (3, "repeated")):
                    refs.append({"key": "%s|%s|msg|alias-named-sibling-%s" % (s, d, site2), "src": s, "dst": d, "kind": "msg", "site": site2,
                                 "src_module": module_of(s), "holder": hname2, "number": num2,
                                 "dst_module": module_of(d), "dst_flat": "".join(t.path), "dst_kind": "message"})
            for k, kind in enumerate(("msg", "nested")):
                t = tref(d, kind)
                flat = "".join(t.path)
                for site in ("rpc_in", "rpc_out"):
                    cs, ss = cards[(j + k + (site == "rpc_out")) % 4]
                    mname = "R%d%s%s" % (j, "M" if kind == "msg" else "N", "In" if site == "rpc_in" else "Out")
                    svc.methods.append(Method(mname, t if site == "rpc_in" else holder_ref,
                                              holder_ref if site == "rpc_in" else t, cs, ss))
                    rpc_refs.append({"key": "%s|%s|%s|%s" % (s, d, kind, site), "src": s, "dst": d, "kind": kind, "site": site,
                                     "src_module": module_of(s), "service": "Svc", "method": mname,
                                     "route": "/%sSvc/%s" % (s + "." if s else "", mname),
                                     "dst_module": module_of(d), "dst_flat": flat, "dst_kind": "message"})
        if with_wkt:
            holder = Message("HolderW")
            holders.append(holder)
            holder_ref = TypeRef("message", "", s, ("HolderW",))
            num = 0
            for wname, site in (("Empty", "field"), ("FieldMask", "repeated"), ("Value", "map"), ("Any", "oneof")):
                num += 1
                if WKT_FILE[wname] not in imports:
                    imports.append(WKT_FILE[wname])
                holder.fields.append(Field("w_%s" % wname.lower(), num, wkt(wname),
                                           {"field": "singular", "repeated": "repeated", "map": "map", "oneof": "singular"}[site],
                                           map_key="string" if site == "map" else None,
                                           oneof="wpick" if site == "oneof" else None))
                refs.append({"key": "%s|<wkt>|%s|%s" % (s, wname, site), "src": s, "dst": "<wkt>", "kind": "wkt", "site": site,
                             "src_module": module_of(s), "holder": "HolderW", "number": num, "wkt": True,
                             "dst_module": "betterproto.lib.google.protobuf", "dst_flat": wname, "dst_kind": "message"})
            # the same well-known types as FIELDS of the package (there they are unwrapped to datetime / timedelta /
            # Optional[scalar], so no class reference to check): the RPCs below must still resolve to the bundled classes
            for wname in ("Timestamp", "Duration", "Int32Value", "StringValue"):
                num += 1
                if WKT_FILE[wname] not in imports:
                    imports.append(WKT_FILE[wname])
                holder.fields.append(Field("u_%s" % wname.lower(), num, wkt(wname), "repeated" if wname == "Duration" else "singular"))
            for wname, site in (("Empty", "rpc_in"), ("Int32Value", "rpc_out"), ("Timestamp", "rpc_in"), ("Duration", "rpc_out"), ("StringValue", "rpc_in")):
                if WKT_FILE[wname] not in imports:
                    imports.append(WKT_FILE[wname])
                mname = "W%s%s" % (wname, "In" if site == "rpc_in" else "Out")
                svc.methods.append(Method(mname, wkt(wname) if site == "rpc_in" else holder_ref,
                                          holder_ref if site == "rpc_in" else wkt(wname), False, site == "rpc_out"))
                rpc_refs.append({"key": "%s|<wkt>|%s|%s" % (s, wname, site), "src": s, "dst": "<wkt>", "kind": "wkt", "site": site,
                                 "src_module": module_of(s), "service": "Svc", "method": mname, "wkt": True,
                                 "route": "/%sSvc/%s" % (s + "." if s else "", mname),
                                 "dst_module": "betterproto.lib.google.protobuf", "dst_flat": wname, "dst_kind": "message"})
        files.append(File(name="r%d.proto" % i, package=s, imports=imports, messages=holders, services=[svc]))
    return Schema(files=files), refs, rpc_refs
