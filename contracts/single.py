"""Contracts for the single-value layer: payload encoding and record framing
(C09 scalar layer, C16 zig-zag/fixed, C01/C02 encode direction)."""
from pyvc.contracts import FN, LOOP, LEMMA
from pyvc.models_wire import WirePlugin
from contracts import varint as _v

DEPENDS = ['varint']
SPEC_MODULES = ("wire",)
PLUGINS = [WirePlugin()]

TY = ("typed", "KNOWN_KIND(proto_type) and TYV(proto_type, wraps, value)")
FN_RANGE = ("field-number", "1 <= field_number < (1 << 29)")

LEMMAS = [
    LEMMA("ZZ_NONNEG", {"v": "int"}, [], "ZZ(v) >= 0", props=["C16", "C09"]),
    LEMMA("PACK_FMT_TABLE", {"t": "str"}, ["IS_FIXED32(t) or IS_FIXED64(t)"],
          "(FMT(t) == '<f') == (t == 'float') and (FMT(t) == '<d') == (t == 'double')"
          " and (FMT(t) == '<I') == (t == 'fixed32') and (FMT(t) == '<Q') == (t == 'fixed64')"
          " and (FMT(t) == '<i') == (t == 'sfixed32') and (FMT(t) == '<q') == (t == 'sfixed64')",
          props=["C16"], notes="the spec table is injective: each fixed kind has its own format"),
]

CONTRACTS = [
    FN("betterproto._pack_fmt", types={"proto_type": "str"}, returns="str",
       requires=[("fixed-kind", "IS_FIXED32(proto_type) or IS_FIXED64(proto_type)")],
       ensures=[("C16-format-table", "result == FMT(proto_type)")], top=["C16-format-table"],
       props=["C16", "C02"], witness={"proto_type": "sfixed32"}),
    FN("betterproto._preprocess_single",
       types={"proto_type": "str", "wraps": "str", "value": "obj"}, returns="bytes",
       requires=[TY],
       ensures=[("payload", "result == ENCP(proto_type, wraps, value)")], top=["payload"],
       use=[("U64_RANGE", {"x": "as_int(value)"}), ("ZZ_NONNEG", {"v": "as_int(value)"})],
       props=["C16", "C09", "C01", "C02"]),
    FN("betterproto._len_preprocessed_single",
       types={"proto_type": "str", "wraps": "str", "value": "obj"}, returns="int",
       requires=[TY],
       ensures=[("C09-payload-size", "result == len(ENCP(proto_type, wraps, value))"),
                ("size-range", "0 <= result < (1 << 63)")], top=["C09-payload-size"],
       use=[("U64_RANGE", {"x": "as_int(value)"}), ("ZZ_NONNEG", {"v": "as_int(value)"}),
            ("ZIGZAG_RANGE", {"v": "as_int(value)", "n": "64"})],
       props=["C09"]),
    FN("betterproto._serialize_single",
       types={"field_number": "int", "proto_type": "str", "value": "obj", "serialize_empty": "bool", "wraps": "str"},
       returns="bytes",
       requires=[FN_RANGE, TY],
       ensures=[("record", "result == RECS(field_number, proto_type, ENCP(proto_type, wraps, value), serialize_empty, wraps)")],
       top=["record"],
       props=["C09", "C01", "C02", "C06"]),
    FN("betterproto._len_single",
       types={"field_number": "int", "proto_type": "str", "value": "obj", "serialize_empty": "bool", "wraps": "str"},
       returns="int",
       requires=[FN_RANGE, TY],
       ensures=[("C09-record-size", "result == len(RECS(field_number, proto_type, ENCP(proto_type, wraps, value), serialize_empty, wraps))")],
       top=["C09-record-size"],
       props=["C09"]),
]

EXTRA_CONTRACTS = _v.CONTRACTS
LEMMAS = _v.LEMMAS + LEMMAS
