"""Spec helpers for the gRPC call helpers (C11)."""
from spec.wire import B  # noqa


def REP(c: int, n: int) -> bytes:
    """n copies of trace code c"""
    if n <= 0:
        return b""
    return REP(c, n - 1) + B(c)
