"""Systematic schedule exploration of betterproto's AsyncChannel (property C12).

A deterministic, exhaustive-up-to-a-bound explorer of task interleavings.  It runs
the REAL ``AsyncChannel`` on the REAL ``asyncio.Queue`` and a REAL asyncio event
loop (a subclass of ``asyncio.SelectorEventLoop``); the only thing that is replaced
is the *order* in which the callbacks of ``loop._ready`` run: whenever more than one
handle is ready (or a timer could fire) exactly ONE of them - picked by the current
schedule, a list of choice indices - runs and the others stay queued.

Schedules are enumerated by DFS over choice sequences with replay from the start
(stateless model checking).  Optionally (default) a run is cut as soon as it reaches
a choice point whose complete state (tasks, coroutine frames, queue internals, ready
handles, harness bookkeeping) has been seen before.

API
    explore(config, max_schedules) -> dict(schedules, exhausted, failures=[...], ...)
    CONFIGS(tier) -> list of configurations
    replay(config, schedule) -> dict describing what happened
CLI
    python -m standin_misc.sched --tier quick|thorough --seed N
    python -m standin_misc.sched --replay '{"config": {...}, "schedule": [...]}'
"""
import os, sys; sys.path.insert(0, os.path.join(os.environ.get("PYVC_REPO", "/repo"), "src"))  # noqa: E401,E702

import argparse
import asyncio
import asyncio.tasks
import asyncio.timeouts
import heapq
import json
import random
import time
from collections import deque

from betterproto.grpc.util.async_channel import (  # noqa: E402
    AsyncChannel,
    ChannelClosed,
    ChannelDone,
)

PROPERTY = "C12"
_FLUSH = AsyncChannel._AsyncChannel__flush
_PyTask = asyncio.tasks._PyTask  # pure python Task: bound-method callbacks => handle owners are visible
_TIMEOUT = 1000.0  # virtual seconds; time only advances when the scheduler fires a timer



class Item(tuple):
    """a channel item that is hashable and comparable like its (sender, index) pair, but FALSY for odd indices: the channel
    must deliver any object, also the ones whose truth value is False (0, '', an all-default message)"""
    def __bool__(self):
        return self[1] % 2 == 0


class _Pruned(Exception):
    pass


# --------------------------------------------------------------------------------------
# the controlled event loop
# --------------------------------------------------------------------------------------
class SchedLoop(asyncio.SelectorEventLoop):
    """SelectorEventLoop whose ready queue is run one handle at a time, in an order
    dictated by ``run.choose``.  Time is virtual (only advanced by firing a timer)."""

    def __init__(self, run):
        super().__init__()
        self._vt = 0.0
        self._run = run
        self.free_run = False  # True: plain FIFO (used for clean-up)
        self.quiescent = False
        self.pruned = False

    def time(self):
        return self._vt

    def _run_once(self):
        ready = self._ready
        # drop cancelled handles (the stock loop skips them when it reaches them)
        if any(h._cancelled for h in ready):
            live = [h for h in ready if not h._cancelled]
            ready.clear()
            ready.extend(live)
        sched = self._scheduled
        while sched and sched[0]._cancelled:
            h = heapq.heappop(sched)
            h._scheduled = False
        n_ready = len(ready)
        has_timer = bool(sched)
        if self.free_run:
            if n_ready:
                idx = 0
            elif has_timer:
                idx = n_ready
            else:
                self.quiescent = True
                self._stopping = True
                return
        else:
            n = n_ready + (1 if has_timer else 0)
            if n == 0:
                self.quiescent = True
                self._stopping = True
                return
            if n == 1:
                idx = 0
            else:
                try:
                    idx = self._run.choose(n, self)
                except _Pruned:
                    self.pruned = True
                    self._stopping = True
                    return
        if idx < n_ready:
            handle = ready[idx]
            del ready[idx]
            self._run.on_step(handle, False)
        else:  # fire the earliest timer: virtual time jumps to its deadline
            handle = heapq.heappop(sched)
            handle._scheduled = False
            if handle._when > self._vt:
                self._vt = handle._when
            self._run.on_step(handle, True)
        handle._run()
        handle = None


# --------------------------------------------------------------------------------------
# one execution of one configuration under one schedule
# --------------------------------------------------------------------------------------
class _RecvState:
    __slots__ = ("in_receive", "cancel_requested", "cancel_surfaced", "stopped", "finished", "unexpected", "armed")

    def __init__(self):
        self.in_receive = False
        self.cancel_requested = False
        self.cancel_surfaced = False
        self.stopped = False  # gave up after its cancellation (mode "stop")
        self.finished = False  # saw the channel done
        self.unexpected = 0
        self.armed = False  # a wait_for timer is pending for this receiver

    def sig(self):
        return (self.in_receive, self.cancel_requested, self.cancel_surfaced, self.stopped, self.finished,
                self.unexpected, self.armed)


def normalize_config(cfg):
    c = {
        "senders": [1],
        "receivers": ["receive"],
        "buffer_limit": 0,
        "cancel": None,  # {"kind": "cancel"|"timeout", "receiver": i, "mode": "retry"|"stop"}
        "cancel_sender": None,  # i: sender i is cancelled (once, at any point) while one of its sends is in progress
        "send_yield": True,  # senders yield to the loop between two sends
        "recv_yield": False,  # receivers yield to the loop after each received item
        "max_depth": 400,
        "prune": True,
    }
    c.update(cfg or {})
    c["senders"] = [int(x) for x in c["senders"]]
    c["receivers"] = list(c["receivers"])
    if c["cancel"]:
        k = dict(c["cancel"])
        k.setdefault("kind", "cancel")
        k.setdefault("receiver", 0)
        k.setdefault("mode", "retry")
        c["cancel"] = k
    return c


class Run:
    def __init__(self, config, prefix=(), virtual=False, visited=None, seed=0, rng=None, verbose=False):
        self.cfg = config
        self.prefix = list(prefix)
        self.virtual = virtual  # prefix holds DFS-virtual choices (permuted by seed) instead of actual ones
        self.visited = visited
        self.seed = seed
        self.rng = rng  # random walk beyond the prefix
        self.verbose = verbose
        self.trace = []  # (virtual choice, number of alternatives)
        self.actual = []  # actual choice indices: THE schedule, replayable without the seed
        self.depth_capped = False
        self.failures = {}  # match -> detail
        self.events = []
        self.steps = []  # verbose only
        self.ran = set()
        self.terminal_fp = None
        # harness bookkeeping
        self.closed_called = False
        self.cleanup = False
        self.send_status = {}
        self.received = []
        self.received_set = set()
        self.last_idx = {}
        self.loop_errors = []
        self.valid_items = {Item((i, k)) for i, n in enumerate(config["senders"]) for k in range(n)}
        self.rstate = [_RecvState() for _ in config["receivers"]]
        self.rtasks = []
        self.tasks = []  # (name, task) in creation order
        self.names = {}
        self._next_name = None
        self.want_terminal = False

    # ---- scheduling --------------------------------------------------------------
    def _perm(self, depth, n):
        if not self.seed:
            return None
        r = random.Random(self.seed * 1000003 + depth * 7919 + n)
        p = list(range(n))
        r.shuffle(p)
        return p

    def choose(self, n, loop):
        d = len(self.trace)
        if d < len(self.prefix):
            v = self.prefix[d]
            if v >= n:
                raise RuntimeError("replay diverged at choice %d: %d >= %d alternatives" % (d, v, n))
            nn = n
        else:
            if self.visited is not None:
                fp = hash(self.fingerprint(loop))
                if fp in self.visited:
                    raise _Pruned()
                self.visited.add(fp)
            if d >= self.cfg["max_depth"]:
                self.depth_capped = True
                v, nn = 0, 1
            elif self.rng is not None:
                v, nn = self.rng.randrange(n), n
            else:
                v, nn = 0, n
        a = v
        if self.virtual:
            p = self._perm(d, n)
            if p is not None:
                a = p[v]
        self.trace.append((v, nn))
        self.actual.append(a)
        return a

    def on_step(self, handle, is_timer):
        owner = self._owner(handle)
        self.ran.add(owner)
        if is_timer:
            # the only timers in a run are the wait_for deadlines of the armed receiver
            for st in self.rstate:
                if st.armed:
                    st.armed = False
                    st.cancel_requested = True
            self.events.append(("timer-fired",))
        if self.verbose:
            self.steps.append("%s%s" % ("TIMER " if is_timer else "", owner))
            self.events.append(("step", owner))

    def _owner(self, handle):
        cb = handle._callback
        o = getattr(cb, "__self__", None)
        if o is not None:
            nm = self.names.get(id(o))
            if nm is not None:
                return nm
            return type(o).__name__
        return getattr(cb, "__qualname__", repr(cb))

    # ---- state fingerprint (for pruning and for the terminal-state census) --------------
    def _val(self, v, q):
        if v is None or isinstance(v, (int, str, bool, float)):
            return v
        if v is _FLUSH:
            return "F"
        if isinstance(v, tuple):
            return tuple(self._val(x, q) for x in v)
        if asyncio.isfuture(v):
            return self._fut(v, q)
        if isinstance(v, asyncio.timeouts.Timeout):
            return ("TO", v._state.value, v._timeout_handler is not None and not v._timeout_handler._cancelled)
        if isinstance(v, BaseException):
            return ("E", type(v).__name__)
        if isinstance(v, _RecvState):
            return v.sig()
        return type(v).__name__

    def _fut(self, f, q):
        if f is None:
            return None
        nm = self.names.get(id(f))
        if nm is not None:
            return ("T", nm)
        where = "O"
        for i, g in enumerate(q._getters):
            if g is f:
                where = "G%d" % i
                break
        else:
            for i, g in enumerate(q._putters):
                if g is f:
                    where = "P%d" % i
                    break
        return (where, f._state)

    def fingerprint(self, loop):
        ch = self.ch
        q = ch._queue
        val = self._val
        tasks = []
        for nm, t in self.tasks:
            if t.done():
                if t.cancelled():
                    r = "C"
                else:
                    e = t._exception
                    r = type(e).__name__ if e is not None else "ok"
                tasks.append((nm, "D", r))
                continue
            chain = []
            c = t._coro
            while c is not None:
                f = getattr(c, "cr_frame", None)
                if f is None:
                    chain.append(type(c).__name__)
                    break
                loc = tuple(sorted((k, val(v, q)) for k, v in f.f_locals.items() if k != "self"))
                chain.append((c.cr_code.co_name, f.f_lasti, loc))
                c = c.cr_await
            tasks.append((nm, "P", t._must_cancel, t.cancelling(), tuple(chain), self._fut(t._fut_waiter, q)))
        ready = []
        for h in loop._ready:
            if h._cancelled:
                continue
            ready.append((self._owner(h), getattr(h._callback, "__name__", "?"),
                          tuple(val(a, q) for a in (h._args or ()))))
        ready.sort(key=repr)
        timers = sum(1 for h in loop._scheduled if not h._cancelled)
        chv = tuple(sorted((k, val(v, q)) for k, v in vars(ch).items() if k != "_queue"))
        qv = (tuple(val(x, q) for x in q._queue), q._unfinished_tasks, q._maxsize,
              tuple(g._state for g in q._getters), tuple(p._state for p in q._putters))
        harness = (self.closed_called, tuple(sorted(self.send_status.items())),
                   tuple(sorted(self.received_set)), tuple(sorted(self.failures)),
                   tuple(s.sig() for s in self.rstate), len(self.loop_errors), getattr(self, "sender_cancel_requested", None))
        return (tuple(tasks), tuple(ready), timers, chv, qv, harness)

    # ---- failures ------------------------------------------------------------------
    def fail(self, match, detail):
        if self.cleanup:
            return  # whatever happens while the left-over tasks are torn down is not part of the schedule
        if match not in self.failures:
            self.failures[match] = detail
        self.events.append(("FAIL", match))

    # ---- harness coroutines ----------------------------------------------------------
    async def _sender(self, i, n):
        ch = self.ch
        for k in range(n):
            item = Item((i, k))     # every second item is falsy (an all-default message is falsy too)
            was_closed = self.closed_called
            self.send_status[item] = "started"
            try:
                await ch.send(item)
            except ChannelClosed:
                self.send_status[item] = "rejected"
                self.events.append(("send-rejected", item))
                if not self.closed_called:
                    self.fail("C12:spurious-ChannelClosed", "send(%r) raised ChannelClosed before close()" % (item,))
                continue
            except asyncio.CancelledError:
                if self.cleanup:
                    self.send_status[item] = "blocked"
                    raise
                if self.sender_cancel_requested == i:
                    # the caller gave up on this send: the item was not delivered and is owed to nobody
                    self.send_status[item] = "cancelled"
                    self.events.append(("send-cancelled", item))
                    asyncio.current_task().uncancel()
                    return
                self.fail("C12:unexpected-exception:send:CancelledError", "send(%r)" % (item,))
                return
            except Exception as e:  # noqa: BLE001
                self.send_status[item] = "error"
                self.fail("C12:unexpected-exception:send:%s" % type(e).__name__, "send(%r) raised %r" % (item, e))
                continue
            if was_closed:
                self.send_status[item] = "ok-after-close"
                self.fail("C12:send-after-close-accepted",
                          "send(%r) started after close() and returned normally" % (item,))
            elif self.closed_called:
                self.send_status[item] = "ok-after-close"  # blocked put that completed after close()
            else:
                self.send_status[item] = "ok-before-close"
            self.events.append(("sent", item, self.send_status[item]))
            if self.cfg["send_yield"] and k + 1 < n and not self.closed_called:
                await asyncio.sleep(0)

    def _on_item(self, rid, item, kind):
        self.events.append(("recv", rid, item))
        if item not in self.valid_items or self.send_status.get(item) is None:
            self.fail("C12:invented", "receiver %d (%s) got %r which was never sent" % (rid, kind, item))
            return
        if item in self.received_set:
            self.fail("C12:duplicate", "receiver %d got %r a second time" % (rid, item))
        s, k = item
        if k < self.last_idx.get(s, -1):
            self.fail("C12:order", "item %r received after item (%d, %d) of the same sender" % (item, s, self.last_idx[s]))
        self.last_idx[s] = max(k, self.last_idx.get(s, -1))
        self.received.append((rid, item))
        self.received_set.add(item)

    async def _receiver(self, rid, kind):
        ch = self.ch
        st = self.rstate[rid]
        cancel = self.cfg["cancel"]
        use_timeout = bool(cancel and cancel["kind"] == "timeout" and cancel["receiver"] == rid)
        mode = cancel["mode"] if cancel and cancel["receiver"] == rid else "retry"
        me = self.rtasks[rid]
        stop_at_none = kind == "receive_stop"
        if stop_at_none:
            kind = "receive"
        while True:
            try:
                if use_timeout:
                    # first attempt only: a real asyncio.wait_for whose timer the scheduler may fire at any point
                    use_timeout = False
                    st.in_receive = True
                    st.armed = True
                    try:
                        if kind == "receive":
                            r = await asyncio.wait_for(ch.receive(), _TIMEOUT)
                        else:
                            r = await asyncio.wait_for(ch.__anext__(), _TIMEOUT)
                    finally:
                        st.armed = False
                        st.in_receive = False
                    if r is None:
                        self.events.append(("recv-none", rid))
                        if kind != "receive":
                            self.fail("C12:invented", "iteration of receiver %d produced None" % rid)
                        elif stop_at_none:
                            st.finished = True
                            return
                    else:
                        self._on_item(rid, r, kind)
                        if self.cfg["recv_yield"]:
                            await asyncio.sleep(0)
                    continue
                if kind == "receive":
                    st.in_receive = True
                    try:
                        r = await ch.receive()
                    finally:
                        st.in_receive = False
                    if r is None:
                        self.events.append(("recv-none", rid))
                        if stop_at_none:
                            # the common `while (x := await ch.receive()) is not None` consumer
                            st.finished = True
                            return
                        # "closed" result; keep receiving until the channel is done
                        continue
                    self._on_item(rid, r, kind)
                    if self.cfg["recv_yield"]:
                        await asyncio.sleep(0)
                    continue
                else:
                    st.in_receive = True
                    try:
                        async for r in ch:
                            st.in_receive = False
                            if r is None:
                                self.fail("C12:invented", "iteration of receiver %d produced None" % rid)
                            else:
                                self._on_item(rid, r, kind)
                            if self.cfg["recv_yield"]:
                                await asyncio.sleep(0)
                            st.in_receive = True
                    finally:
                        st.in_receive = False
                    st.finished = True
                    self.events.append(("iter-end", rid))
                    return
            except (ChannelDone, StopAsyncIteration):
                st.finished = True
                self.events.append(("done", rid))
                return
            except asyncio.CancelledError:
                if self.cleanup:
                    raise
                if st.cancel_requested and not st.cancel_surfaced:
                    st.cancel_surfaced = True
                    me.uncancel()
                    self.events.append(("cancelled", rid))
                    if mode == "stop":
                        st.stopped = True
                        return
                    continue
                self.fail("C12:unexpected-exception:CancelledError", "receiver %d cancelled without a request" % rid)
                return
            except TimeoutError:
                if st.cancel_requested and not st.cancel_surfaced:
                    st.cancel_surfaced = True
                    self.events.append(("timeout", rid))
                    if mode == "stop":
                        st.stopped = True
                        return
                    continue
                self.fail("C12:unexpected-exception:TimeoutError", "receiver %d: TimeoutError without the timer firing" % rid)
                return
            except Exception as e:  # noqa: BLE001
                if self.cleanup:
                    return
                st.unexpected += 1
                self.events.append(("exc", rid, type(e).__name__))
                if st.cancel_requested and not st.cancel_surfaced:
                    st.cancel_surfaced = True  # it did surface, as the wrong exception
                    me.uncancel()
                    self.fail("C12:cancel-masked-by-%s" % type(e).__name__,
                              "receiver %d was cancelled / timed out while blocked but %s(%s) came out instead of the "
                              "cancellation" % (rid, type(e).__name__, e))
                else:
                    self.fail("C12:unexpected-exception:%s" % type(e).__name__,
                              "receiver %d (%s): %s(%s) escaped" % (rid, kind, type(e).__name__, e))
                if st.unexpected >= 3:
                    st.stopped = True
                    return
                continue

    async def _closer(self):
        self.closed_called = True
        self.events.append(("close",))
        self.ch.close()

    async def _sender_canceller(self, i):
        t = self.stasks[i]
        busy = [it for it, st in self.send_status.items() if it[0] == i and st == "started"]
        if busy and not t.done() and self.sender_cancel_requested is None:
            self.sender_cancel_requested = i
            self.events.append(("cancel-sender", i))
            t.cancel()
        else:
            self.events.append(("cancel-sender-skipped", i))

    async def _canceller(self, rid):
        st = self.rstate[rid]
        t = self.rtasks[rid]
        if st.in_receive and not t.done() and not st.cancel_requested:
            st.cancel_requested = True
            self.events.append(("cancel", rid))
            t.cancel()
        else:
            self.events.append(("cancel-skipped", rid))

    async def _probe(self, out):
        # after everything is quiet: a future receive / iteration must terminate, a send must be refused
        ch = self.ch
        try:
            await ch.send(("probe", 0))
            out["send"] = "accepted"
        except ChannelClosed:
            out["send"] = "ChannelClosed"
        except Exception as e:  # noqa: BLE001
            out["send"] = type(e).__name__
        out["recv"] = "blocked"
        out["drained"] = []
        try:
            for _ in range(len(self.valid_items) + len(self.rstate) + 3):
                r = await ch.receive()
                if r is None:
                    out["recv"] = "None"
                    continue
                out["drained"].append(r)  # an item that was still sitting in the closed channel
            else:
                out["recv"] = "endless"
        except ChannelDone:
            out["recv"] = "ChannelDone"
        except asyncio.CancelledError:
            raise
        except Exception as e:  # noqa: BLE001
            out["recv"] = type(e).__name__
        out["iter"] = "blocked"
        try:
            async for r in ch:
                pass
            out["iter"] = "end"
        except asyncio.CancelledError:
            raise
        except Exception as e:  # noqa: BLE001
            out["iter"] = type(e).__name__

    # ---- driver ----------------------------------------------------------------------
    def _factory(self, loop, coro, **kw):
        t = _PyTask(coro, loop=loop, **kw)
        # (create_task() applies its name= only after the factory returns and the default "Task-N" counter is
        # process global, so deterministic names are kept here)
        nm = self._next_name
        self._next_name = None
        if nm is None:
            nm = "%s#%d" % (getattr(coro, "__name__", "task").lstrip("_"), len(self.tasks))
        self.tasks.append((nm, t))
        self.names[id(t)] = nm
        return t

    def _spawn(self, loop, coro, name):
        self._next_name = name
        return loop.create_task(coro, name=name)

    def execute(self):
        cfg = self.cfg
        loop = SchedLoop(self)
        self.loop = loop
        loop.set_task_factory(self._factory)
        loop.set_exception_handler(lambda lp, ctx: self.loop_errors.append(ctx))
        try:
            asyncio.events._set_running_loop(None)
            self.ch = AsyncChannel(buffer_limit=cfg["buffer_limit"])
            # creation order = FIFO order of the first steps = the stock asyncio schedule for choice 0
            self.stasks = []
            self.sender_cancel_requested = None
            for i, n in enumerate(cfg["senders"]):
                self.stasks.append(self._spawn(loop, self._sender(i, n), "S%d" % i))
            for rid, kind in enumerate(cfg["receivers"]):
                self.rtasks.append(self._spawn(loop, self._receiver(rid, kind), "R%d" % rid))
            self._spawn(loop, self._closer(), "closer")
            if cfg["cancel"] and cfg["cancel"]["kind"] == "cancel":
                self._spawn(loop, self._canceller(cfg["cancel"]["receiver"]), "canceller")
            if cfg["cancel_sender"] is not None:
                self._spawn(loop, self._sender_canceller(cfg["cancel_sender"]), "sender-canceller")
            loop.run_forever()
            if loop.pruned:
                self.outcome = "pruned"
            else:
                self.outcome = "complete"
                self._final_checks(loop)
        finally:
            self._cleanup(loop)
        return self

    def _final_checks(self, loop):
        cfg = self.cfg
        if self.visited is not None or self.verbose or self.want_terminal:
            self.terminal_fp = hash(self.fingerprint(loop))
        flush = [t for nm, t in self.tasks if nm.startswith("flush_queue")]
        flush_done = all(t.done() for t in flush)
        stranded = [rid for rid, t in enumerate(self.rtasks) if not t.done()]
        if stranded:
            self.fail("C12:stranded-receiver",
                      "nothing is runnable, close() was called%s, but receiver(s) %s are still blocked; queue=%r "
                      "waiting_receivers=%r" % (" and the flush task has finished" if flush_done else
                                                " (flush task itself is blocked)", stranded,
                                                [self._val(x, self.ch._queue) for x in self.ch._queue._queue],
                                                self.ch._waiting_receivers))
        for nm, t in self.tasks:
            if t.done() and not t.cancelled() and t.exception() is not None:
                self.fail("C12:unexpected-exception:task:%s" % type(t.exception()).__name__,
                          "task %s died with %r" % (nm, t.exception()))
        for ctx in self.loop_errors:
            e = ctx.get("exception")
            self.fail("C12:unexpected-exception:loop:%s" % (type(e).__name__ if e else "message"),
                      str(ctx.get("message")))
        if not stranded:
            out = {}
            loop.free_run = True
            loop.quiescent = False
            loop._stopping = False
            p = self._spawn(loop, self._probe(out), "probe")
            loop.run_forever()
            if out.get("send") != "ChannelClosed":
                self.fail("C12:send-after-close-accepted", "send on the closed channel: %s" % out.get("send"))
            if not p.done() or out.get("recv") == "blocked" or out.get("iter") == "blocked":
                self.fail("C12:receive-after-close-blocks", "a receive / iteration started after everything was "
                          "quiet never terminated: %r" % (out,))
            for k in ("recv", "iter"):
                if out.get(k) not in ("None", "ChannelDone", "end", "blocked"):
                    self.fail("C12:unexpected-exception:%s" % out.get(k), "late %s raised %s" % (k, out.get(k)))
            self.probe = out
        live = [rid for rid, st in enumerate(self.rstate) if st.finished]
        lost = sorted(it for it, s in self.send_status.items() if s == "ok-before-close" and it not in self.received_set)
        drained = list(getattr(self, "probe", {}).get("drained", ()))
        if any(st.stopped for st in self.rstate):
            # a receiver that gave up after its cancellation is not one that "keeps receiving until done": an item
            # that was earmarked for it and can still be taken from the channel afterwards is not lost
            lost = [it for it in lost if it not in drained]
        if lost and (live or stranded):
            after_cancel = any(st.cancel_requested for st in self.rstate)
            self.fail("C12:item-lost-after-cancel" if after_cancel else "C12:item-lost",
                      "item(s) %r were sent before close() but never received although receiver(s) %r ran until the "
                      "channel was done (still retrievable from the closed channel afterwards: %r)" % (lost, live, drained))

    def _cleanup(self, loop):
        self.cleanup = True
        try:
            loop.free_run = True
            for _ in range(5):
                pending = [t for nm, t in self.tasks if not t.done()]
                if not pending:
                    break
                for t in pending:
                    t.cancel()
                loop.quiescent = False
                loop._stopping = False
                loop.run_forever()
            for nm, t in self.tasks:
                if t.done() and not t.cancelled():
                    t.exception()
                else:
                    t._log_destroy_pending = False
        finally:
            asyncio.events._set_running_loop(None)
            loop.close()

    def summary(self):
        return {
            "outcome": self.outcome,
            "schedule": list(self.actual),
            "received": [[rid, list(it)] for rid, it in self.received],
            "send_status": {"%d.%d" % k: v for k, v in sorted(self.send_status.items())},
            "failures": dict(self.failures),
        }

    def detail(self, match):
        ev = " ".join("/".join(str(x) for x in e) for e in self.events if e[0] != "step")
        return "%s | events: %s" % (self.failures[match], ev[:600])


# --------------------------------------------------------------------------------------
# exploration
# --------------------------------------------------------------------------------------
def _public_config(cfg):
    return {k: cfg[k] for k in ("senders", "receivers", "buffer_limit", "cancel", "send_yield", "recv_yield",
                                "max_depth", "prune")}


def explore(config, max_schedules=20000, seed=0, keep_per_key=3, collect_terminals=False, deadline=None):
    """DFS over choice sequences with replay from the start.

    Returns dict(schedules=<complete runs>, pruned=<runs cut at an already visited state>, exhausted=<bool>,
    failures=[{match, schedule, config, detail}], failure_counts={match: n}, nontrivial=<int>, ...).
    """
    cfg = normalize_config(config)
    pub = _public_config(cfg)
    visited = set() if cfg["prune"] else None
    terminals = set()
    distinct = set()
    failures, counts = [], {}
    kept = {}
    complete = pruned = nontrivial = 0
    exhausted = False
    depth_capped = False
    max_choice_points = 0
    samples = []
    prefix = []
    runs = 0
    dfs_budget = max_schedules if max_schedules <= 50 else int(max_schedules * 0.8)

    def account(run):
        nonlocal complete, pruned, nontrivial, depth_capped, max_choice_points
        if run.outcome == "pruned":
            pruned += 1
        else:
            complete += 1
            if collect_terminals and run.terminal_fp is not None:
                terminals.add(run.terminal_fp)
        depth_capped = depth_capped or run.depth_capped
        max_choice_points = max(max_choice_points, len(run.trace))
        if run.trace and len(run.ran) >= 2:
            key = hash(tuple(run.actual))
            if key not in distinct:  # DFS runs are distinct by construction, random walks may repeat
                distinct.add(key)
                nontrivial += 1
            if len(samples) < 2 and run.outcome == "complete" and len(run.actual) >= 3:
                samples.append({"config": pub, "schedule": list(run.actual)})
        for m in run.failures:
            counts[m] = counts.get(m, 0) + 1
            if kept.get(m, 0) < keep_per_key:
                kept[m] = kept.get(m, 0) + 1
                failures.append({"match": m, "schedule": list(run.actual), "config": pub, "detail": run.detail(m)})

    dfs_deadline = None
    if deadline is not None:
        now = time.monotonic()
        dfs_deadline = now + 0.75 * max(0.0, deadline - now)
    while runs < dfs_budget:
        if dfs_deadline is not None and time.monotonic() > dfs_deadline:
            break
        run = Run(cfg, prefix=prefix, virtual=True, visited=visited, seed=seed)
        run.want_terminal = collect_terminals
        run.execute()
        runs += 1
        account(run)
        trace = run.trace
        while trace and trace[-1][0] + 1 >= trace[-1][1]:
            trace.pop()
        if not trace:
            exhausted = True
            break
        prefix = [v for v, _ in trace[:-1]] + [trace[-1][0] + 1]
    if depth_capped:
        exhausted = False
    random_runs = 0
    if not exhausted:
        # the DFS only varied the tail of the schedule: spend the rest of the budget on seeded random walks
        rng = random.Random(seed * 7919 + 17)
        while runs < max_schedules:
            if deadline is not None and time.monotonic() > deadline:
                break
            run = Run(cfg, prefix=(), visited=None, rng=rng).execute()
            runs += 1
            random_runs += 1
            account(run)
    res = {
        "schedules": complete,
        "pruned": pruned,
        "random": random_runs,
        "exhausted": exhausted,
        "depth_capped": depth_capped,
        "max_choice_points": max_choice_points,
        "states": len(visited) if visited is not None else None,
        "nontrivial": nontrivial,
        "failures": failures,
        "failure_counts": counts,
        "config": pub,
        "samples": samples,
    }
    if collect_terminals:
        res["terminals"] = terminals
    return res


def replay(config, schedule, verbose=True):
    cfg = normalize_config(config)
    run = Run(cfg, prefix=schedule, virtual=False, visited=None, verbose=verbose)
    run.execute()
    out = run.summary()
    out["config"] = _public_config(cfg)
    out["steps"] = run.steps
    out["events"] = ["/".join(str(x) for x in e) for e in run.events if e[0] != "step"]
    out["probe"] = getattr(run, "probe", None)
    out["details"] = {m: run.detail(m) for m in run.failures}
    return out


# --------------------------------------------------------------------------------------
# configurations
# --------------------------------------------------------------------------------------
def _cfg(senders, receivers, buf=0, cancel=None, **kw):
    c = {"senders": list(senders), "receivers": list(receivers), "buffer_limit": buf, "cancel": cancel}
    c.update(kw)
    return c


def CONFIGS(tier="quick"):
    R, A, RS = "receive", "aiter", "receive_stop"
    can = lambda r=0, kind="cancel", mode="retry": {"kind": kind, "receiver": r, "mode": mode}  # noqa: E731
    if tier == "quick":
        return [
            _cfg([1], [R]),
            _cfg([1], [A]),
            _cfg([2], [R], buf=1),
            _cfg([3], [A], buf=1),
            _cfg([2], [R, R]),
            _cfg([2], [R, A], buf=1),
            _cfg([2], [A, A], buf=2),
            _cfg([1, 1], [R]),
            _cfg([1, 1], [R, A], buf=1),
            _cfg([2, 1], [R, R]),
            _cfg([1], [R, R, R]),
            _cfg([1], [R, R, A], buf=1),
            _cfg([2], [A, A, R], buf=1),
            _cfg([1], [R], cancel=can()),
            _cfg([1], [A], cancel=can()),
            _cfg([1], [R], cancel=can(kind="timeout")),
            _cfg([1], [A], cancel=can(kind="timeout")),
            _cfg([2], [R, R], cancel=can()),
            _cfg([1], [R, R], cancel=can(mode="stop")),
            _cfg([2], [R, A], buf=1, cancel=can(1)),
            _cfg([1], [R, R], buf=1, cancel=can(kind="timeout")),
            _cfg([1, 1], [R, R], cancel=can()),
            _cfg([1], [R, R, R], buf=1, cancel=can()),
            _cfg([1], [R, R], recv_yield=True),
            _cfg([2], [A, R], buf=1, recv_yield=True, cancel=can()),
            _cfg([2], [R, R, R], buf=2),
            _cfg([1], [RS, RS, RS], buf=1),
            _cfg([2], [RS, RS], buf=1, cancel=can()),
            _cfg([2, 2], [R, A], buf=1),
            _cfg([2, 1], [R, A, RS], buf=2, cancel=can(kind="timeout")),
            _cfg([3], [R, R], buf=1, cancel=can(mode="stop")),
            # a sender that gives up (cancelled while its send is in progress, e.g. blocked on a full buffer)
            _cfg([2], [R], buf=1, cancel_sender=0),
            _cfg([2, 2], [R], buf=1, cancel_sender=1),
            _cfg([1, 1, 1], [A], buf=1, cancel_sender=2),
            _cfg([2, 1], [R, A], buf=1, cancel_sender=0),
            _cfg([3], [RS, R], buf=2, cancel_sender=0),
            _cfg([2], [R], cancel_sender=0),
        ]
    # thorough: the full quantifier
    senders = [[1], [2], [3], [1, 1], [2, 1], [2, 2], [3, 1], [3, 2], [3, 3]]
    receivers = [[R], [A], [R, R], [R, A], [A, A], [R, R, R], [R, R, A], [R, A, A], [A, A, A]]
    out = []
    for s in senders:
        for r in receivers:
            for buf in (0, 1, 2):
                cancels = [None, can(0), can(0, kind="timeout")]
                if len(set(r)) > 1:
                    cancels.append(can(len(r) - 1))  # the receiver of the other kind
                if len(r) > 1:
                    cancels.append(can(0, mode="stop"))
                for c in cancels:
                    out.append(_cfg(s, r, buf=buf, cancel=c))
    # consumers that stop at the first None
    for s in ([1], [2], [1, 1], [2, 2]):
        for r in ([RS], [RS, RS], [RS, RS, RS], [RS, R], [RS, A]):
            for buf in (0, 1, 2):
                for c in (None, can(0), can(0, kind="timeout")):
                    out.append(_cfg(s, r, buf=buf, cancel=c))
    # a sender that gives up while its send is in progress
    for s in ([2], [3], [1, 1], [2, 2], [1, 1, 1], [2, 1, 1]):
        for r in ([R], [A], [R, R], [R, A], [RS, R]):
            for buf in (0, 1, 2):
                for cs in range(len(s)):
                    out.append(_cfg(s, r, buf=buf, cancel_sender=cs))
    # a few with receivers that yield after each item
    for s in ([2], [1, 1]):
        for r in ([R, R], [R, A]):
            for buf in (0, 1):
                out.append(_cfg(s, r, buf=buf, recv_yield=True))
                out.append(_cfg(s, r, buf=buf, recv_yield=True, cancel=can(0)))
    return out


def _size(cfg):
    return sum(cfg["senders"]) + 2 * len(cfg["receivers"]) + (2 if cfg.get("cancel") else 0) + (2 if cfg.get("cancel_sender") is not None else 0) + \
        (2 if cfg.get("recv_yield") else 0)


def run_tier(tier, seed=0, budget_s=None, max_schedules=None):
    cfgs = CONFIGS(tier)
    if budget_s is None:
        budget_s = 50.0 if tier == "quick" else 570.0
    if max_schedules is None:
        max_schedules = 60000 if tier == "quick" else 1000000
    t0 = time.monotonic()
    order = sorted(range(len(cfgs)), key=lambda i: _size(cfgs[i]))  # cheap ones first, big ones share what is left
    results = [None] * len(cfgs)
    for pos, i in enumerate(order):
        remaining = budget_s - (time.monotonic() - t0)
        share = max(0.05, remaining / (len(order) - pos))
        results[i] = explore(cfgs[i], max_schedules=max_schedules, seed=seed, deadline=time.monotonic() + share)
    cases = sum(r["schedules"] + r["pruned"] for r in results)
    failures = []
    n_fail = 0
    counts = {}
    for r in results:
        for m, n in r["failure_counts"].items():
            counts[m] = counts.get(m, 0) + n
            n_fail += n
    seen = {}
    for r in results:  # first one failure per key per config, keys round-robin, up to 30
        for f in r["failures"]:
            k = (f["match"], json.dumps(f["config"], sort_keys=True))
            if k in seen:
                continue
            seen[k] = 1
            failures.append(f)
    failures.sort(key=lambda f: (sum(1 for g in failures if g["match"] == f["match"]), f["match"]))
    by_key = {}
    for f in failures:
        by_key.setdefault(f["match"], []).append(f)
    rr = []
    while any(by_key.values()) and len(rr) < 30:
        for k in sorted(by_key):
            if by_key[k] and len(rr) < 30:
                rr.append(by_key[k].pop(0))
    samples = []
    shapes = set()
    for r in sorted(results, key=lambda r: -r["max_choice_points"]):
        shape = json.dumps([r["config"]["senders"], r["config"]["receivers"]])
        if r["samples"] and len(samples) < 3 and shape not in shapes:
            shapes.add(shape)
            samples.append(r["samples"][-1])
    return {
        "property": PROPERTY,
        "tier": tier,
        "seed": seed,
        "cases": cases,
        "complete_schedules": sum(r["schedules"] for r in results),
        "pruned_at_visited_state": sum(r["pruned"] for r in results),
        "distinct_nontrivial": sum(r["nontrivial"] for r in results),
        "configs": len(cfgs),
        "exhausted_configs": sum(1 for r in results if r["exhausted"]),
        "failures": rr,
        "failure_counts": counts,
        "n_failures": n_fail,
        "samples": samples,
        "repo": os.environ.get("PYVC_REPO", "/repo"),
        "seconds": round(time.monotonic() - t0, 1),
    }


def main(argv=None):
    ap = argparse.ArgumentParser(prog="standin_misc.sched")
    ap.add_argument("--tier", default="quick", choices=["quick", "thorough"])
    ap.add_argument("--seed", type=int, default=0)
    ap.add_argument("--budget", type=float, default=None, help="wall clock budget in seconds for the tier")
    ap.add_argument("--max-schedules", type=int, default=None, help="cap per configuration")
    ap.add_argument("--replay", default=None, help="JSON with config + schedule (one entry of 'failures')")
    a = ap.parse_args(argv)
    try:
        if a.replay:
            spec = json.loads(a.replay)
            print(json.dumps(replay(spec["config"], spec["schedule"]), indent=1, default=str))
        else:
            print(json.dumps(run_tier(a.tier, a.seed, a.budget, a.max_schedules), default=str))
    except Exception as e:  # noqa: BLE001  (exit code is always 0)
        import traceback
        print(json.dumps({"property": PROPERTY, "error": "%s: %s" % (type(e).__name__, e),
                          "traceback": traceback.format_exc()[-2000:], "cases": 0, "failures": [], "n_failures": 0}))
    return 0


if __name__ == "__main__":
    sys.exit(main())
