"""C01 — binary round trip."""
AREAS = ["varint", "single", "frame", "msg", "msgload", "time"]
LEVEL = "other"
EXPLANATION = (
    "Proved per link (unbounded): scalar inverses (VDEC(VARINT(v)) == v, UNZZ(ZZ(v)) == v, SX(U64(v), n) == v, TS/DUR round "
    "trips); encode side: dump writes WIRE(self) for a symbolic class; record layer: load_fields yields exactly the records "
    "of the buffer (number, wire type, payload, raw); decode side: Message.load applies each record per the merge "
    "semantics (singular last-wins with DECV, repeated append / packed extend, oneof selection, unknown kept) and "
    "_postprocess_single == DECV; C06_EMISSION_FOLLOWS_PRESENCE ties emission to presence. The composition "
    "'FOLD(APPLY, fresh, FIELDS(WIRE(m))) ~ m' over the field list is NOT machine-checked (A-FOLD); the bounded stand-in "
    "exercises the whole round trip on the corpus. Level therefore 'other' (proof per link + bounded composition).")
ASSUMED = ["A-FOLD composition of the per-record step contracts", "A-STRUCT / A-UTF8 inverse pairs (pack/unpack, encode/decode)",
           "C-SUBPARSE nested payloads one level down (induction on depth not machine-checked)"]
from pyvc.check import standin_bounded
from pyvc.check import external_bounded
BOUNDED = [standin_bounded("C01"),
           external_bounded("deep-schema:C01", "standin.deep", ["C01", "--n", "150"], ["C01", "--n", "800"],
                            "nested schema (containers of oneof-carrying / field-less messages, two-level lazy parents, float maps, Duration JSON strings); observation-based oracle")]
