"""Model of a grpclib client/server stream for the call helpers (C11): every operation on the stream is appended to
a ghost trace; messages sent are collected in order.  grpclib itself is assumed (A-GRPCLIB).

trace codes: 1 send_request()  2 send_message(m)  3 end()  4 send_message(m, end=True)  5 recv_message()
             6 cancel of the sending task
"""
import z3

from .sym import SV, NONE, IntS, BoolS, StrS, PyObj, sv_int, sv_bool, sv_str, sv_tuple, to_obj, concrete_str
from .exec import Unsupported, Raised, fresh
from .speclib import OBJSEQ

TRACE_S = z3.SeqSort(IntS)  # same sort as bytes: the trace is handled as a byte-like sequence of codes
CARD = {"UNARY_UNARY": 0, "UNARY_STREAM": 1, "STREAM_UNARY": 2, "STREAM_STREAM": 3}


class GrpcPlugin:
    SPEC_NAMES = {"TRACE", "SENT", "REQ_ROUTE", "REQ_CARD", "REQ_TYPE", "RESP_TYPE", "REQ_TIMEOUT", "REQ_DEADLINE", "REQ_METADATA",
                  "OPENED", "RESPONSES", "NRESP", "RECEIVED", "SRC_N", "SRC_ITEM", "SRC_SEQ", "STUB_TIMEOUT", "STUB_DEADLINE", "STUB_METADATA",
                  "TYPE_OF", "CARD", "HANDLER_ARG", "HANDLER_CALLS", "CLOSED_ITER", "HANDLER_ITEMS", "RPOS"}

    def make_model_param(self, ex, st, p, model):
        if model == "stub":
            for a in ("timeout", "deadline", "metadata"):
                c = z3.Const(f"stub.{a}", PyObj)
                st.heap[("self", a)] = SV("obj", c)
                ex.inputs[f"stub.{a}"] = c
            st.heap[("self", "channel")] = SV("ref", "channel", "gchannel")
            self.init_stream(ex, st)
            return SV("ref", "self", "cls:betterproto.grpc.grpclib_client.ServiceStub")
        if model == "gstream":
            self.init_stream(ex, st)
            return SV("ref", "gs", "gstream")
        if model == "source":
            n = z3.Int(f"{p}.n")
            xs = z3.Const(f"{p}.items", OBJSEQ)
            st.assume(n >= 0)
            st.assume(z3.Length(xs) == n)
            ex.inputs[f"{p}.n"] = n
            return SV("source", {"n": n, "xs": xs, "is_async": z3.Bool(f"{p}.is_async")})
        if model == "pytype":
            c = z3.Const(p, PyObj)
            ex.inputs[p] = c
            return SV("obj", c)
        if model == "handler":
            return SV("func", ("handler", p))
        if model == "servicebase":
            return SV("ref", "self", "cls:betterproto.grpc.grpclib_server.ServiceBase")
        return None

    def init_stream(self, ex, st):
        if ("gs", "trace") in st.heap:
            return
        st.heap[("gs", "trace")] = SV("bytes", z3.Empty(TRACE_S))
        st.heap[("gs", "sent")] = SV("objseq", z3.Empty(OBJSEQ))
        st.heap[("gs", "received")] = SV("objseq", z3.Empty(OBJSEQ))
        st.heap[("gs", "opened")] = sv_int(0)
        resp = z3.Const("stream.responses", OBJSEQ)
        st.ghost["$responses"] = SV("objseq", resp)      # immutable input: what the peer will send
        st.heap[("gs", "rpos")] = sv_int(0)
        st.heap[("$S", "handler_calls")] = sv_int(0)
        st.heap[("$S", "closed_iter")] = sv_bool(False)
        ex.inputs["stream.responses"] = resp

    def spec_has(self, name):
        return name in self.SPEC_NAMES

    def spec_call(self, ex, name, pos, st):
        h = st.heap
        simple = {"TRACE": ("gs", "trace"), "SENT": ("gs", "sent"), "REQ_ROUTE": ("gs", "route"), "REQ_CARD": ("gs", "card"),
                  "REQ_TYPE": ("gs", "req_type"), "RESP_TYPE": ("gs", "resp_type"), "REQ_TIMEOUT": ("gs", "timeout"),
                  "REQ_DEADLINE": ("gs", "deadline"), "REQ_METADATA": ("gs", "metadata"), "OPENED": ("gs", "opened"),
                  "RECEIVED": ("gs", "received"), "RPOS": ("gs", "rpos"),
                  "STUB_TIMEOUT": ("self", "timeout"), "STUB_DEADLINE": ("self", "deadline"), "STUB_METADATA": ("self", "metadata"),
                  "HANDLER_CALLS": ("$S", "handler_calls"), "CLOSED_ITER": ("$S", "closed_iter"), }
        if name in simple:
            if simple[name] not in h:
                raise Unsupported(f"{name}: no such event yet")
            return h[simple[name]]
        if name == "RESPONSES":
            return st.ghost["$responses"]
        if name == "NRESP":
            return sv_int(z3.Length(st.ghost["$responses"].t))
        if name in ("HANDLER_ARG", "HANDLER_ITEMS"):
            if "$" + name not in st.ghost:
                raise Unsupported(f"{name}: the handler was not called")
            return st.ghost["$" + name]
        if name == "SRC_N":
            return sv_int(pos[0].t["n"])
        if name == "SRC_ITEM":
            return SV("obj", pos[0].t["xs"][ex.as_int(pos[1], st)])
        if name == "SRC_SEQ":
            return SV("objseq", pos[0].t["xs"])
        if name == "TYPE_OF":
            return SV("obj", TYPE_OF(to_obj(pos[0])))
        if name == "CARD":
            return sv_int(CARD[concrete_str(pos[0].t)])
        raise Unsupported(name)

    # -------------------------------------------------------------------------------------------
    def _log(self, st, code):
        t = st.heap[("gs", "trace")].t
        st.heap[("gs", "trace")] = SV("bytes", z3.Concat(t, z3.Unit(z3.IntVal(code))))

    def getattr_hook(self, ex, st, v, attr):
        if v.extra and str(v.extra).startswith("cls:"):
            attr2 = attr
            if (v.t, attr2) in st.heap:
                return None
            return [(st, SV("func", ("method", v, attr2)))]
        if v.extra in ("gchannel", "gstream"):
            return [(st, SV("func", ("method", v, attr)))]
        return None

    def attr_hook(self, ex, st, v, attr):
        if v.kind in ("ctx_stream", "aw", "genobj"):
            return [(st, SV("func", ("method", v, attr)))]
        return None

    def value_attr_hook(self, ex, st, v, attr):
        return None

    def builtin_value(self, ex, name):
        if name.startswith("grpclib.const.Cardinality.") and name.split(".")[-1] in CARD:
            return sv_int(CARD[name.split(".")[-1]])
        return None

    def call_builtin(self, ex, name, pos, kw, st, node):
        if name == "type" and len(pos) == 1:
            return [(st, SV("obj", TYPE_OF(to_obj(pos[0]))))]
        if name.startswith("grpclib.const.Cardinality."):
            return [(st, sv_int(CARD[name.split(".")[-1]]))]
        if name == "isinstance" and pos and pos[0].kind == "source":
            n = pos[1].t[1].split(".")[-1] if pos[1].kind == "func" else ""
            if n == "AsyncIterable":
                return [(st, sv_bool(pos[0].t["is_async"]))]
        if name == "isinstance" and pos and pos[0].kind == "genobj":
            return [(st, sv_bool(pos[0].t["is_async"]))]
        if name == "asyncio.ensure_future" and pos and pos[0].kind == "aw" and pos[0].t[0] == "coroutine:_send_messages":
            # the sending task runs concurrently; its effect is the contract of _send_messages (verified separately)
            st2 = st.clone()
            st2.heap[("gs", "sender_scheduled")] = sv_bool(True)
            st2.heap[("gs", "sender_source")] = pos[0].t[1][1]
            return [(st2, SV("task", "sender"))]
        return None

    def call_method(self, ex, recv, name, pos, kw, st, node):
        if recv.kind == "ref" and recv.extra == "gchannel" and name == "request":
            st2 = st.clone()
            self.init_stream(ex, st2)
            st2.heap[("gs", "opened")] = sv_int(st2.heap[("gs", "opened")].t + 1)
            st2.heap[("gs", "route")] = pos[0]
            st2.heap[("gs", "card")] = sv_int(ex.as_int(pos[1], st))
            st2.heap[("gs", "req_type")] = SV("obj", to_obj(pos[2]))
            st2.heap[("gs", "resp_type")] = SV("obj", to_obj(pos[3]))
            for a in ("timeout", "deadline", "metadata"):
                if a not in kw:
                    raise Unsupported(f"channel.request without {a}")
                st2.heap[("gs", a)] = SV("obj", to_obj(kw[a]))
            ex.assumption("A-GRPCLIB")
            return [(st2, SV("ctx_stream", "gs"))]
        if recv.kind == "ref" and recv.extra == "gstream":
            if name == "send_request":
                st2 = st.clone()
                self._log(st2, 1)
                return [(st2, SV("aw", ("done", NONE)))]
            if name == "send_message":
                end = kw.get("end")
                st2 = st.clone()
                if end is not None and ex.feasible_true(st, ex.truth(end)):
                    self._log(st2, 4)
                else:
                    self._log(st2, 2)
                s = st2.heap[("gs", "sent")].t
                st2.heap[("gs", "sent")] = SV("objseq", z3.Concat(s, z3.Unit(to_obj(pos[0]))))
                return [(st2, SV("aw", ("done", NONE)))]
            if name == "end":
                st2 = st.clone()
                self._log(st2, 3)
                return [(st2, SV("aw", ("done", NONE)))]
            if name == "recv_message":
                st2 = st.clone()
                self._log(st2, 5)
                rp = st2.heap[("gs", "rpos")].t
                resp = st2.ghost["$responses"].t
                v = z3.If(rp < z3.Length(resp), resp[rp], PyObj.PNone)
                st2.heap[("gs", "rpos")] = sv_int(rp + 1)
                return [(st2, SV("aw", ("done", SV("obj", v))))]
        if recv.kind == "ref" and recv.extra and str(recv.extra).startswith("cls:"):
            cls = recv.extra[4:]
            short = cls.split(".")[-1]
            plain = name[len("_" + short):] if name.startswith("_" + short + "__") else name
            q = f"{cls}.{plain}"
            if plain == "_send_messages":
                return [(st, SV("aw", ("coroutine:_send_messages", pos)))]
            return list(ex.call_repo(q, pos, kw, st, node, recv=recv))
        if recv.kind == "task" and name == "cancel":
            st2 = st.clone()
            self._log(st2, 6)
            return [(st2, NONE)]
        if recv.kind == "genobj" and name == "close":
            st2 = st.clone()
            st2.heap[("$S", "closed_iter")] = sv_bool(True)
            return [(st2, NONE)]
        return None

    def call_other(self, ex, tag, pos, kw, st, node):
        if tag[0] == "handler":
            # the user's handler is called with the request; it returns an async iterator (or a plain generator)
            st2 = st.clone()
            st2.heap[("$S", "handler_calls")] = sv_int(st2.heap[("$S", "handler_calls")].t + 1)
            st2.ghost["$HANDLER_ARG"] = SV("obj", to_obj(pos[0]))
            n = z3.Int("handler.n")
            xs = z3.Const("handler.items", OBJSEQ)
            st2.assume(n >= 0)
            st2.assume(z3.Length(xs) == n)
            st2.ghost["$HANDLER_ITEMS"] = SV("objseq", xs)
            return [(st2, SV("genobj", {"n": n, "xs": xs, "is_async": z3.Bool("handler.is_async")}))]
        return None

    def await_hook(self, ex, st, aw):
        op, payload = aw.t
        if op == "done":
            return [(st, payload)]
        if op == "coroutine:_send_messages":
            # awaiting the coroutine = running _send_messages here: its contract
            stream, src = payload
            q = "betterproto.grpc.grpclib_client.ServiceStub._send_messages"
            return list(ex.call_repo(q, [stream, src], {}, st, None))
        return None

    def iter_hook(self, ex, st, itv):
        if itv.kind == "source":
            return itv.t["n"], (lambda k: SV("obj", itv.t["xs"][k]))
        if itv.kind == "genobj":
            return itv.t["n"], (lambda k: SV("obj", itv.t["xs"][k]))
        if itv.kind == "ref" and itv.extra == "gstream":
            # `async for message in stream`: the responses, in order
            resp = st.ghost["$responses"].t
            return z3.Length(resp), (lambda k: SV("obj", resp[k]))
        return None

    def modified_keys(self, ex, v):
        if v.extra in ("gstream",) or (v.extra and str(v.extra).startswith("cls:")):
            return ["gs", "$S"]
        return None


TYPE_OF = z3.Function("TYPE_OF", PyObj, PyObj)

GRPC_ASSUMPTIONS = {
    "A-GRPCLIB": "grpclib: Channel.request(route, cardinality, request_type, reply_type, timeout=, deadline=, metadata=) opens a stream to the handler "
                 "registered under `route`; messages are delivered intact and in order; status, deadline and metadata propagate",
}
