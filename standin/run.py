"""CLI of the bounded stand-in:

    python -m standin.run <PROP> --n <cases per class> --seed <int> [--classes A,B]

Prints ONE JSON object on stdout.  Exit code is always 0.
"""
import os
import sys

sys.path.insert(0, os.path.join(os.environ.get("PYVC_REPO", "/repo"), "src"))

import argparse
import json
import random
import time
import traceback
import zlib


def _safe_repr(m, limit=300):
    try:
        return repr(m)[:limit]
    except Exception as e:
        return "<repr raises %s>" % type(e).__name__


def main(argv=None):
    ap = argparse.ArgumentParser(prog="standin.run")
    ap.add_argument("prop")
    ap.add_argument("--n", type=int, default=200, help="max cases per class")
    ap.add_argument("--seed", type=int, default=1)
    ap.add_argument("--classes", default="")
    ap.add_argument("--max-failures", type=int, default=50)
    ap.add_argument("--time-budget", type=float, default=0.0, help="soft wall-clock budget in seconds (0 = none)")
    args = ap.parse_args(argv)

    out = {
        "property": args.prop,
        "cases": 0,
        "distinct_nontrivial": 0,
        "failures": [],
        "n_failures": 0,
        "samples": [],
        "match_counts": {},
        "bounded": True,
        "seed": args.seed,
        "n_per_class": args.n,
        "repo": os.environ.get("PYVC_REPO", "/repo"),
    }
    t0 = time.time()
    try:  # a mis-decoded value can make the library allocate without bound
        import resource

        lim = 3 * 1024**3 // 2
        soft, hard = resource.getrlimit(resource.RLIMIT_AS)
        if hard == resource.RLIM_INFINITY or hard > lim:
            resource.setrlimit(resource.RLIMIT_AS, (lim, hard))
    except Exception:
        pass

    def record(cls_name, how, rep, fail):
        out["n_failures"] += 1
        mc = out["match_counts"]
        first = fail.match not in mc
        mc[fail.match] = mc.get(fail.match, 0) + 1
        # keep one example of every kind, then fill up to the cap
        if len(out["failures"]) < args.max_failures and (first or mc[fail.match] <= 2):
            out["failures"].append({"class": cls_name, "how": how, "repr": rep, "detail": fail.detail, "match": fail.match})

    try:
        from . import corpus as C
        from . import relations as R
        from .relcommon import Fail
    except Exception as e:
        out["n_failures"] = 1
        out["failures"].append(
            {
                "class": "<import>",
                "how": "importing the stand-in / betterproto",
                "repr": "",
                "detail": "".join(traceback.format_exception_only(type(e), e)).strip()[:600] + " | " + traceback.format_exc()[-600:],
                "match": "%s:harness:import-raises" % args.prop,
            }
        )
        out["match_counts"] = {"%s:harness:import-raises" % args.prop: 1}
        print(json.dumps(out))
        return 0

    rel = R.PROPERTIES.get(args.prop)
    if rel is None:
        out["error"] = "unknown property %r (known: %s)" % (args.prop, ", ".join(sorted(R.PROPERTIES)))
        print(json.dumps(out))
        return 0

    try:
        for p in C.selfcheck():
            record("<corpus>", "selfcheck", "", Fail("%s:harness:corpus-selfcheck" % args.prop, p))
    except Exception as e:
        record("<corpus>", "selfcheck", "", Fail("%s:harness:corpus-selfcheck-raises" % args.prop, repr(e)))

    wanted = [c for c in args.classes.split(",") if c]
    classes = [c for c in C.ALL_CLASSES if not wanted or c.__name__ in wanted]
    applies = getattr(rel, "applies", None)
    static = getattr(rel, "static", None)

    if static is not None:
        try:
            out["cases"] += 1
            for f in static(random.Random(args.seed)):
                record("<static>", "instance-independent checks", "", f)
        except Exception as e:
            record("<static>", "instance-independent checks", "", Fail("%s:harness:static-crash" % args.prop, traceback.format_exc()[-600:]))

    truncated = False
    hangs = 0
    from .deep import LibraryHang, watchdog
    for cls in classes:
        cseed = args.seed * 1000003 + zlib.crc32(cls.__name__.encode())
        gen_rnd = random.Random(cseed)
        rel_rnd = random.Random(cseed ^ 0x5F5F)
        try:
            it = C.values(cls, gen_rnd, args.n)
            while True:
                try:
                    m = next(it)
                except StopIteration:
                    break
                except Exception as e:
                    record(cls.__name__, "<generator>", "", Fail("%s:harness:generator-raises" % args.prop, traceback.format_exc()[-600:]))
                    break
                try:
                    if applies is not None and not applies(m):
                        continue
                except Exception:
                    pass
                out["cases"] += 1
                nontrivial = not C.is_default_instance(m)
                if nontrivial:
                    out["distinct_nontrivial"] += 1
                how = C.how(m)
                rep = _safe_repr(m)
                if nontrivial and len(out["samples"]) < 3 and out["cases"] % 7 == 3:
                    out["samples"].append(rep)
                try:
                    with watchdog(how):
                        fails = rel(m, rel_rnd)
                except LibraryHang:
                    fails = [Fail("%s:operation-does-not-terminate" % args.prop, "the relation on this instance was still running after %d s" % watchdog.LIMIT)]
                    hangs += 1
                except Exception as e:
                    fails = [Fail("%s:harness:relation-crash" % args.prop, traceback.format_exc()[-700:])]
                for f in fails:
                    record(cls.__name__, how, rep, f)
                if hangs >= 2:
                    record(cls.__name__, "(run stopped)", "", Fail("%s:operation-does-not-terminate" % args.prop, "two evaluations did not terminate: the remaining instances were not evaluated"))
                    truncated = True
                    break
                if args.time_budget and time.time() - t0 > args.time_budget:
                    truncated = True
                    break
        except Exception as e:
            record(cls.__name__, "<class loop>", "", Fail("%s:harness:class-loop-crash" % args.prop, traceback.format_exc()[-600:]))
        if truncated:
            break

    for how_, err in C.GENERATOR_ERRORS:
        record(how_.split(":")[0], how_, "", Fail("%s:harness:generator-raises" % args.prop, err))

    if args.prop == "C17":
        try:
            from ._rel_c import c17_stats

            out["info"] = {"reference_agreement": c17_stats()}
        except Exception:
            pass
    out["truncated_by_time_budget"] = truncated
    out["elapsed_s"] = round(time.time() - t0, 2)
    out["match_counts"] = dict(sorted(out["match_counts"].items()))
    print(json.dumps(out))
    return 0


if __name__ == "__main__":
    try:
        main()
    except SystemExit:
        raise
    except BaseException as e:  # never a non-zero exit because of a crash
        print(json.dumps({"property": sys.argv[1] if len(sys.argv) > 1 else None, "cases": 0, "distinct_nontrivial": 0, "failures": [{"class": "<run>", "how": "", "repr": "", "detail": traceback.format_exc()[-800:], "match": "harness:run-crash"}], "n_failures": 1, "samples": []}))
    sys.exit(0)
