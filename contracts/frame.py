"""Contracts for record framing on the decode side: load_fields / parse_fields (C08 C10 C17; used by C01 C02).

Step contract of a generator: the clauses `yields` hold at every yield (P = position at the start of that
record), `ends` hold when the generator finishes.  The clauses are taken from the property statements:
raw is exactly the record's bytes (C08), no truncated payload / invalid tag is ever yielded (C17), the generator
ends only at a record boundary (C10)."""
from pyvc.contracts import FN, LOOP, LEMMA
from pyvc.models_wire import WirePlugin
from contracts import varint as _v

DEPENDS = ['varint']
SPEC_MODULES = ("wire",)
PLUGINS = [WirePlugin()]
LEMMAS = _v.LEMMAS

TAG = "VDEC(D0[P:(P + VLEN(D0[P:]))])"


def _yields(pos, data):
    """clauses over the yielded ParsedField; `pos` = expression for the position after the record."""
    return [
        ("C08-raw-is-exactly-the-record", f"yielded.raw == {data}[P:{pos}]".format(pos=pos, data=data)),
        ("C17-progress", f"{pos} > P".format(pos=pos)),
        ("C17-no-truncated-payload", f"{pos} <= len({data})".format(pos=pos, data=data)),
        ("C17-valid-tag", "yielded.number >= 1 and (yielded.wire_type == 0 or yielded.wire_type == 1"
                          " or yielded.wire_type == 2 or yielded.wire_type == 5)"),
        ("tag", f"yielded.number == {TAG} // 8 and yielded.wire_type == {TAG} % 8".format(TAG=TAG)),
        ("payload-varint", f"implies(yielded.wire_type == 0, is_pint(yielded.value) and as_int(yielded.value) >= 0 and as_int(yielded.value) =="
                           f" VDEC(D0[(P + VLEN(D0[P:])):(P + VLEN(D0[P:])) + VLEN(D0[(P + VLEN(D0[P:])):])]) and {pos} == (P + VLEN(D0[P:])) + VLEN(D0[(P + VLEN(D0[P:])):]))".format(pos=pos)),
        ("payload-fixed64", f"implies(yielded.wire_type == 1, is_bytes(yielded.value) and len(as_bytes(yielded.value)) == 8"
                            f" and as_bytes(yielded.value) == D0[(P + VLEN(D0[P:])):(P + VLEN(D0[P:])) + 8] and {pos} == (P + VLEN(D0[P:])) + 8)".format(pos=pos)),
        ("payload-fixed32", f"implies(yielded.wire_type == 5, is_bytes(yielded.value) and len(as_bytes(yielded.value)) == 4"
                            f" and as_bytes(yielded.value) == D0[(P + VLEN(D0[P:])):(P + VLEN(D0[P:])) + 4] and {pos} == (P + VLEN(D0[P:])) + 4)".format(pos=pos)),
        ("payload-len", f"implies(yielded.wire_type == 2, is_bytes(yielded.value)"
                        f" and len(as_bytes(yielded.value)) == VDEC(D0[(P + VLEN(D0[P:])):(P + VLEN(D0[P:])) + VLEN(D0[(P + VLEN(D0[P:])):])])"
                        f" and as_bytes(yielded.value) == D0[(P + VLEN(D0[P:])) + VLEN(D0[(P + VLEN(D0[P:])):]):{pos}]"
                        f" and {pos} == (P + VLEN(D0[P:])) + VLEN(D0[(P + VLEN(D0[P:])):]) + len(as_bytes(yielded.value)))".format(pos=pos)),
    ]


CONTRACTS = [
    FN("betterproto._read_exactly", types={"stream": "stream", "size": "int"}, returns="bytes", modifies=["stream"],
       requires=[("size-nonneg", "size >= 0")],
       ghost={"P0": "stream.pos", "D0": "stream.data"},
       ensures=[("exact", "result == D0[P0:P0 + size] and len(result) == size and stream.pos == P0 + size"
                          " and stream.data == D0 and P0 + size <= len(D0)")],
       raises=[("EOFError", "iff", "len(stream.data) - stream.pos < size")],
       top=["exact"], props=["C17", "C10", "C08"], witness={"stream": (b"abcdef", 1), "size": 3}),
    FN("betterproto.load_fields", generator=True,
       types={"stream": "stream"}, modifies=["stream"],
       ghost={"D0": "stream.data"},
       loops={0: LOOP(inv=[("frame", "stream.data == D0 and 0 <= stream.pos <= len(D0)")],
                      ghost_head={"P": "stream.pos"})},
       yields=_yields("stream.pos", "D0") + [("frame", "stream.data == D0")],
       ends=[("C10-ends-only-at-a-record-boundary", "P == len(D0) and stream.pos == len(D0)"), ("frame", "stream.data == D0")],
       raises=[("ValueError", "may", ""), ("EOFError", "may", "")],
       assert_after_assign={"number": ["stream.pos == P + len(raw) and len(raw) == VLEN(D0[P:]) and num_wire == VDEC(D0[P:P + len(raw)])"
                                       " and raw == D0[P:P + len(raw)] and P + len(raw) <= len(D0)"]},
       use=[("SLICE_CONCAT", {"d": "D0", "p": "P", "q": "P + VLEN(D0[P:])", "r": "stream.pos"}),
            ("SLICE_CONCAT", {"d": "D0", "p": "P + VLEN(D0[P:])", "q": "stream.pos - len(as_bytes(yielded.value))", "r": "stream.pos"}),
            ("SLICE_TAIL", {"d": "D0", "p": "P", "q": "len(D0)"}), ("SLICE_TAIL", {"d": "D0", "p": "P", "q": "P + 1"}),
            ("SLICE_TAIL", {"d": "D0", "p": "P", "q": "P + VLEN(D0[P:])"})],
       props=["C08", "C10", "C17", "C01", "C02"]),
    FN("betterproto.parse_fields", generator=True,
       types={"value": "bytes"},
       ghost={"D0": "value"},
       loops={0: LOOP(inv=[("pos", "0 <= i <= len(value)")], ghost_head={"P": "i"}, decreases="len(value) - i")},
       yields=_yields("i", "D0"),
       ends=[("C10-ends-only-at-a-record-boundary", "i == len(D0)")],
       raises=[("ValueError", "may", ""), ("EOFError", "may", "")],
       props=["C08", "C17"]),
]
EXTRA_CONTRACTS = _v.CONTRACTS


def _records(rnd, n):
    out = [b"", b"\x08\x01", b"\x08", b"\x0a\x03abc", b"\x0a\x05hel", b"\x0d\x01\x02\x03\x04", b"\x0d\x01\x02", b"\x09" + bytes(8),
           b"\x09" + bytes(5), b"\x00\x01", b"\x0b", b"\x0c", b"\x0e", b"\x0f", b"\x80\x01\x05", b"\x80", b"\x88\x80\x00\x01",
           b"\x08\x96\x01\x12\x02hi\x1d\x00\x00\x80\x3f", b"\x0a\x80\x00"]
    while len(out) < n:
        ln = rnd.randrange(0, 9)
        out.append(bytes(rnd.choice([0, 1, 2, 5, 8, 0x0a, 0x0d, 0x09, 0x80, 0xff, rnd.randrange(256)]) for _ in range(ln)))
    return out
