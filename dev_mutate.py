#!/usr/bin/env python3
"""dev tool: classic mutation testing of the checks (never touches /repo).

  python3 dev_mutate.py gen [--per-fn 2] [--seed 0]      enumerate mutation sites in the property-anchored sources of
                                                        /repo HEAD, sample per function, write /tmp/mut/<id>/{patch.diff,meta.json}
  python3 dev_mutate.py run [-P 4] [<id> ...]           for each mutant: scratch export of /repo HEAD + patch, the pinned
                                                        test-suite (mutants that fail it are dropped), then the quick checks of
                                                        the properties mapped to the mutated function until one reports a
                                                        violation; prints KILLED-BY-TESTS / DETECTED / CHECKER-ERROR / SURVIVED
Mutation operators: comparison operator swap, arithmetic / shift / bit operator swap, and<->or, dropped `not`,
integer constant +-1, True<->False, negated `if` / `while` condition, dropped statement (expression statement or
assignment -> pass), `return x` -> `return None` is NOT used (too crude).
"""
import ast
import difflib
import json
import os
import random
import re
import shutil
import subprocess
import sys
import tempfile
import time

import dev_seed

VERIF = os.path.dirname(os.path.abspath(__file__))
OUT = "/tmp/mut"
FILES = ["src/betterproto/__init__.py", "src/betterproto/enum.py", "src/betterproto/casing.py", "src/betterproto/compile/naming.py",
         "src/betterproto/compile/importing.py", "src/betterproto/plugin/models.py", "src/betterproto/plugin/parser.py",
         "src/betterproto/plugin/typing_compiler.py", "src/betterproto/grpc/util/async_channel.py",
         "src/betterproto/grpc/grpclib_client.py", "src/betterproto/grpc/grpclib_server.py"]

CMP = {ast.Lt: "<=", ast.LtE: "<", ast.Gt: ">=", ast.GtE: ">", ast.Eq: "!=", ast.NotEq: "==", ast.Is: "is not", ast.IsNot: "is",
       ast.In: "not in", ast.NotIn: "in"}
CMP_TXT = {ast.Lt: "<", ast.LtE: "<=", ast.Gt: ">", ast.GtE: ">=", ast.Eq: "==", ast.NotEq: "!=", ast.Is: "is", ast.IsNot: "is not",
           ast.In: "in", ast.NotIn: "not in"}
BIN = {ast.Add: ("+", "-"), ast.Sub: ("-", "+"), ast.LShift: ("<<", ">>"), ast.RShift: (">>", "<<"), ast.BitAnd: ("&", "|"),
       ast.BitOr: ("|", "&"), ast.Mult: ("*", "//"), ast.FloorDiv: ("//", "*"), ast.Mod: ("%", "//")}


def props_for(path, fn):
    f = fn.split(".")[-1]
    q = fn
    if path.endswith("enum.py"):
        return ["C20", "C04", "C01"]
    if path.endswith(("casing.py", "naming.py")):
        return ["C19", "C03", "C04"]
    if path.endswith("importing.py"):
        return ["C13", "C03", "C18"]
    if path.endswith("typing_compiler.py"):
        return ["C18", "C03", "C13"]
    if path.endswith(("models.py", "parser.py")):
        return ["C03", "C18", "C11", "C13"]
    if path.endswith("async_channel.py"):
        return ["C12", "C11"]
    if path.endswith(("grpclib_client.py", "grpclib_server.py")):
        return ["C11", "C12"]
    table = [
        (r"varint", ["C16", "C09", "C10", "C01"]),
        (r"_len_|__len__", ["C09", "C10", "C08"]),
        (r"_pack_fmt|_preprocess_single|_serialize_single", ["C16", "C02", "C09", "C01", "C15"]),
        (r"load_fields|parse_fields|_read_exactly", ["C17", "C08", "C10", "C02"]),
        (r"_postprocess_single", ["C02", "C01", "C17", "C20", "C15"]),
        (r"Message\.load|Message\.parse|FromString", ["C02", "C17", "C08", "C10", "C06", "C01", "C07"]),
        (r"Message\.dump|__bytes__|SerializeToString", ["C09", "C02", "C06", "C01", "C07", "C08"]),
        (r"__post_init__|__setattr__|__getattribute__|__raw_get|_get_field_default|_include_default", ["C07", "C06", "C14", "C01"]),
        (r"__eq__|__bool__|__repr__|__rich_repr__", ["C14", "C01", "C09"]),
        (r"__copy|__deepcopy__|__reduce__|__getstate__|__setstate__", ["C14", "C07"]),
        (r"to_pydict|from_pydict", ["C14", "C04"]),
        (r"_Timestamp|_Duration|datetime_default|_parse_duration", ["C15", "C04", "C05", "C01"]),
        (r"to_dict|_from_dict_init|from_dict|to_json|from_json|_scalar_|_map_key|_dump_float|_parse_float|_enum_", ["C04", "C05", "C19", "C20", "C15"]),
        (r"is_set|serialized_on_wire|which_one_of|_validate_field_groups", ["C06", "C07", "C14"]),
        (r"ProtoClassMetadata|_type_hint|_cls_for|_betterproto", ["C01", "C20", "C19", "C04", "C06"]),
        (r"dataclass_field|_field$", ["C01", "C02", "C06", "C03"]),
    ]
    for pat, ps in table:
        if re.search(pat, q):
            return ps
    return ["C01", "C02", "C04", "C06", "C09"]


class Sites(ast.NodeVisitor):
    def __init__(self, src):
        self.src = src
        self.lines = src.splitlines(keepends=True)
        self.off = [0]
        for l in self.lines:
            self.off.append(self.off[-1] + len(l.encode("utf-8")))
        self.bsrc = src.encode("utf-8")
        self.stack = []
        self.sites = []        # (fn, kind, start, end, replacement, description)

    def pos(self, lineno, col):
        return self.off[lineno - 1] + col

    def span(self, n):
        return self.pos(n.lineno, n.col_offset), self.pos(n.end_lineno, n.end_col_offset)

    def text(self, a, b):
        return self.bsrc[a:b].decode("utf-8")

    def add(self, kind, a, b, rep, desc):
        if self.stack:
            self.sites.append((".".join(self.stack), kind, a, b, rep, desc))

    def visit_ClassDef(self, n):
        self.stack.append(n.name)
        self.generic_visit(n)
        self.stack.pop()

    def visit_FunctionDef(self, n):
        self.stack.append(n.name)
        for d in n.body:
            self.visit(d)
        self.stack.pop()

    visit_AsyncFunctionDef = visit_FunctionDef

    def between(self, left, right, old):
        a = self.span(left)[1]
        b = self.span(right)[0]
        t = self.text(a, b)
        m = re.search(r"(?<![<>=!])" + re.escape(old) + r"(?![<>=])", t) if not old[0].isalpha() else re.search(r"\b" + old.replace(" ", r"\s+") + r"\b", t)
        if not m:
            return None
        return a + len(t[:m.start()].encode("utf-8")), a + len(t[:m.end()].encode("utf-8"))

    def visit_Compare(self, n):
        left = n.left
        for op, right in zip(n.ops, n.comparators):
            if type(op) in CMP:
                sp = self.between(left, right, CMP_TXT[type(op)])
                if sp:
                    self.add("cmp", sp[0], sp[1], CMP[type(op)], f"{CMP_TXT[type(op)]} -> {CMP[type(op)]} in `{ast.unparse(n)[:60]}`")
            left = right
        self.generic_visit(n)

    def visit_BinOp(self, n):
        if type(n.op) in BIN and not (isinstance(n.op, (ast.Mod, ast.Add)) and isinstance(n.left, (ast.Constant, ast.JoinedStr)) and isinstance(getattr(n.left, "value", ""), str)):
            old, new = BIN[type(n.op)]
            sp = self.between(n.left, n.right, old)
            if sp:
                self.add("bin", sp[0], sp[1], new, f"{old} -> {new} in `{ast.unparse(n)[:60]}`")
        self.generic_visit(n)

    def visit_BoolOp(self, n):
        old, new = ("and", "or") if isinstance(n.op, ast.And) else ("or", "and")
        sp = self.between(n.values[0], n.values[1], old)
        if sp:
            self.add("bool", sp[0], sp[1], new, f"{old} -> {new} in `{ast.unparse(n)[:60]}`")
        self.generic_visit(n)

    def visit_UnaryOp(self, n):
        if isinstance(n.op, ast.Not):
            a, b = self.span(n)
            oa, ob = self.span(n.operand)
            self.add("not", a, b, "(" + self.text(oa, ob) + ")", f"dropped `not` in `{ast.unparse(n)[:60]}`")
        self.generic_visit(n)

    def visit_Constant(self, n):
        a, b = self.span(n)
        if isinstance(n.value, bool):
            self.add("const", a, b, str(not n.value), f"{n.value} -> {not n.value}")
        elif isinstance(n.value, int) and self.text(a, b).strip().isdigit() and n.value < 10**6:
            self.add("const", a, b, str(n.value + 1), f"{n.value} -> {n.value + 1}")
            if n.value > 0:
                self.add("const", a, b, str(n.value - 1), f"{n.value} -> {n.value - 1}")

    def cond(self, n):
        a, b = self.span(n.test)
        self.add("negcond", a, b, "(not (" + self.text(a, b) + "))", f"negated condition `{ast.unparse(n.test)[:60]}`")

    def visit_If(self, n):
        self.cond(n)
        self.generic_visit(n)

    def visit_While(self, n):
        self.cond(n)
        self.generic_visit(n)

    def stmt_drop(self, n):
        if n.lineno == n.end_lineno or True:
            a, b = self.span(n)
            self.add("drop", a, b, "pass", f"dropped statement `{ast.unparse(n)[:70]}`")

    def visit_Expr(self, n):
        if isinstance(n.value, (ast.Call, ast.Await)) and not (isinstance(n.value, ast.Constant)):
            self.stmt_drop(n)
        self.generic_visit(n)

    def visit_Assign(self, n):
        self.stmt_drop(n)
        self.generic_visit(n)

    def visit_AugAssign(self, n):
        self.stmt_drop(n)
        self.generic_visit(n)


def gen(per_fn, seed):
    rnd = random.Random(seed)
    shutil.rmtree(OUT, ignore_errors=True)
    os.makedirs(OUT)
    k = 0
    index = []
    for rel in FILES:
        path = os.path.join("/repo", rel)
        src = subprocess.run(["git", "-C", "/repo", "show", "HEAD:" + rel], capture_output=True, text=True, check=True).stdout
        v = Sites(src)
        v.visit(ast.parse(src))
        by_fn = {}
        for s in v.sites:
            by_fn.setdefault(s[0], []).append(s)
        for fn in sorted(by_fn):
            sites = by_fn[fn]
            rnd.shuffle(sites)
            # at most one mutant per kind first, then fill up
            chosen, kinds = [], set()
            for s in sites:
                if s[1] not in kinds:
                    chosen.append(s)
                    kinds.add(s[1])
            chosen = chosen[:per_fn] if len(chosen) >= per_fn else chosen + [s for s in sites if s not in chosen][:per_fn - len(chosen)]
            for fn_, kind, a, b, rep, desc in chosen:
                new = (v.bsrc[:a] + rep.encode("utf-8") + v.bsrc[b:]).decode("utf-8")
                try:
                    ast.parse(new)
                except SyntaxError:
                    continue
                diff = "".join(difflib.unified_diff(src.splitlines(keepends=True), new.splitlines(keepends=True), "a/" + rel, "b/" + rel))
                if not diff:
                    continue
                mid = "M%04d" % k
                k += 1
                d = os.path.join(OUT, mid)
                os.makedirs(d)
                open(os.path.join(d, "patch.diff"), "w").write(diff)
                meta = {"file": rel, "function": fn_, "kind": kind, "what": desc, "properties": props_for(rel, fn_), "line": src[:len(v.bsrc[:a].decode('utf-8'))].count("\n") + 1}
                json.dump(meta, open(os.path.join(d, "meta.json"), "w"), indent=1)
                index.append((mid, rel, fn_, kind, desc))
    json.dump(index, open(os.path.join(OUT, "index.json"), "w"), indent=1)
    print(len(index), "mutants in", OUT)


def run_one(mid):
    d = os.path.join(OUT, mid)
    meta = json.load(open(os.path.join(d, "meta.json")))
    scratch = tempfile.mkdtemp(prefix="mutrun_", dir="/tmp")
    try:
        tree = os.path.join(scratch, "tree")
        os.makedirs(tree)
        subprocess.run(f"git -C /repo archive HEAD | tar -x -C {tree}", shell=True, check=True)
        r = subprocess.run(["patch", "-p1", "-s", "-d", tree, "-i", os.path.join(d, "patch.diff")], capture_output=True, text=True)
        if r.returncode:
            return (mid, "PATCH-FAILED", meta["function"], meta["what"], "")
        env = dict(os.environ, PYTHONPATH=os.path.join(tree, "src"))
        imp = subprocess.run(["/venv/bin/python", "-c", "import betterproto, betterproto.plugin.models, betterproto.grpc.grpclib_client, betterproto.grpc.grpclib_server"], env=env, capture_output=True, text=True)
        if imp.returncode:
            return (mid, "KILLED-BY-IMPORT", meta["function"], meta["what"], "")
        try:
          t = subprocess.run(["/venv/bin/python", "-m", "pytest", "-q", "-p", "no:cacheprovider", "--timeout=300", "--continue-on-collection-errors"],
                           cwd=tree, env=env, capture_output=True, text=True, timeout=400)
        except subprocess.TimeoutExpired:
            return (mid, "KILLED-BY-TESTS", meta["function"], meta["what"], "test-suite hangs")
        tail = (t.stdout.strip().splitlines() or [""])[-1]
        m = re.search(r"(\d+) passed", tail)
        if not m or int(m.group(1)) != 193:
            return (mid, "KILLED-BY-TESTS", meta["function"], meta["what"], tail[:60])
    finally:
        shutil.rmtree(scratch, ignore_errors=True)
    log = []
    for p in meta["properties"]:
        res = dev_seed.run_seed(d, [p])
        for x in res:
            log.append((x[1], x[2], x[-1]))
            if x[2] == 1:
                first = [l for l in x[4] if l.startswith("VIOLATION")][:1]
                return (mid, "DETECTED", meta["function"], meta["what"], f"{p} {first} after {log}")
            if x[2] not in (0, 1):
                return (mid, "CHECKER-ERROR", meta["function"], meta["what"], f"{p} rc={x[2]} {x[4][:2]} after {log}")
    return (mid, "SURVIVED", meta["function"], meta["what"], f"{log}")


def main():
    a = sys.argv[1:]
    if a[0] == "gen":
        per = int(a[a.index("--per-fn") + 1]) if "--per-fn" in a else 2
        seed = int(a[a.index("--seed") + 1]) if "--seed" in a else 0
        gen(per, seed)
        return
    if a[0] == "run":
        par = int(a[a.index("-P") + 1]) if "-P" in a else 4
        ids = [x for x in a[1:] if x.startswith("M")]
        if not ids:
            ids = sorted(x for x in os.listdir(OUT) if x.startswith("M"))
        done = set()
        resf = os.path.join(OUT, "results.jsonl")
        if os.path.exists(resf):
            done = {json.loads(l)[0] for l in open(resf)}
        ids = [i for i in ids if i not in done]
        from concurrent.futures import ThreadPoolExecutor
        with ThreadPoolExecutor(par) as ex:
            for r in ex.map(run_one, ids):
                print(r, flush=True)
                with open(resf, "a") as f:
                    f.write(json.dumps(r) + "\n")


if __name__ == "__main__":
    main()
