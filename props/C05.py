"""C05 — canonical proto3 JSON mapping."""
AREAS = ["time"]
LEVEL = "other"
EXPLANATION = (
    "Bounded differential against google.protobuf.json_format in both directions on the stand-in corpus; deductive part "
    "limited to the Timestamp / Duration converters.")
ASSUMED = ["to_dict / _from_dict_init are not under contract: bounded differential only"]
from pyvc.check import standin_bounded
BOUNDED = [standin_bounded("C05")]
