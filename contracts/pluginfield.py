"""Contracts for the field compilers of the protoc plugin (C03): how a FieldDescriptorProto becomes a dataclass field
declaration.  The descriptor record is symbolic (every type number 1..18, both labels, proto3_optional, any names and
numbers); spec/plugin.py is written from descriptor.proto and the betterproto field API."""
from pyvc.contracts import FN, LOOP, LEMMA
from pyvc.models_plugin import PluginFieldPlugin

DEPENDS = []
SPEC_MODULES = ("wire", "plugin")
PLUGINS = [PluginFieldPlugin()]
LEMMAS = []
M = "betterproto.plugin.models."
FC = {"self": "model:fieldcompiler"}
OC = {"self": "model:oneofcompiler"}
MC = {"self": "model:mapcompiler"}
T = "self.proto_obj.type"
SCALAR_OR_REF = f"(PY_TYPE({T}) if IS_SCALAR_TYPE({T}) else TYPEREF())"
BASE_ANN = f"(('builtins.' + {SCALAR_OR_REF}) if USE_BUILTINS() else {SCALAR_OR_REF})"
NOT_GROUP = ("not-a-proto2-group", f"{T} != 10")

CONTRACTS = [
    FN(M + "is_oneof", types={"proto_field_obj": "model:fdproto"}, returns="bool",
       ensures=[("C03-real-oneof-member", "result == ((not proto_field_obj.proto3_optional) and HAS_ONEOF_INDEX_OF(proto_field_obj))")],
       top=["C03-real-oneof-member"], props=["C03"]),
    FN(M + "is_map", types={"proto_field_obj": "model:fdproto", "parent_message": "model:parentmsg"}, returns="bool",
       ensures=[("C03-map-field-recognised",
                 "result == ISMAP_DEF(proto_field_obj.type, proto_field_obj.type_name, proto_field_obj.name, parent_message)")],
       top=["C03-map-field-recognised"],
       loops={0: LOOP(index="nk", inv=[("none-so-far", "forall(0, nk, lambda j: not (NORMNAME_OF(NT_NAME_AT(j)) == map_entry and NT_MAPENTRY_AT(j)))"),
                                       ("names", "map_entry == NORMNAME_OF(proto_field_obj.name) + 'entry'")])},
       props=["C03"]),
    FN(M + "FieldCompiler.optional", types=FC, returns="bool",
       ensures=[("C03-proto3-optional", "result == self.proto_obj.proto3_optional")], top=["C03-proto3-optional"], props=["C03", "C18"]),
    FN(M + "FieldCompiler.repeated", types=FC, returns="bool",
       requires=[("is_map-contract", "True")],
       ensures=[("C03-repeated-but-not-map", "result == (self.proto_obj.label == 3 and not ISMAP())")], top=["C03-repeated-but-not-map"], props=["C03"]),
    FN(M + "FieldCompiler.packed", types=FC, returns="bool",
       ensures=[("packed-kinds", f"result == (self.proto_obj.label == 3 and not ISMAP() and IS_PACKABLE({T}))")], props=["C03"]),
    FN(M + "FieldCompiler.field_type", types=FC, returns="str", requires=[NOT_GROUP],
       ensures=[("C03-field-function-of-the-proto-type", f"result == FIELD_TYPE_NAME({T})")], top=["C03-field-function-of-the-proto-type"], props=["C03"]),
    FN(M + "FieldCompiler.proto_name", types=FC, returns="str", ensures=[("name", "result == self.proto_obj.name")], props=["C03"]),
    FN(M + "FieldCompiler.py_name", types=FC, returns="str", ensures=[("C03-python-name", "result == PYNAME_OF(self.proto_obj.name)")], props=["C03", "C19"]),
    FN(M + "FieldCompiler.field_wraps", types=FC, returns="obj",
       ensures=[("C03-wrapper-types-map-to-their-scalar", "(is_none(result) and WRAPS_TEXT() == '') or (is_str(result) and as_str(result) == WRAPS_TEXT() and WRAPS_TEXT() != '')")],
       top=["C03-wrapper-types-map-to-their-scalar"], props=["C03"]),
    FN(M + "FieldCompiler.py_type", types=FC, returns="str", requires=[NOT_GROUP],
       ensures=[("C03-python-type", f"result == {SCALAR_OR_REF}")], top=["C03-python-type"], props=["C03"]),
    FN(M + "FieldCompiler.use_builtins", types=FC, returns="bool", requires=[NOT_GROUP],
       ensures=[("builtin-name-collision", "result == USE_BUILTINS()")], props=["C03"]),
    FN(M + "FieldCompiler.annotation", types=FC, returns="str", requires=[NOT_GROUP],
       ensures=[("C03-annotation", f"result == (TCLIST({BASE_ANN}) if (self.proto_obj.label == 3 and not ISMAP()) else"
                                   f" (TCOPTIONAL({BASE_ANN}) if self.proto_obj.proto3_optional else {BASE_ANN}))")],
       top=["C03-annotation"], props=["C03", "C18"]),
    FN(M + "FieldCompiler.betterproto_field_args", types=FC, returns="any", inline_at_calls=True,
       ensures=[("C03-wraps-then-optional",
                 "', '.join(result) == ((('wraps=' + WRAPS_TEXT()) if WRAPS_TEXT() != '' else '')"
                 " + (', ' if (WRAPS_TEXT() != '' and self.proto_obj.proto3_optional) else '')"
                 " + ('optional=True' if self.proto_obj.proto3_optional else ''))")],
       top=["C03-wraps-then-optional"], props=["C03"]),
    FN(M + "OneOfFieldCompiler.betterproto_field_args", types=OC, returns="any", inline_at_calls=True,
       ensures=[("C03-oneof-keeps-inherited-arguments-and-adds-the-group",
                 "', '.join(result) == ((('wraps=' + WRAPS_TEXT() + ', ') if WRAPS_TEXT() != '' else '')"
                 " + ('optional=True, ' if self.proto_obj.proto3_optional else '')"
                 " + 'group=\"' + GROUPNAME() + '\"')")],
       top=["C03-oneof-keeps-inherited-arguments-and-adds-the-group"], props=["C03"]),
    FN(M + "MapEntryCompiler.betterproto_field_args", types=MC, returns="any",
       ensures=[("C03-map-key-and-value-types", "', '.join(result) == 'betterproto.' + K_TYPE() + ', betterproto.' + V_TYPE()")], props=["C03"]),
    FN(M + "MapEntryCompiler.field_type", types=MC, returns="str", ensures=[("C03-map-field-function", "result == 'map'")], props=["C03"]),
    FN(M + "MapEntryCompiler.repeated", types=MC, returns="bool", ensures=[("maps-are-not-lists", "not result")], props=["C03"]),
    FN(M + "MapEntryCompiler.annotation", types=MC, returns="str", ensures=[("C03-dict-annotation", "result == TCDICT(PY_K(), PY_V())")], props=["C03", "C18"]),
    FN(M + "FieldCompiler.get_field_string", types={**FC, "indent": "int"}, returns="str", requires=[NOT_GROUP],
       ensures=[("C03-declaration-carries-number-kind-wraps-optional",
                 f"result == FIELD_DECL(PYNAME_OF(self.proto_obj.name),"
                 f" (TCLIST({BASE_ANN}) if (self.proto_obj.label == 3 and not ISMAP()) else (TCOPTIONAL({BASE_ANN}) if self.proto_obj.proto3_optional else {BASE_ANN})),"
                 f" FIELD_TYPE_NAME({T}), NUMSTR(self.proto_obj.number), WRAPS_TEXT(), self.proto_obj.proto3_optional, '')")],
       top=["C03-declaration-carries-number-kind-wraps-optional"], props=["C03"]),
]
