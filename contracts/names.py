"""Contracts for the name mapping (C19): sanitize_name and the functions composed from it are verified with the
identifier / keyword languages as regular expressions; snake_case and pascal_case (re.sub with a Python callback) are
outside the proved subset: their range contracts are ASSUMED here and checked exhaustively up to length 6 by the
bounded stand-in."""
from pyvc.contracts import FN, LOOP, LEMMA
from pyvc.models_names import NamesPlugin

DEPENDS = []
SPEC_MODULES = ("wire", "names")
PLUGINS = [NamesPlugin()]
LEMMAS = []
C = "betterproto.casing."
N = "betterproto.compile.naming."
SAFE = ("C19-valid-identifier-not-keyword", "ISIDENT(result) and not ISKW(result)")

CONTRACTS = [
    FN(C + "snake_case", types={"value": "str", "strict": "bool"}, returns="str", assumed=True,
       requires=[("proto-identifier-chars", "INDOTTED(value)")],
       ensures=[("range", "INCHARS(result)")], props=["C19"]),
    FN(C + "pascal_case", types={"value": "str", "strict": "bool"}, returns="str", assumed=True,
       requires=[("proto-identifier-chars", "INCHARS(value)")],
       ensures=[("range", "INCHARS(result)")], props=["C19"]),
    FN(C + "sanitize_name", types={"value": "str"}, returns="str",
       requires=[("identifier-characters", "INCHARS(value)")],
       ensures=[SAFE, ("C19-idempotent-fixpoint", "implies(ISIDENT(value) and not ISKW(value), result == value)")],
       top=["C19-valid-identifier-not-keyword", "C19-idempotent-fixpoint"], props=["C19", "C03"],
       witness={"value": "class"}),
    FN(C + "safe_snake_case", types={"value": "str"}, returns="str",
       requires=[("proto-identifier-chars", "INDOTTED(value)")], ensures=[SAFE], top=[SAFE[0]], props=["C19", "C04"],
       witness={"value": "fromValue"}),
    FN(N + "pythonize_field_name", types={"name": "str"}, returns="str",
       requires=[("proto-identifier-chars", "INCHARS(name)")], ensures=[SAFE], top=[SAFE[0]], props=["C19", "C03"],
       witness={"name": "import"}),
    FN(N + "pythonize_method_name", types={"name": "str"}, returns="str",
       requires=[("proto-identifier-chars", "INCHARS(name)")], ensures=[SAFE], top=[SAFE[0]], props=["C19", "C11"],
       witness={"name": "GetURL"}),
    FN(N + "pythonize_class_name", types={"name": "str"}, returns="str",
       requires=[("proto-identifier-chars", "INCHARS(name)")], ensures=[SAFE], top=[SAFE[0]], props=["C19", "C03"],
       witness={"name": "none"}),
]


def _names(rnd, n):
    import keyword
    base = ["", "_", "a", "A", "1", "class", "None", "none", "from", "x_1", "address_line_1", "x_y_z", "HTTPStatus", "_lead", "trail_",
            "a__b", "Async", "match", "int", "self"] + keyword.kwlist
    alpha = "abAB1_"
    while len(base) < n:
        base.append("".join(rnd.choice(alpha) for _ in range(rnd.randrange(0, 7))))
    return base


SAMPLES = {
    C + "sanitize_name": lambda rnd, n: [{"value": s} for s in _names(rnd, n)],
    C + "safe_snake_case": lambda rnd, n: [{"value": s} for s in _names(rnd, n)],
    N + "pythonize_field_name": lambda rnd, n: [{"name": s} for s in _names(rnd, n)],
    N + "pythonize_method_name": lambda rnd, n: [{"name": s} for s in _names(rnd, n)],
    N + "pythonize_class_name": lambda rnd, n: [{"name": s} for s in _names(rnd, n)],
}
