"""Front end: reads the real sources from /repo on every run and indexes them.

Dropped by extraction (stated in every evidence file): docstrings, comments, type
annotations (used only as hints), decorators other than binding ones.  `if TYPE_CHECKING:`
blocks are evaluated as False and `if not TYPE_CHECKING:` as True.
"""
import ast
import hashlib
import os

REPO = os.environ.get("PYVC_REPO", "/repo")
SRC = os.path.join(REPO, "src")


class ModuleInfo:
    def __init__(self, modname, path):
        self.modname = modname
        self.path = path
        with open(path, "r", encoding="utf-8") as f:
            self.text = f.read()
        self.tree = ast.parse(self.text, filename=path)
        self.lines = self.text.splitlines()
        self.functions = {}     # qualname (without module) -> FunctionDef/AsyncFunctionDef
        self.classes = {}       # class name -> ClassDef
        self.assigns = {}       # module-level name -> value AST (last assignment wins)
        self.imports = {}       # local name -> ("module", dotted) | ("from", module, name)
        self.class_assigns = {}  # (class, name) -> value AST
        self._index(self.tree.body, prefix="", cls=None)

    def _tc(self, test):
        # evaluate `TYPE_CHECKING` / `not TYPE_CHECKING`
        if isinstance(test, ast.Name) and test.id == "TYPE_CHECKING":
            return False
        if (isinstance(test, ast.UnaryOp) and isinstance(test.op, ast.Not)
                and isinstance(test.operand, ast.Name) and test.operand.id == "TYPE_CHECKING"):
            return True
        return None

    def _index(self, body, prefix, cls):
        for node in body:
            if isinstance(node, (ast.FunctionDef, ast.AsyncFunctionDef)):
                q = prefix + node.name
                # hybridmethod: `@from_dict.instancemethod def from_dict` -> separate key
                for d in node.decorator_list:
                    if isinstance(d, ast.Attribute) and d.attr == "instancemethod":
                        q = prefix + node.name + "@instance"
                self.functions[q] = node
            elif isinstance(node, ast.ClassDef):
                self.classes[prefix + node.name] = node
                self._index(node.body, prefix + node.name + ".", prefix + node.name)
            elif isinstance(node, ast.If):
                v = self._tc(node.test)
                if v is True:
                    self._index(node.body, prefix, cls)
                elif v is False:
                    self._index(node.orelse, prefix, cls)
                else:
                    # version checks etc.: index both, body first (orelse may override)
                    self._index(node.orelse, prefix, cls)
                    self._index(node.body, prefix, cls)
            elif isinstance(node, ast.Try):
                self._index(node.body, prefix, cls)
            elif isinstance(node, ast.Assign) and len(node.targets) == 1 and isinstance(node.targets[0], ast.Name):
                if cls is None:
                    self.assigns[node.targets[0].id] = node.value
                else:
                    self.class_assigns[(cls, node.targets[0].id)] = node.value
            elif isinstance(node, ast.AnnAssign) and isinstance(node.target, ast.Name) and node.value is not None:
                if cls is None:
                    self.assigns[node.target.id] = node.value
                else:
                    self.class_assigns[(cls, node.target.id)] = node.value
            elif isinstance(node, ast.Import) and cls is None:
                for a in node.names:
                    self.imports[a.asname or a.name.split(".")[0]] = ("module", a.name if a.asname else a.name.split(".")[0])
            elif isinstance(node, ast.ImportFrom) and cls is None:
                for a in node.names:
                    self.imports[a.asname or a.name] = ("from", "." * node.level + (node.module or ""), a.name)

    def fn_source(self, q):
        node = self.functions[q]
        start = node.lineno
        if node.decorator_list:
            start = min(d.lineno for d in node.decorator_list)
        seg = "\n".join(self.lines[start - 1: node.end_lineno])
        return seg, start, node.end_lineno

    def fn_sha(self, q):
        seg, a, b = self.fn_source(q)
        return hashlib.sha256(seg.encode()).hexdigest()


_MODCACHE = {}


def module_path(modname):
    rel = modname.replace(".", "/")
    p = os.path.join(SRC, rel + ".py")
    if os.path.exists(p):
        return p
    p = os.path.join(SRC, rel, "__init__.py")
    if os.path.exists(p):
        return p
    raise FileNotFoundError(modname)


def load_module(modname):
    if modname not in _MODCACHE:
        _MODCACHE[modname] = ModuleInfo(modname, module_path(modname))
    return _MODCACHE[modname]


def split_qualname(qualname):
    """'betterproto.grpc.util.async_channel.AsyncChannel.receive' -> (module, 'AsyncChannel.receive')."""
    parts = qualname.split(".")
    for i in range(len(parts) - 1, 0, -1):
        mod = ".".join(parts[:i])
        try:
            module_path(mod)
        except FileNotFoundError:
            continue
        return mod, ".".join(parts[i:])
    raise KeyError(qualname)


def get_function(qualname):
    mod, q = split_qualname(qualname)
    mi = load_module(mod)
    if q not in mi.functions:
        raise KeyError(f"{qualname}: function not found in {mi.path}")
    return mi, q, mi.functions[q]


TRANSPARENT_DECORATORS = {"property", "classmethod", "staticmethod", "abstractmethod", "abc.abstractmethod", "hybridmethod",
                          "classproperty", "overload", "typing.overload", "final", "typing.final", "uninterpreted"}


def opaque_decorators(fn_node):
    """Decorators that may change what calling the function means (caches, wrappers, registrations ...).  Only the
    binding / declarative ones listed above (and `<name>.instancemethod` / `.setter` / `.getter`) are transparent: a
    function carrying any other decorator is outside the verified subset - its body is not what a call executes."""
    out = []
    for d in getattr(fn_node, "decorator_list", []):
        t = ast.unparse(d.func if isinstance(d, ast.Call) else d)
        if t in TRANSPARENT_DECORATORS:
            continue
        if isinstance(d, ast.Attribute) and d.attr in ("instancemethod", "setter", "getter"):
            continue
        out.append(ast.unparse(d))
    return out


def loops_in_order(fn_node):
    """Loop nodes of the function in source order (nested included, nested defs excluded)."""
    out = []

    def visit(n):
        for c in ast.iter_child_nodes(n):
            if isinstance(c, (ast.FunctionDef, ast.AsyncFunctionDef, ast.Lambda, ast.ClassDef)):
                continue
            if isinstance(c, (ast.While, ast.For, ast.AsyncFor)):
                out.append(c)
            visit(c)
    visit(fn_node)
    out.sort(key=lambda n: (n.lineno, n.col_offset))
    return out
