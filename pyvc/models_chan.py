"""Model of AsyncChannel's shared state and of asyncio.Queue (A-AQUEUE), for proofs by invariance over
await-delimited atomic segments (DESIGN §2.7).

asyncio is cooperative: tasks interleave only at `await`s that actually suspend.  At such a yield point the
executor (1) asserts the shared-state invariant, (2) havocs the shared state subject to the invariant and to the
rely condition (what other tasks can never do to this task's own contributions), (3) continues.  An invariant
that holds at every yield point and at every exit, given that it held at entry and after every yield, holds
under every schedule."""
import ast
import z3

from .sym import SV, NONE, IntS, BoolS, PyObj, sv_int, sv_bool, to_obj
from .exec import Unsupported, Raised, fresh
from .speclib import OBJSEQ

FLUSH = PyObj.POther(z3.IntVal(0))          # the private sentinel object AsyncChannel.__flush


class ChanPlugin:
    SPEC_NAMES = {"QITEMS", "UNF", "PEND", "WR", "CLOSED", "FLUSHED", "FLUSHREM", "MAXSIZE", "MY_WR", "MY_PEND", "FLUSHOBJ", "QLEN",
                  "FLUSH_SCHEDULED", "LAST_POPPED", "SRC_N", "SRC_ITEM"}
    SHARED = [("self", "_closed"), ("self", "_flushed"), ("self", "_waiting_receivers"), ("queue", "items"),
              ("queue", "unfinished"), ("$G", "pend"), ("$G", "flushrem"), ("$G", "flush_scheduled")]

    def __init__(self, invariant, rely_extra=()):
        self.invariant = invariant          # list of (name, expr)
        self.yield_count = 0

    def make_model_param(self, ex, st, p, model):
        if model == "source":
            n = z3.Int(f"{p}.n")
            xs = z3.Const(f"{p}.items", OBJSEQ)
            st.assume(n >= 0)
            st.assume(z3.Length(xs) == n)
            ex.inputs[f"{p}.n"] = n
            return SV("source", {"n": n, "xs": xs, "is_async": z3.Bool(f"{p}.is_async")})
        if model != "chan":
            return None
        st.heap[("self", "_closed")] = sv_bool(z3.Bool("closed"))
        st.heap[("self", "_flushed")] = sv_bool(z3.Bool("flushed"))
        st.heap[("self", "_waiting_receivers")] = sv_int(z3.Int("wr"))
        st.heap[("self", "_queue")] = SV("ref", "queue", "aqueue")
        st.heap[("queue", "items")] = SV("objseq", z3.Const("q.items", OBJSEQ))
        st.heap[("queue", "unfinished")] = sv_int(z3.Int("q.unfinished"))
        st.heap[("queue", "maxsize")] = sv_int(z3.Int("q.maxsize"))
        st.heap[("$G", "pend")] = sv_int(z3.Int("g.pend"))
        st.heap[("$G", "flushrem")] = sv_int(z3.Int("g.flushrem"))
        st.heap[("$G", "flush_scheduled")] = sv_bool(z3.Bool("g.flush_scheduled"))
        st.heap[("$L", "my_wr")] = sv_int(0)
        st.heap[("$L", "my_pend")] = sv_int(0)
        for (k, a), v in st.heap.items():
            if v.kind in ("int", "bool", "objseq"):
                ex.inputs[f"{k}.{a}"] = v.t
        return SV("ref", "self", "chan")

    def spec_has(self, name):
        return name in self.SPEC_NAMES

    def spec_call(self, ex, name, pos, st):
        h = st.heap
        return {
            "QITEMS": lambda: h[("queue", "items")], "QLEN": lambda: sv_int(z3.Length(h[("queue", "items")].t)),
            "UNF": lambda: h[("queue", "unfinished")], "PEND": lambda: h[("$G", "pend")],
            "WR": lambda: h[("self", "_waiting_receivers")], "CLOSED": lambda: h[("self", "_closed")],
            "FLUSHED": lambda: h[("self", "_flushed")], "FLUSHREM": lambda: h[("$G", "flushrem")],
            "MAXSIZE": lambda: h[("queue", "maxsize")], "MY_WR": lambda: h[("$L", "my_wr")],
            "MY_PEND": lambda: h[("$L", "my_pend")], "FLUSHOBJ": lambda: SV("obj", FLUSH),
            "FLUSH_SCHEDULED": lambda: h[("$G", "flush_scheduled")],
            "LAST_POPPED": lambda: h.get(("$L", "last_popped"), SV("obj", PyObj.PNone)),
            "SRC_N": lambda: sv_int(pos[0].t["n"]),
            "SRC_ITEM": lambda: SV("obj", pos[0].t["xs"][ex.as_int(pos[1], st)]),
        }[name]()

    # ------------------------------------------------------------------------------------------
    def getattr_hook(self, ex, st, v, attr):
        if v.extra == "chan" and attr == "_AsyncChannel__flush":
            return [(st, SV("obj", FLUSH))]
        return None

    def setattr_hook(self, ex, st, recv, attr, v):
        if recv.extra == "chan" and attr == "_flushed":
            # ghost: from the moment the channel is marked flushed, the flush task owes one sentinel per receiver
            # that no queued entry can serve (the number is the SPEC value, not the code's local variable)
            wr = st.heap[("self", "_waiting_receivers")].t
            n = z3.Length(st.heap[("queue", "items")].t)
            st.heap[("self", "_flushed")] = v
            st.heap[("$G", "flushrem")] = sv_int(z3.If(ex.truth(v), z3.If(wr - n > 0, wr - n, 0), st.heap[("$G", "flushrem")].t))
            st.heap[("$L", "flusher")] = sv_bool(True)
            return True
        if recv.extra == "chan" and attr == "_waiting_receivers":
            old = st.heap[("self", "_waiting_receivers")].t
            new = ex.as_int(v, st)
            st.heap[("$L", "my_wr")] = sv_int(st.heap[("$L", "my_wr")].t + (new - old))
            st.heap[("self", "_waiting_receivers")] = sv_int(new)
            return True
        return None

    def modified_keys(self, ex, v):
        if v.extra == "chan":
            return ["self", "queue", "$G"]
        return None

    def identical_hook(self, ex, a, b, st):
        if a.kind == "obj" and b.kind == "obj":
            return a.t == b.t
        return None

    def yield_point(self, ex, st, what):
        """assert the invariant, havoc the shared state under invariant + rely"""
        self.yield_count += 1
        for name, e in self.invariant:
            ex.oblige(st, f"yield@{ex.cur_line}[{what}].invariant[{name}]", ex.truth(ex.ev_spec(e, st)), "invariant", ex.cur_line)
        st2 = st.clone()
        old = {k: st.heap[k] for k in self.SHARED}
        for k in self.SHARED:
            v = st.heap[k]
            if v.kind == "objseq":
                st2.heap[k] = SV("objseq", fresh(f"{k[0]}.{k[1]}", OBJSEQ))
            else:
                st2.heap[k] = SV(v.kind, fresh(f"{k[0]}.{k[1]}", IntS if v.kind == "int" else BoolS))
        for name, e in self.invariant:
            st2.assume(ex.truth(ex.ev_spec(e, st2)))
        # rely: flags are monotone; other tasks never remove this task's own contributions
        st2.assume(z3.Implies(old[("self", "_closed")].t, st2.heap[("self", "_closed")].t))
        st2.assume(z3.Implies(old[("self", "_flushed")].t, st2.heap[("self", "_flushed")].t))
        st2.assume(z3.Implies(old[("$G", "flush_scheduled")].t, st2.heap[("$G", "flush_scheduled")].t))
        st2.assume(st2.heap[("self", "_waiting_receivers")].t >= st2.heap[("$L", "my_wr")].t)
        st2.assume(st2.heap[("$G", "pend")].t >= st2.heap[("$L", "my_pend")].t)
        if ("$L", "flusher") in st.heap:
            # only the flush task changes the number of sentinels it still owes
            st2.assume(st2.heap[("$G", "flushrem")].t == old[("$G", "flushrem")].t)
        ex.assumption("A-AQUEUE")
        return st2

    def call_method(self, ex, recv, name, pos, kw, st, node):
        if recv.kind == "ref" and recv.extra == "aqueue":
            items = st.heap[("queue", "items")].t
            if name == "qsize":
                return [(st, sv_int(z3.Length(items)))]
            if name == "empty":
                return [(st, sv_bool(z3.Length(items) == 0))]
            if name in ("get", "put"):
                return [(st, SV("aw", (name, [to_obj(p) for p in pos])))]
            if name == "task_done":
                unf = st.heap[("queue", "unfinished")].t
                out = []
                s_r = st.clone()
                s_r.assume(unf <= 0)
                if ex.feasible(s_r):
                    out.append((s_r, Raised(SV("exc", "ValueError"))))
                s_n = st.clone()
                s_n.assume(unf > 0)
                s_n.heap[("queue", "unfinished")] = sv_int(unf - 1)
                s_n.heap[("$G", "pend")] = sv_int(s_n.heap[("$G", "pend")].t - 1)
                s_n.heap[("$L", "my_pend")] = sv_int(s_n.heap[("$L", "my_pend")].t - 1)
                if ex.feasible(s_n):
                    out.append((s_n, NONE))
                return out
        if recv.kind == "ref" and recv.extra == "chan":
            q = f"betterproto.grpc.util.async_channel.AsyncChannel.{name}"
            c = ex.eng.contracts.get(q)
            if c is not None and c.inline:
                return list(ex.call_repo(q, pos, kw, st, node, recv=recv))
            if name == "_flush_queue":
                return [(st, SV("aw", ("coroutine:_flush_queue", [])))]
            if c is not None:
                return list(ex.call_repo(q, pos, kw, st, node, recv=recv))
        return None

    def call_builtin(self, ex, name, pos, kw, st, node):
        if name == "asyncio.ensure_future" and pos and pos[0].kind == "aw" and pos[0].t[0] == "coroutine:_flush_queue":
            # the flush task is scheduled; it runs later, as its own task (verified as _flush_queue)
            st2 = st.clone()
            st2.heap[("$G", "flush_scheduled")] = sv_bool(True)
            return [(st2, NONE)]
        if name == "isinstance" and pos and pos[0].kind == "source":
            n = pos[1].t[1].split(".")[-1] if pos[1].kind == "func" else ""
            if n == "AsyncIterable":
                return [(st, sv_bool(pos[0].t["is_async"]))]
        return None

    def await_hook(self, ex, st, aw):
        op, args = aw.t
        items = st.heap[("queue", "items")].t
        if op == "get":
            out = []
            # (a) queue not empty: returns the head immediately, no suspension
            s_a = st.clone()
            s_a.assume(z3.Length(items) > 0)
            if ex.feasible(s_a):
                out += self.pop_head(ex, s_a)
            # (b) empty: suspends
            s_b = st.clone()
            s_b.assume(z3.Length(items) == 0)
            if ex.feasible(s_b):
                s_y = self.yield_point(ex, s_b, "queue.get")
                # cancelled / timed out while waiting: nothing was taken
                out.append((s_y, Raised(SV("exc", "CancelledError"))))
                s_w = s_y.clone()
                s_w.assume(z3.Length(s_w.heap[("queue", "items")].t) > 0)
                out += self.pop_head(ex, s_w)
            return out
        if op == "put":
            item = args[0]
            mx = st.heap[("queue", "maxsize")].t
            out = []
            s_a = st.clone()
            s_a.assume(z3.Or(mx <= 0, z3.Length(items) < mx))
            if ex.feasible(s_a):
                out += self.append(ex, s_a, item)
            s_b = st.clone()
            s_b.assume(z3.And(mx > 0, z3.Length(items) >= mx))
            if ex.feasible(s_b):
                s_y = self.yield_point(ex, s_b, "queue.put")
                out.append((s_y, Raised(SV("exc", "CancelledError"))))
                s_w = s_y.clone()
                s_w.assume(z3.Length(s_w.heap[("queue", "items")].t) < mx)
                out += self.append(ex, s_w, item)
            return out
        raise Unsupported(f"await of {op}")

    def pop_head(self, ex, st):
        items = st.heap[("queue", "items")].t
        st2 = st.clone()
        st2.heap[("queue", "items")] = SV("objseq", z3.SubSeq(items, 1, z3.Length(items) - 1))
        st2.heap[("$G", "pend")] = sv_int(st2.heap[("$G", "pend")].t + 1)
        st2.heap[("$L", "my_pend")] = sv_int(st2.heap[("$L", "my_pend")].t + 1)
        st2.heap[("$L", "last_popped")] = SV("obj", items[0])
        return [(st2, SV("obj", items[0]))]

    def append(self, ex, st, item):
        items = st.heap[("queue", "items")].t
        st2 = st.clone()
        st2.heap[("queue", "items")] = SV("objseq", z3.Concat(items, z3.Unit(item)))
        st2.heap[("queue", "unfinished")] = sv_int(st2.heap[("queue", "unfinished")].t + 1)
        # ghost: a sentinel put by the flush task is one fewer still to come
        fr = st2.heap[("$G", "flushrem")].t
        st2.heap[("$G", "flushrem")] = sv_int(z3.If(z3.And(item == FLUSH, fr > 0), fr - 1, fr))
        return [(st2, NONE)]

    def iter_hook(self, ex, st, itv):
        if itv.kind == "source":
            n = itv.t["n"]
            xs = itv.t["xs"]
            return n, (lambda k: SV("obj", xs[k]))
        return None


CHAN_ASSUMPTIONS = {
    "A-AQUEUE": "asyncio.Queue (cooperative): get() on a non-empty queue pops the head without suspending; on an empty queue it suspends and "
                "later either pops the head of the then non-empty queue or raises CancelledError having taken nothing; put() appends (suspending "
                "first while a bounded queue is full); task_done() raises ValueError iff there is no unfinished task; FIFO order",
}
