"""Model for the field compilers of the protoc plugin (C03): `self` is a FieldCompiler whose `proto_obj` is a
FieldDescriptorProto record with symbolic components (type number, label, proto3_optional, type_name, name, number,
oneof_index presence); the parent message, the output file and the typing compiler are opaque objects whose observable
results are uninterpreted (A-PLUGIN-ENV).  The FieldDescriptorProtoType / Label enums are read from the bundled
betterproto.lib.std.google.protobuf source (name <-> number tables, concrete)."""
import ast
import itertools
import re as _re
import z3

from . import front
from .sym import SV, NONE, IntS, BoolS, StrS, sv_int, sv_bool, sv_str, sv_tuple, concrete_str, concrete_int
from .exec import Unsupported, Raised

_ctr = itertools.count()
ENUM_MOD = "betterproto.lib.std.google.protobuf"
ENUM_PREFIX = "betterproto.lib.google.protobuf."

TC_LIST = z3.Function("TC_LIST", StrS, StrS)
TC_OPTIONAL = z3.Function("TC_OPTIONAL", StrS, StrS)
TC_DICT = z3.Function("TC_DICT", StrS, StrS, StrS)
ISMAPF = z3.Function("ISMAPF", IntS, StrS, StrS, BoolS)          # (type, type_name, field name) within the fixed parent
ISBUILTIN = z3.Function("ISBUILTIN", StrS, BoolS)
NORMNAME = z3.Function("NORMNAME", StrS, StrS)                    # s.replace("_", "").lower()
LASTSEG = z3.Function("LASTSEG", StrS, StrS)                      # s.split(".").pop()
NT_NAME = z3.Function("NT_NAME", IntS, StrS)
NT_MAPENTRY = z3.Function("NT_MAPENTRY", IntS, BoolS)
NT_N = z3.Int("NT_N")
PYNAME = z3.Function("PYNAME", StrS, StrS)                        # pythonize_field_name (contract in the names area)


def enum_table(cls):
    mi = front.load_module(ENUM_MOD)
    node = mi.classes[cls]
    out = {}
    for s in node.body:
        if isinstance(s, ast.Assign) and len(s.targets) == 1 and isinstance(s.targets[0], ast.Name):
            v = s.value
            if isinstance(v, ast.Constant) and isinstance(v.value, int):
                out[s.targets[0].id] = v.value
            elif isinstance(v, ast.UnaryOp) and isinstance(v.op, ast.USub) and isinstance(v.operand, ast.Constant):
                out[s.targets[0].id] = -v.operand.value
    return out


def gstr(choices, default):
    """guarded concrete strings -> z3 string"""
    t = default
    for cond, s in reversed(choices):
        t = z3.If(cond, z3.StringVal(s), t)
    return t


class PluginFieldPlugin:
    SPEC_NAMES = {"HAS_ONEOF_INDEX_OF", "ISMAP", "TYPEREF", "USE_BUILTINS", "TCLIST", "TCOPTIONAL", "TCDICT", "NUMSTR", "GROUPNAME", "HAS_ONEOF_INDEX",
                  "PYNAME_OF", "WRAPS_TEXT", "ISMAP_DEF", "NORMNAME_OF", "LASTSEG_OF", "NT_NAME_AT", "NT_MAPENTRY_AT", "NT_COUNT",
                  "PARENT_HAS_NESTED", "K_TYPE", "V_TYPE", "PY_K", "PY_V"}

    def __init__(self):
        self._tables = {}

    @staticmethod
    def active(ex):
        """the hooks of this model only apply while a function of betterproto.plugin.models is being verified (other
        areas loaded for the same property have their own string / list models)"""
        return getattr(ex, "qualname", "").startswith("betterproto.plugin.models.")

    def table(self, cls):
        if cls not in self._tables:
            self._tables[cls] = enum_table(cls)
        return self._tables[cls]

    # ------------------------------------------------------------------ parameters
    def fd_record(self, ex, st, p):
        comps = {"type": sv_int(z3.Int(f"{p}.type")), "label": sv_int(z3.Int(f"{p}.label")),
                 "proto3_optional": sv_bool(z3.Bool(f"{p}.proto3_optional")), "type_name": sv_str(z3.String(f"{p}.type_name")),
                 "name": sv_str(z3.String(f"{p}.name")), "number": sv_int(z3.Int(f"{p}.number")),
                 "oneof_index": sv_int(z3.Int(f"{p}.oneof_index"))}
        for k, v in comps.items():
            ex.inputs[f"{p}.{k}"] = v.t
        st.assume(z3.And(comps["number"].t >= 1, comps["number"].t < 2 ** 29, comps["type"].t >= 1, comps["type"].t <= 18,
                         comps["label"].t >= 1, comps["label"].t <= 3, comps["oneof_index"].t >= 0))
        has = z3.Bool(f"{p}.has_oneof_index")
        ex.inputs[f"{p}.has_oneof_index"] = has
        return SV("rec", dict(comps, **{"$has_oneof_index": sv_bool(has)}), "FieldDescriptorProto")

    def make_model_param(self, ex, st, p, model):
        if model in ("fieldcompiler", "oneofcompiler", "mapcompiler"):
            st.heap[(p, "proto_obj")] = self.fd_record(ex, st, f"{p}.proto_obj")
            st.heap[(p, "$kind")] = SV("const", model)
            st.assume(NT_N >= 0)
            ex.inputs["NT_N"] = NT_N
            if model == "mapcompiler":
                for k in ("proto_k_type", "proto_v_type", "py_k_type", "py_v_type"):
                    v = z3.String(f"{p}.{k}")
                    ex.inputs[f"{p}.{k}"] = v
                    st.heap[(p, k)] = sv_str(v)
            return SV("ref", p, "fieldcompiler")
        if model == "fdproto":
            return self.fd_record(ex, st, p)
        if model == "parentmsg":
            st.assume(NT_N >= 0)
            ex.inputs["NT_N"] = NT_N
            has = z3.Bool(f"{p}.has_nested_type")
            ex.inputs[f"{p}.has_nested_type"] = has
            return SV("fcparent", (p, has))
        return None

    # ------------------------------------------------------------------ spec names
    def spec_has(self, name):
        return name in self.SPEC_NAMES

    def rec_of(self, st, key="self"):
        return st.heap[(key, "proto_obj")].t

    def spec_call(self, ex, name, pos, st):
        if name == "HAS_ONEOF_INDEX_OF":
            return pos[0].t["$has_oneof_index"]
        if name == "NUMSTR":
            return sv_str(z3.IntToStr(ex.as_int(pos[0], st)))
        if name == "TCLIST":
            return sv_str(TC_LIST(pos[0].t))
        if name == "TCOPTIONAL":
            return sv_str(TC_OPTIONAL(pos[0].t))
        if name == "TCDICT":
            return sv_str(TC_DICT(pos[0].t, pos[1].t))
        if name == "PYNAME_OF":
            return sv_str(PYNAME(pos[0].t))
        if name == "NORMNAME_OF":
            return sv_str(NORMNAME(pos[0].t))
        if name == "LASTSEG_OF":
            return sv_str(LASTSEG(pos[0].t))
        if name == "NT_NAME_AT":
            return sv_str(NT_NAME(ex.as_int(pos[0], st)))
        if name == "NT_MAPENTRY_AT":
            return sv_bool(NT_MAPENTRY(ex.as_int(pos[0], st)))
        if name == "NT_COUNT":
            return sv_int(NT_N)
        if name == "PARENT_HAS_NESTED":
            return sv_bool(pos[0].t[1])
        if name == "ISMAP_DEF":
            # ISMAP_DEF(type, type_name, name, parent)
            return sv_bool(self.ismap_def(ex.as_int(pos[0], st), pos[1].t, pos[2].t, pos[3].t[1]))
        r = self.rec_of(st)
        if name == "ISMAP":
            return sv_bool(self.ismap_def(r["type"].t, r["type_name"].t, r["name"].t, z3.BoolVal(True)))
        if name == "HAS_ONEOF_INDEX":
            return r["$has_oneof_index"]
        if name == "TYPEREF":
            return sv_str(z3.Function("TYPEREF", StrS, StrS)(r["type_name"].t))
        if name == "USE_BUILTINS":
            # the field's Python type collides with a builtin-named field of the parent message, or the field itself
            # is named like its own (builtin) type
            scalar = ex.truth(ex.eng.spec.call(ex, "IS_SCALAR_TYPE", [r["type"]], st))
            pyt = z3.If(scalar, ex.eng.spec.call(ex, "PY_TYPE", [r["type"]], st).t, z3.Function("TYPEREF", StrS, StrS)(r["type_name"].t))
            pyn = PYNAME(r["name"].t)
            return sv_bool(z3.Or(z3.Function("IN_PARENT_BUILTINS", StrS, BoolS)(pyt), z3.And(pyt == pyn, ISBUILTIN(pyn))))
        if name == "GROUPNAME":
            return sv_str(z3.Function("ONEOF_DECL_NAME", IntS, StrS)(r["oneof_index"].t))
        if name == "WRAPS_TEXT":
            return sv_str(self.wraps_text(r["type_name"].t)[1])
        if name in ("K_TYPE", "V_TYPE", "PY_K", "PY_V"):
            k = {"K_TYPE": "proto_k_type", "V_TYPE": "proto_v_type", "PY_K": "py_k_type", "PY_V": "py_v_type"}[name]
            return st.heap[("self", k)]
        raise Unsupported(name)

    def ismap_def(self, t, tn, name, has_nested):
        """is_map by definition (a map field is a repeated message field whose type is the nested, map_entry-flagged
        message named <FieldName>Entry): the shape the is_map contract states, as a term"""
        j = z3.Int("j!ismap")
        entry = z3.Concat(NORMNAME(name), z3.StringVal("entry"))
        ex_ = z3.Exists([j], z3.And(0 <= j, j < NT_N, NORMNAME(NT_NAME(j)) == entry, NT_MAPENTRY(j)))
        return z3.And(t == 11, has_nested, NORMNAME(LASTSEG(tn)) == entry, ex_)

    # ------------------------------------------------------------------ wrappers: regex + hasattr evaluated on the real tables
    WRAP_RE = r"\.google\.protobuf\.(.+)Value$"

    def wrapper_names(self):
        """every type name `.google.protobuf.<X>Value` for which betterproto has TYPE_<X.upper()>: computed from the
        real betterproto module source (module-level TYPE_* constants)"""
        if not hasattr(self, "_wrappers"):
            mi = front.load_module("betterproto")
            consts = {n for n in mi.assigns if n.startswith("TYPE_")}
            self._consts = consts
        return self._consts

    def wraps_text(self, tn):
        """(is-wrapper, text) as a z3 term over the symbolic type name: exact for the well-known wrapper messages,
        None for every other name that does not match the pattern; names matching the pattern but unknown here are
        left unconstrained (fresh)"""
        consts = self.wrapper_names()
        choices = []
        for x in ("Double", "Float", "Int64", "UInt64", "Int32", "UInt32", "Bool", "String", "Bytes"):
            full = f".google.protobuf.{x}Value"
            m = _re.match(self.WRAP_RE, full)
            wt = "TYPE_" + m.group(1).upper()
            if wt in consts:
                choices.append((tn == z3.StringVal(full), f"betterproto.{wt}"))
        text = gstr(choices, z3.StringVal(""))
        return z3.Or(*[c for c, _ in choices]), text

    # ------------------------------------------------------------------ attribute protocol
    PROPS = ("optional", "repeated", "field_wraps", "py_type", "use_builtins", "annotation", "field_type", "betterproto_field_args",
             "py_name", "proto_name", "packed")

    def getattr_hook(self, ex, st, v, attr):
        if not self.active(ex):
            return None
        if v.extra != "fieldcompiler":
            return None
        if (v.t, attr) in st.heap:
            return None
        if attr == "parent":
            return [(st, SV("fcparent", (v.t, z3.BoolVal(True))))]
        if attr == "typing_compiler":
            return [(st, SV("tcobj", v.t))]
        if attr == "output_file":
            return [(st, SV("outfile", v.t))]
        if attr in self.PROPS:
            kind = st.heap[(v.t, "$kind")].t
            cls = {"fieldcompiler": "FieldCompiler", "oneofcompiler": "OneOfFieldCompiler", "mapcompiler": "MapEntryCompiler"}[kind]
            for c in (cls, "FieldCompiler"):
                q = f"betterproto.plugin.models.{c}.{attr}"
                if q in ex.eng.contracts and not ex.qualname == q:
                    n = ast.Name(id=attr, ctx=ast.Load())
                    n.lineno = getattr(ex, "cur_line", 0) or 0
                    n.col_offset = 0
                    return list(ex.call_repo(q, [], {}, st, n, recv=v))
            raise Unsupported(f"property {attr} of a field compiler has no contract")
        return [(st, SV("func", ("method", v, attr)))]

    def attr_hook(self, ex, st, v, attr):
        if not self.active(ex):
            return None
        if v.kind == "fcparent":
            if attr == "nested_type":
                return [(st, SV("ntlist", v.t))]
            if attr == "builtins_types":
                return [(st, SV("opaqueset", v.t))]
            if attr == "proto_obj":
                return [(st, SV("parentproto", v.t))]
            return [(st, SV("func", ("method", v, attr)))]
        if v.kind == "parentproto" and attr == "oneof_decl":
            return [(st, SV("oneofdecls", v.t))]
        if v.kind == "oneofdecl" and attr == "name":
            return [(st, sv_str(z3.Function("ONEOF_DECL_NAME", IntS, StrS)(v.t)))]
        if v.kind in ("tcobj", "opaqueset", "rematch", "ntrec", "enummember", "dotsplit"):
            if v.kind == "ntrec" and attr == "name":
                return [(st, sv_str(NT_NAME(v.t)))]
            if v.kind == "ntrec" and attr == "options":
                return [(st, SV("ntopts", v.t))]
            if v.kind == "enummember" and attr == "name":
                cls, t = v.t
                tab = self.table(cls)
                c = concrete_int(t)
                if c is not None:
                    names = [n for n, x in tab.items() if x == c]
                    if not names:
                        raise Unsupported("enum value without a name")
                    return [(st, sv_str(names[0]))]
                fresh = z3.String(f"enumname!{next(_ctr)}")
                ch = [(t == x, n) for n, x in tab.items()]
                return [(st, SV("str", gstr(ch, fresh), ("gstr", ch, fresh)))]
            return [(st, SV("func", ("method", v, attr)))]
        if v.kind == "ntopts" and attr == "map_entry":
            return [(st, sv_bool(NT_MAPENTRY(v.t)))]
        if v.kind == "outfile":
            return [(st, SV("func", ("method", v, attr)))]
        if v.kind == "fcsuper":
            if attr in self.PROPS:
                q = f"betterproto.plugin.models.FieldCompiler.{attr}"
                if q in ex.eng.contracts:
                    n = ast.Name(id=attr, ctx=ast.Load())
                    n.lineno = getattr(ex, "cur_line", 0) or 0
                    n.col_offset = 0
                    return list(ex.call_repo(q, [], {}, st, n, recv=v.t))
            raise Unsupported(f"super().{attr}")
        return None

    def value_attr_hook(self, ex, st, v, attr):
        if not self.active(ex):
            return None
        # string methods on guarded concrete strings are mapped over the choices (exact)
        if v.kind == "str" and isinstance(v.extra, tuple) and v.extra and v.extra[0] == "gstr":
            return [(st, SV("func", ("method", v, attr)))]
        if v.kind == "rec" and v.extra == "FieldDescriptorProto" and attr not in v.t:
            raise Unsupported(f"FieldDescriptorProto.{attr}")
        return None

    def index_hook(self, ex, seq, idx, st):
        if not self.active(ex):
            return None
        if seq.kind == "oneofdecls":
            return [(st, SV("oneofdecl", ex.as_int(idx, st)))]
        return None

    def iter_hook(self, ex, st, itv):
        if not self.active(ex):
            return None
        if itv.kind == "ntlist":
            return NT_N, (lambda i: SV("ntrec", i))
        return None

    def list_literal(self, ex, st):
        if not self.active(ex):
            return None
        return [(st, SV("tuple", [], "pylist"))]

    def truth_hook(self, ex, v):
        if not self.active(ex):
            return None
        if v.kind == "tuple":
            return z3.BoolVal(len(v.t) > 0)
        if v.kind == "rematch":
            return z3.BoolVal(v.t is not None) if not isinstance(v.t, tuple) else v.t[0]
        return None

    # ------------------------------------------------------------------ calls
    def call_method(self, ex, recv, name, pos, kw, st, node):
        if not self.active(ex):
            return None
        if recv.kind == "tuple" and name == "append" and len(pos) == 1:
            # a local list literal built by appends: concrete length, rebinding the local that holds it
            for k_, v_ in list(st.env.items()):
                if v_ is recv:
                    st2 = st.clone()
                    st2.env[k_] = SV("tuple", list(recv.t) + [pos[0]], "pylist")
                    return [(st2, NONE)]
            raise Unsupported("append on an untracked list")
        if recv.kind == "str" and isinstance(recv.extra, tuple) and recv.extra and recv.extra[0] == "gstr" and not kw:
            args = [concrete_str(p.t) if p.kind == "str" else None for p in pos]
            if name in ("lower", "upper", "replace", "strip") and None not in args:
                _, choices, fresh = recv.extra
                new = [(c, getattr(s, name)(*args)) for c, s in choices]
                fresh2 = z3.String(f"gstr!{next(_ctr)}")
                return [(st, SV("str", gstr(new, fresh2), ("gstr", new, fresh2)))]
        if recv.kind == "str" and name == "replace" and len(pos) == 2 and concrete_str(pos[0].t) == "_" and concrete_str(pos[1].t) == "":
            return [(st, SV("str", recv.t, ("nounderscore", recv.t)))]
        if recv.kind == "str" and name == "lower" and isinstance(recv.extra, tuple) and recv.extra and recv.extra[0] == "nounderscore":
            ex.assumption("A-PLUGIN-STR")
            return [(st, sv_str(NORMNAME(recv.extra[1])))]
        if recv.kind == "str" and name == "lower" and isinstance(recv.extra, tuple) and recv.extra and recv.extra[0] == "lastseg":
            ex.assumption("A-PLUGIN-STR")
            return [(st, sv_str(NORMNAME(LASTSEG(recv.extra[1]))))]
        if recv.kind == "str" and name == "split" and len(pos) == 1 and concrete_str(pos[0].t) == ".":
            return [(st, SV("dotsplit", recv.t))]
        if recv.kind == "dotsplit" and name == "pop" and not pos:
            ex.assumption("A-PLUGIN-STR")
            return [(st, SV("str", LASTSEG(recv.t), ("lastseg", recv.t)))]
        if recv.kind == "tcobj":
            if name == "list" and len(pos) == 1:
                return [(st, sv_str(TC_LIST(ex.coerce(pos[0], "str", st, "type").t)))]
            if name == "optional" and len(pos) == 1:
                return [(st, sv_str(TC_OPTIONAL(ex.coerce(pos[0], "str", st, "type").t)))]
            if name == "dict" and len(pos) == 2:
                return [(st, sv_str(TC_DICT(ex.coerce(pos[0], "str", st, "k").t, ex.coerce(pos[1], "str", st, "v").t)))]
            raise Unsupported(f"typing compiler method {name}")
        if recv.kind == "opaqueset" and name == "add":
            return [(st, NONE)]            # parent.builtins_types: bookkeeping of the parent message, outside this contract
        if recv.kind == "rematch" and name == "group":
            fresh = z3.String(f"group!{next(_ctr)}")
            return [(st, SV("str", gstr(recv.t[1], fresh), ("gstr", recv.t[1], fresh)))]
        if recv.kind == "str" and name == "join" and len(pos) == 1 and pos[0].kind == "tuple" and concrete_str(recv.t) is not None:
            parts = []
            for i, x in enumerate(pos[0].t):
                if i:
                    parts.append(recv.t)
                parts.append(ex.coerce(x, "str", st, "join element").t)
            return [(st, sv_str(z3.Concat(*parts) if len(parts) > 1 else (parts[0] if parts else z3.StringVal(""))))]
        if recv.kind == "fcsuper":
            raise Unsupported("method call through super()")
        return None

    def binop_hook(self, ex, op, a, b, st):
        if not self.active(ex):
            return None
        # "TYPE_" + <guarded concrete strings>: mapped over the choices
        if isinstance(op, ast.Add) and a.kind == "str" and b.kind == "str" and isinstance(b.extra, tuple) and b.extra and b.extra[0] == "gstr" \
                and concrete_str(a.t) is not None:
            new = [(c, concrete_str(a.t) + s_) for c, s_ in b.extra[1]]
            fresh = z3.String(f"gstr!{next(_ctr)}")
            return SV("str", gstr(new, fresh), ("gstr", new, fresh))
        if isinstance(op, ast.Add) and a.kind == "tuple" and b.kind == "tuple":
            return SV("tuple", list(a.t) + list(b.t), "pylist")
        return None

    def format_value(self, ex, v, st):
        if not self.active(ex):
            return None
        if v.kind == "int":
            return sv_str(z3.IntToStr(v.t))
        if v.kind == "obj":
            from .sym import PyObj
            return sv_str(z3.If(PyObj.is_PStr(v.t), PyObj.pstr(v.t),
                                z3.If(PyObj.is_PNone(v.t), z3.StringVal("None"), z3.String(f"fmt!{next(_ctr)}"))))
        if v.kind == "str":
            return v
        return None

    def call_builtin(self, ex, name, pos, kw, st, node):
        if not self.active(ex):
            return None
        if name.startswith(ENUM_PREFIX) and name.split(".")[-1] in ("FieldDescriptorProtoType", "FieldDescriptorProtoLabel") and len(pos) == 1:
            return [(st, SV("enummember", (name.split(".")[-1], ex.as_int(pos[0], st))))]
        if name == "re.match" and len(pos) == 2 and concrete_str(pos[0].t) == self.WRAP_RE and pos[1].kind == "str":
            # the wrapper pattern on a symbolic type name: decided exactly for the well-known wrapper names; a name that
            # is none of them is assumed not to match (A-PLUGIN-WRAPPERS: no other message is called .google.protobuf.*Value
            # AND has a TYPE_* constant, checked against the real module source in wrapper_names())
            ex.assumption("A-PLUGIN-WRAPPERS")
            isw, text = self.wraps_text(pos[1].t)
            yes, no = st.clone(), st.clone()
            yes.assume(isw)
            no.assume(z3.Not(isw))
            ch = []
            for x in ("Double", "Float", "Int64", "UInt64", "Int32", "UInt32", "Bool", "String", "Bytes"):
                full = f".google.protobuf.{x}Value"
                ch.append((pos[1].t == z3.StringVal(full), _re.match(self.WRAP_RE, full).group(1)))
            return [(yes, SV("rematch", (z3.BoolVal(True), ch, pos[1].t))), (no, NONE)]
        if name == "hasattr" and len(pos) == 2 and pos[0].kind == "func" and pos[0].t == ("builtin", "betterproto") \
                and isinstance(pos[1].extra, tuple) and pos[1].extra and pos[1].extra[0] == "gstr":
            consts = self.wrapper_names()
            return [(st, sv_bool(z3.Or(*[c for c, s_ in pos[1].extra[1] if s_ in consts])))]
        if name == "super" and not pos and "self" in st.env and st.env["self"].kind == "ref" and st.env["self"].extra == "fieldcompiler":
            return [(st, SV("fcsuper", st.env["self"]))]
        if name == "hasattr" and len(pos) == 2 and pos[0].kind == "fcparent" and concrete_str(pos[1].t) == "nested_type":
            return [(st, sv_bool(pos[0].t[1]))]
        if name == "dir" and len(pos) == 1 and pos[0].kind == "func" and pos[0].t == ("builtin", "builtins"):
            return [(st, SV("builtinnames", None))]
        return None

    def contains_hook(self, ex, a, b, st):
        if not self.active(ex):
            return None
        if b.kind == "builtinnames":
            ex.assumption("A-PLUGIN-ENV")
            return ISBUILTIN(ex.coerce(a, "str", st, "name").t)
        if b.kind == "opaqueset":
            ex.assumption("A-PLUGIN-ENV")
            return z3.Function("IN_PARENT_BUILTINS", StrS, BoolS)(ex.coerce(a, "str", st, "name").t)
        return None

    def builtin_value(self, ex, name):
        if not self.active(ex):
            return None
        if name.startswith(ENUM_PREFIX):
            parts = name[len(ENUM_PREFIX):].split(".")
            if len(parts) == 2 and parts[0] in ("FieldDescriptorProtoType", "FieldDescriptorProtoLabel"):
                tab = self.table(parts[0])
                if parts[1] in tab:
                    return sv_int(tab[parts[1]])
        return None

    def call_repo(self, ex, qualname, pos, kw, st, node):
        if not self.active(ex):
            return None
        if qualname == "betterproto.which_one_of" and pos and pos[0].kind == "rec" and pos[0].extra == "FieldDescriptorProto":
            # the monkey-patched FieldDescriptorProto: oneof_index is the sole member of the group "oneof_index"
            if concrete_str(pos[1].t) != "oneof_index":
                raise Unsupported("which_one_of on a descriptor for another group")
            has = pos[0].t["$has_oneof_index"].t
            return [(st, sv_tuple([sv_str(z3.If(has, z3.StringVal("oneof_index"), z3.StringVal(""))), SV("const", "<value>")]))]
        if qualname == "betterproto.compile.importing.get_type_reference":
            ex.assumption("C-TYPEREF")
            st_ = kw.get("source_type")
            return [(st, sv_str(z3.Function("TYPEREF", StrS, StrS)(st_.t)))]
        if qualname == "betterproto.compile.naming.pythonize_field_name":
            ex.assumption("C-PYNAME")
            return [(st, sv_str(PYNAME(pos[0].t)))]
        return None


PLUGIN_ASSUMPTIONS = {
    "A-PLUGIN-ENV": "the parent message's builtins_types set, dir(builtins) and the output file are opaque: membership tests are uninterpreted predicates; parent.builtins_types.add() is bookkeeping outside the field contracts",
    "A-PLUGIN-STR": "s.replace('_', '').lower() = NORMNAME(s) and s.split('.').pop() = LASTSEG(s), uninterpreted (the same functions appear in the specification of is_map, so only their determinism is used)",
    "A-PLUGIN-WRAPPERS": "re.match(r'\\.google\\.protobuf\\.(.+)Value$', name) followed by hasattr(betterproto, 'TYPE_' + group.upper()) succeeds exactly for the nine well-known wrapper names (the TYPE_* constants are read from the real betterproto source on every run); other names of that shape (e.g. .google.protobuf.EnumValue, for which TYPE_ENUM exists) are outside the contract and left to the bounded stand-in",
    "C-TYPEREF": "get_type_reference(...) returns an uninterpreted text TYPEREF(type_name) here; its own contracts are in the imports area (C13)",
    "C-PYNAME": "pythonize_field_name(name) = PYNAME(name); its contract is in the names area (C19)",
}
