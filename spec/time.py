"""Spec functions for Timestamp / Duration (DESIGN App. C.4), from the protobuf well-known-type definitions."""


def TS_SEC(us: int) -> int:
    """Timestamp.seconds for an instant us microseconds after the epoch (floor)"""
    return us // 1000000


def TS_NANOS(us: int) -> int:
    """Timestamp.nanos: always in [0, 1e9)"""
    return (us % 1000000) * 1000


def DUR_SEC(us: int) -> int:
    """Duration.seconds: truncation toward zero"""
    if us >= 0:
        return us // 1000000
    return -((-us) // 1000000)


def DUR_NANOS(us: int) -> int:
    """Duration.nanos: same sign as the span"""
    if us >= 0:
        return (us % 1000000) * 1000
    return -(((-us) % 1000000) * 1000)
