"""Spec: the proto3 JSON mapping of scalar values and map keys (C04 / C05), written from
https://protobuf.dev/programming-guides/json/ :  64-bit integers are decimal strings, bytes are standard base64
strings, the three non-finite floats are the strings "Infinity" / "-Infinity" / "NaN", map keys are strings
(bool keys "true" / "false"), everything else is the JSON value itself.

DECSTR / PARSEINT / B64 / UNB64 are CPython's str(int) / int(str) / base64 codecs (A-DECSTR, A-BASE64): uninterpreted,
with the inverse laws stated as assumed lemmas in contracts/jsonscalar.py."""
from spec.pyobj import (uninterpreted, is_bool, is_int, is_pint, as_int, is_float, is_str, as_str,  # noqa: F401
                        is_bytes, as_bytes, mk_int, mk_str, mk_bytes, mk_bool, is_finf, is_fninf, is_fnan, mk_float_id)


def IS_INT64_KIND(t: str) -> bool:
    return t == "int64" or t == "uint64" or t == "sint64" or t == "fixed64" or t == "sfixed64"


def IS_FLOAT_KIND(t: str) -> bool:
    return t == "float" or t == "double"


def IS_INTKEY_KIND(t: str) -> bool:
    """integer kinds that may be the key type of a map"""
    return (t == "int32" or t == "int64" or t == "uint32" or t == "uint64" or t == "sint32" or t == "sint64"
            or t == "fixed32" or t == "fixed64" or t == "sfixed32" or t == "sfixed64")


@uninterpreted
def DECSTR(n: int) -> str:
    """decimal numeral of an integer: str(n)"""
    return str(n)


@uninterpreted
def ISNUMERAL(s: str) -> bool:
    """int(s) is defined"""
    try:
        int(s)
        return True
    except ValueError:
        return False


@uninterpreted
def PARSEINT(s: str) -> int:
    """int(s) where defined"""
    try:
        return int(s)
    except ValueError:
        return 0


@uninterpreted
def B64(b: bytes) -> str:
    """standard base64 with padding, as text"""
    import base64
    return base64.b64encode(b).decode("ascii")


@uninterpreted
def ISB64(s: str) -> bool:
    import base64
    import binascii
    try:
        base64.b64decode(s)
        return True
    except (binascii.Error, ValueError):
        return False


@uninterpreted
def UNB64(s: str) -> bytes:
    import base64
    import binascii
    try:
        return base64.b64decode(s)
    except (binascii.Error, ValueError):
        return b""


@uninterpreted
def FLOATOF(v: object) -> int:
    """float(v) as an id of the opaque float model; for a float it is the float itself (stated at the use site).
    Native reading: the float (mk_float_id passes floats through)."""
    return float(v)


def JSONS(t: str, v: object) -> object:
    """canonical proto3 JSON form of a scalar value v of kind t"""
    if IS_INT64_KIND(t):
        return mk_str(DECSTR(as_int(v)))
    if t == "bytes":
        return mk_str(B64(as_bytes(v)))
    if IS_FLOAT_KIND(t):
        if is_finf(v):
            return mk_str("Infinity")
        if is_fninf(v):
            return mk_str("-Infinity")
        if is_fnan(v):
            return mk_str("NaN")
    return v


def JSONP_DEFINED(t: str, j: object) -> bool:
    """the JSON value j is readable as a scalar of kind t"""
    if IS_INT64_KIND(t):
        return (is_str(j) and ISNUMERAL(as_str(j))) or is_int(j)
    if t == "bytes":
        return is_str(j) and ISB64(as_str(j))
    return True


def JSONP(t: str, j: object) -> object:
    """reading the JSON form back (also accepts the non-canonical forms JSON parsers must accept: numbers for
    64-bit integers); floats other than the three special strings go through float()"""
    if IS_INT64_KIND(t):
        if is_str(j):
            return mk_int(PARSEINT(as_str(j)))
        return mk_int(as_int(j))
    if t == "bytes":
        return mk_bytes(UNB64(as_str(j)))
    if IS_FLOAT_KIND(t):
        if is_str(j) and as_str(j) == "Infinity":
            return mk_float_id(3)
        if is_str(j) and as_str(j) == "-Infinity":
            return mk_float_id(7)
        if is_str(j) and as_str(j) == "NaN":
            return mk_float_id(4)
        if is_float(j):
            return j
        return mk_float_id(FLOATOF(j))
    return j


def JSONKEY(t: str, k: object) -> str:
    """the JSON object key of a map key k of kind t (what json.dumps writes: A-JSON-KEYS)"""
    if t == "string":
        return as_str(k)
    if t == "bool":
        if as_int(k) != 0:
            return "true"
        return "false"
    return DECSTR(as_int(k))


def KEYP(t: str, s: str) -> object:
    """reading a JSON object key back into the key type"""
    if t == "string":
        return mk_str(s)
    if t == "bool":
        return mk_bool(s == "true")
    return mk_int(PARSEINT(s))


def KEYTY(t: str, k: object) -> bool:
    if t == "string":
        return is_str(k)
    if t == "bool":
        return is_bool(k)
    return IS_INTKEY_KIND(t) and is_pint(k)
