"""C07 — oneof exclusivity after any history."""
AREAS = ["varint", "single", "frame", "msg", "msgload"]
LEVEL = "other"
ONLY = None
EXPLANATION = (
    "Message.load step clause C07-oneof-member-becomes-selected: after a record of a oneof member the member is the "
    "selected one and every sibling is reset (last wins, any order); dump's WIRE contributes nothing for unselected members. "
    "The contracts of __setattr__/__post_init__ are used as models (C-SETATTR) and exercised, together with copy / "
    "deepcopy / pickle / from_dict histories, by the bounded stand-in (random operation sequences on OneOfs).")
ASSUMED = ["C-SETATTR / C-GETATTR models of the attribute protocol", "histories: bounded random sequences"]
from pyvc.check import standin_bounded
BOUNDED = [standin_bounded("C07")]
