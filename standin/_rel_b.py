"""C08 (unknown fields / schema evolution), C10 (delimited streams),
C14 (observer purity, copy / deepcopy / pickle)."""
import os
import sys

sys.path.insert(0, os.path.join(os.environ.get("PYVC_REPO", "/repo"), "src"))

import copy
import io
import pickle

import betterproto

from . import corpus as C
from . import wire as W
from .relcommon import Collector, blame, exc, same_message, short, oneof_state

SIZE_DELIMITED = betterproto.SIZE_DELIMITED


def _plain_decode_differs_same_way(m, got):
    """True when ``got`` is exactly what a plain parse(bytes(m)) yields, i.e.
    the difference to m is not specific to the path under test (C01 reports
    it)."""
    try:
        direct = type(m)().parse(bytes(m))
        return not C.bp_diff(direct, got, presence=False) and bytes(direct) == bytes(got)
    except Exception:
        return False


# ===================================================================== C08


def C08(m, rnd):
    col = Collector("C08")
    cls = type(m)
    try:
        base = bytes(m)
        recs = W.split(base)
    except Exception as e:
        col.add("harness:encode-or-split-raises", exc(e))
        return col.result()
    known = W.known_numbers(cls)

    # (a) newer writer -> older reader/writer -> newer reader
    if cls is C.NewSchema:
        try:
            old = C.OldSchema().parse(base)
            b2 = bytes(old)
            v2 = C.NewSchema().parse(b2)
            diffs = same_message(m, v2, presence=True, nan_tolerant=True)
            if diffs and not _plain_decode_differs_same_way(m, v2):
                col.add_diffs("old-schema-roundtrip", diffs)
            if sorted(r.raw for r in W.split(b2)) != sorted(r.raw for r in recs):
                col.add("old-schema-roundtrip-records", "records changed: %s -> %s" % (base.hex()[:100], b2.hex()[:100]))
            # the older writer may use any of the write paths (SerializeToString, dump, delimited dump)
            s1, s2 = io.BytesIO(), io.BytesIO()
            old.dump(s1)
            old.dump(s2, SIZE_DELIMITED)
            if old.SerializeToString() != b2 or s1.getvalue() != b2:
                col.add("old-schema-writers-disagree", "bytes %s SerializeToString %s dump %s" % (b2.hex()[:80], old.SerializeToString().hex()[:80], s1.getvalue().hex()[:80]))
            if s2.getvalue() != _ref_frame(b2):
                col.add("old-schema-delimited-relay-framing", "wrote %s, expected %s" % (s2.getvalue().hex()[:100], _ref_frame(b2).hex()[:100]))
            else:
                v3 = C.NewSchema().load(io.BytesIO(s2.getvalue()), SIZE_DELIMITED)
                if bytes(v3) != bytes(v2):
                    col.add("old-schema-delimited-relay-value", "%s -> %s" % (bytes(v2).hex()[:100], bytes(v3).hex()[:100]))
        except Exception as e:
            for t in blame(m, lambda i: C.NewSchema().parse(bytes(C.OldSchema().parse(bytes(i)))) and False):
                col.add("old-schema-roundtrip-raises:%s" % t, exc(e))

    # (b) the whole message as unknown fields of an empty schema
    try:
        e = C.Empty().parse(base)
        be = bytes(e)
        if be != base:
            col.add("all-unknown-reemit", "%s -> %s" % (base.hex()[:100], be.hex()[:100]))
    except Exception as e:
        col.add("all-unknown-raises", exc(e))

    # (c) arbitrary unknown records interleaved among the known ones
    for variant in range(3):
        try:
            extra = W.random_unknown(cls, rnd, 4 if variant == 0 else rnd.randint(1, 6), pad=(variant == 2))
            data_recs = W.interleave(recs, extra, rnd)
            if variant == 1 and extra:
                # also at the very beginning and the very end
                data_recs = [extra[0]] + [r for r in data_recs if r is not extra[0]]
            data = W.join(data_recs)
            exp_unknown = [r.raw for r in data_recs if r.number not in known]
            wts = ",".join(sorted({str(r.wt) for r in extra}))
            try:
                p = cls().parse(data)
            except Exception as e:
                col.add("interleaved-parse-raises", "%s on %s" % (exc(e), data.hex()[:120]))
                continue
            ref = cls().parse(base)
            diffs = same_message(ref, p, presence=True, nan_tolerant=True)
            col.add_diffs("known-fields-disturbed", diffs, prefix="(unknown wire types %s) " % wts)
            out = bytes(p)
            got_unknown = [r.raw for r in W.split(out) if r.number not in known]
            if got_unknown != exp_unknown:
                lost = [x for x in exp_unknown if x not in got_unknown]
                what = "lost" if lost else ("reordered" if sorted(got_unknown) == sorted(exp_unknown) else "altered")
                col.add(
                    "unknown-not-reemitted:%s%s" % (what, "-padded" if variant == 2 and what != "reordered" else ""),
                    "expected %s got %s" % ([x.hex() for x in exp_unknown][:6], [x.hex() for x in got_unknown][:6]),
                )
            got_known = [r for r in W.split(out) if r.number in known]
            if W.join(got_known) != bytes(ref)[: len(W.join(got_known))] and W.join(got_known) != W.join([r for r in W.split(bytes(ref)) if r.number in known]):
                col.add("known-fields-reencoded-differently", "%s vs %s" % (W.join(got_known).hex()[:100], bytes(ref).hex()[:100]))
        except Exception as e:
            col.add("harness:interleave-raises", exc(e))
    return col.result()


# ===================================================================== C10


def _ref_frame(payload):
    try:
        from google.protobuf.internal.encoder import _VarintBytes

        return _VarintBytes(len(payload)) + payload
    except Exception:
        return W.enc_varint(len(payload)) + payload


def _msg_class(x, b):
    if len(b) == 0:
        return "empty-message"
    if C.carries_unknown(x):
        return "unknown-fields"
    return "plain"


def _eq_written(written, got):
    """got is acceptable as 'the message written'."""
    if type(got) is not type(written):
        return False
    if not C.bp_diff(written, got, presence=False):
        return True
    return _plain_decode_differs_same_way(written, got)


def C10(m, rnd):
    col = Collector("C10")
    seq = [m] + [C.random_instance(rnd) for _ in range(rnd.randint(0, 3))]
    rnd.shuffle(seq)
    try:
        payloads = [bytes(x) for x in seq]
    except Exception as e:
        col.add("harness:encode-raises", exc(e))
        return col.result()
    kinds = [_msg_class(x, b) for x, b in zip(seq, payloads)]
    stream = io.BytesIO()
    try:
        for x in seq:
            x.dump(stream, SIZE_DELIMITED)
    except Exception as e:
        col.add("dump-raises", exc(e))
        return col.result()
    data = stream.getvalue()
    expected = b"".join(_ref_frame(p) for p in payloads)
    if data != expected:
        col.add("framing", "stream %s, reference framing %s" % (data.hex()[:100], expected.hex()[:100]))
        return col.result()
    # the reference reads the frames back
    try:
        from google.protobuf.internal.decoder import _DecodeVarint32

        pos = 0
        for p in payloads:
            ln, pos = _DecodeVarint32(data, pos)
            if data[pos : pos + ln] != p:
                col.add("framing-reference-read", "frame mismatch")
            pos += ln
    except Exception as e:
        col.add("harness:reference-framing-raises", exc(e))

    ends = []
    off = 0
    for p in payloads:
        off += len(_ref_frame(p))
        ends.append(off)

    # full read back
    s = io.BytesIO(data)
    for i, x in enumerate(seq):
        ctx = "%s#%d-of-%d" % (kinds[i], i, len(seq))
        nxt = kinds[i + 1] if i + 1 < len(seq) else "end"
        try:
            got = type(x)().load(s, SIZE_DELIMITED)
        except Exception as e:
            col.add("readback-raises:%s" % kinds[i], "%s reading %s (%s) from %s" % (exc(e), type(x).__name__, ctx, data.hex()[:100]))
            break
        if not _eq_written(x, got):
            col.add("readback-value:%s" % kinds[i], "wrote %s read %s" % (short(x), short(got)))
            break
        if s.tell() != ends[i]:
            col.add("readback-offset:%s" % kinds[i], "consumed up to %d, frame ends at %d" % (s.tell(), ends[i]))
            break

    # older reader for a newer writer
    if any(type(x) is C.NewSchema for x in seq):
        s = io.BytesIO(data)
        for i, x in enumerate(seq):
            rcls = C.OldSchema if type(x) is C.NewSchema else type(x)
            try:
                got = rcls().load(s, SIZE_DELIMITED)
            except Exception as e:
                col.add("old-reader-raises:%s" % ("newer-writer" if rcls is C.OldSchema else kinds[i]), exc(e))
                break
            if rcls is C.OldSchema:
                try:
                    want = C.OldSchema().parse(payloads[i])
                    if C.bp_diff(want, got, presence=False) or bytes(want) != bytes(got):
                        col.add("old-reader-value", "parse gives %s, load gives %s" % (short(want), short(got)))
                        break
                except Exception as e:
                    col.add("harness:old-parse-raises", exc(e))
            if s.tell() != ends[i]:
                col.add("old-reader-offset:%s" % ("newer-writer" if rcls is C.OldSchema else kinds[i]), "consumed up to %d, frame ends at %d" % (s.tell(), ends[i]))
                break

    # cut points
    n = len(data)
    cuts = set(range(n + 1)) if n <= 96 else (set(rnd.sample(range(n + 1), 64)) | set(ends) | {e - 1 for e in ends} | {0, n})
    for cut in sorted(cuts):
        s = io.BytesIO(data[:cut])
        for i, x in enumerate(seq):
            try:
                got = type(x)().load(s, SIZE_DELIMITED)
            except Exception:
                break
            if not _eq_written(x, got):
                where = "inside-frame" if cut < ends[i] else "after-frame"
                col.add(
                    "cut-yields-different-message:%s:%s" % (kinds[i], where),
                    "cut at %d/%d: message %d (%s) frame ends %d; wrote %s, load returned %s" % (cut, n, i, type(x).__name__, ends[i], short(x), short(got)),
                )
                break
    return col.result()


# ===================================================================== C14


def _attr_reads(x):
    for f in C.SCHEMAS[type(x)]:
        try:
            v = getattr(x, f.name)
            if f.is_plain_message and isinstance(v, betterproto.Message):
                for g in C.SCHEMAS[type(v)]:
                    try:
                        getattr(v, g.name)
                    except AttributeError:
                        pass
        except AttributeError:
            pass


OBSERVERS = [
    ("attribute-reads", _attr_reads),
    ("bytes", lambda x: bytes(x)),
    ("len", lambda x: len(x)),
    ("eq", lambda x: (x == x, x == type(x)(), x != None)),  # noqa: E711
    ("bool", lambda x: bool(x)),
    ("repr", lambda x: repr(x)),
    ("to_dict", lambda x: x.to_dict()),
    ("to_dict-defaults", lambda x: x.to_dict(include_default_values=True)),
    ("to_json", lambda x: x.to_json()),
    ("to_pydict", lambda x: x.to_pydict()),
]


def _state(x):
    """Observable state, computed in an order that does not let one part of
    the snapshot influence the next one on both sides differently."""
    st = {}
    st["presence"] = C.presence_report(x)  # raw is_set / which_one_of: no reads
    try:
        st["bytes"] = bytes(x)
    except Exception as e:
        st["bytes"] = "raises " + exc(e)
    st["nested"] = C.nested_presence(x)
    return st


def _compare_state(col, site, a, b, base_msg, obs_msg):
    if a["presence"] != b["presence"]:
        ch = sorted(k for k in a["presence"] if a["presence"][k] != b["presence"].get(k))
        kinds = sorted({k.split(":")[0] for k in ch})
        col.add("%s:presence-changed:%s" % (site, "+".join(kinds)), "changed %s: before %s after %s" % (ch[:4], [a["presence"][k] for k in ch[:4]], [b["presence"].get(k) for k in ch[:4]]))
    if a["bytes"] != b["bytes"]:
        what = "bytes-raises-afterwards" if isinstance(b["bytes"], str) else "bytes-changed"
        col.add("%s:%s" % (site, what), "before %s after %s" % (short(a["bytes"]), short(b["bytes"])))
    if a["nested"] != b["nested"]:
        col.add("%s:nested-presence-changed" % site, "before %s after %s" % (a["nested"], b["nested"]))
    if not _self_equal(base_msg):
        return  # (NaN inside a container: not even two untouched twins are ==)
    try:
        if not (base_msg == obs_msg) or not (obs_msg == base_msg):
            col.add("%s:equality-changed" % site, "untouched twin no longer equal")
    except Exception as e:
        col.add("%s:equality-raises-afterwards" % site, exc(e))


def _self_equal(x):
    """Two independently built twins compare equal (false only for NaN in
    containers, which C01 reports)."""
    try:
        from .relcommon import _nan_in_container

        return not _nan_in_container(x)
    except Exception:
        return True


def _mutate_everything(x):
    """In-place and by-assignment mutation of every field of x."""
    for f in C.SCHEMAS[type(x)]:
        if f.group and C._selected(x, f.group) != f.name:
            continue
        try:
            v = getattr(x, f.name)
        except AttributeError:
            continue
        if isinstance(v, list):
            v.append(v[0] if v else C.pool(f.elem_kind)[1].make())
            if v and isinstance(v[0], betterproto.Message) and C.SCHEMAS[type(v[0])]:
                _mutate_everything(v[0])
        elif isinstance(v, dict):
            for k in list(v):
                if isinstance(v[k], betterproto.Message):
                    _mutate_everything(v[k])
            v[C._key_pool(f.key_kind)[-1]] = C.pool(C._elem_kind(f.value_kind, f.value_type_name))[1].make()
        elif isinstance(v, betterproto.Message):
            if f.type_name == "Rec":
                v.v = (v.v or 0) + 17
            else:
                _mutate_everything(v)
        else:
            alts = [p.make() for p in C.pool(f.elem_kind)]
            for a in alts:
                if a is not None and not (a == v) and not isinstance(a, betterproto.Message):
                    setattr(x, f.name, a)
                    break
            else:
                if alts and isinstance(alts[1], betterproto.Message):
                    setattr(x, f.name, alts[1])


_RECURSIVE = (C.Outer, C.Rec)


class _Skip(Exception):
    pass


def _variants(m):
    """m as constructed, as decoded from its bytes, as loaded from its dict."""
    yield "constructed", (lambda: C.rebuild(m))
    try:
        b = bytes(C.rebuild(m))
        cls = type(m)
        yield "decoded", (lambda: cls().parse(b))
    except Exception:
        pass


def C14(m, rnd):
    col = Collector("C14")
    for vname, fresh in _variants(m):
        pre = "" if vname == "constructed" else vname + ":"
        cpre = ""
        try:
            twin = fresh()
            base_state = _state(twin)  # the snapshot of an untouched twin
        except Exception as e:
            col.add("harness:rebuild-raises", exc(e))
            continue
        usable = [o for o in OBSERVERS if not (o[0] == "to_dict-defaults" and type(m) in _RECURSIVE)]
        # observers one at a time, each on a fresh instance (a rotating
        # half of them per case keeps the run time bounded)
        if vname == "constructed":
            chosen = rnd.sample(usable, min(len(usable), 5))
        else:
            chosen = []
        for oname, obs in chosen:
            try:
                x = fresh()
            except Exception as e:
                col.add("harness:rebuild-raises", exc(e))
                break
            try:
                obs(x)
            except Exception:
                pass  # whether observers may raise is not C14's subject
            _compare_state(col, "%safter-%s" % (pre, oname), base_state, _state(x), twin, x)
        single_observer_failed = bool(col.items)
        # a random sequence of all observers
        try:
            x = fresh()
            order = usable[:]
            rnd.shuffle(order)
            for oname, obs in order:
                try:
                    obs(x)
                except Exception:
                    pass
            probe = Collector("C14")
            _compare_state(probe, "%safter-observer-sequence" % pre, base_state, _state(x), twin, x)
            if probe.items and not single_observer_failed:
                for it in probe.items:
                    col.add(it.match.split(":", 1)[1], it.detail)
        except Exception as e:
            col.add("harness:sequence-raises", exc(e))

        # copies
        def _pickle(x):
            return pickle.loads(pickle.dumps(x))

        for cname, fn, deep in (("copy", copy.copy, False), ("deepcopy", copy.deepcopy, True), ("pickle", _pickle, True)):
            try:
                x, twin = fresh(), fresh()
            except Exception as e:
                col.add("harness:rebuild-raises", exc(e))
                break
            unk = "-with-unknown-fields" if (C.carries_unknown(m)) else ""
            try:
                c = fn(x)
            except Exception as e:
                for t in blame(m, lambda i, fn=fn: fn(i) and False):
                    col.add("%s%s-raises:%s" % (cpre, cname, t), exc(e))
                continue
            # compare presence first (no reads), then bytes, then equality
            if cname == "pickle":
                try:
                    ref_x = fresh()
                    direct = type(ref_x)().parse(bytes(ref_x))
                    if bytes(direct) == bytes(c) and not C.bp_diff(direct, c, presence=True):
                        # pickling is exactly a wire round trip; what the wire
                        # round trip loses is C01's finding, not C14's
                        x = fresh()
                        c_is_wire_faithful = True
                    else:
                        c_is_wire_faithful = False
                except Exception:
                    c_is_wire_faithful = False
            else:
                c_is_wire_faithful = False
            try:
                if c_is_wire_faithful:
                    raise _Skip()
                sel_x, sel_c = oneof_state(x), oneof_state(c)
                if sel_x != sel_c:
                    col.add("%s%s:oneof-selection" % (cpre, cname), "%s vs %s" % (sel_x, sel_c))
                bx, bc = bytes(x), bytes(c)
                if bx != bc:
                    def pred(i, fn=fn):
                        return bytes(fn(i)) != bytes(i)

                    if unk and W.join([r for r in W.split(bx) if r.number in W.known_numbers(type(m))]) == W.join([r for r in W.split(bc) if r.number in W.known_numbers(type(m))]):
                        col.add("%s%s-drops-unknown" % (cpre, cname), "original %s copy %s" % (bx.hex()[:80], bc.hex()[:80]))
                    else:
                        tags = blame(m, pred) if vname == "constructed" else blame(m, lambda i, fn=fn: bytes(fn(type(i)().parse(bytes(i)))) != bytes(i))
                        for t in tags:
                            col.add("%s%s-bytes:%s" % (cpre, cname, t), "original %s copy %s" % (bx.hex()[:80], bc.hex()[:80]))
                npx, npc = C.nested_presence(x), C.nested_presence(c)
                if npx != npc:
                    col.add("%s%s:nested-presence" % (cpre, cname), "%s vs %s" % (npx, npc))
                if not (x == c) or not (c == x):
                    diffs = C.bp_diff(x, c, presence=False)
                    if diffs:
                        col.add_diffs("%s%s:not-equal" % (cpre, cname), diffs)
                    else:
                        col.add("%s%s:not-equal:eq-operator" % (cpre, cname), "== is False")
            except _Skip:
                pass
            except Exception as e:
                col.add("%s%s:compare-raises" % (cpre, cname), exc(e))
            if deep:
                try:
                    _mutate_everything(c)
                    sa, sb = _state(twin), _state(x)
                    if sa["bytes"] != sb["bytes"] or (_self_equal(twin) and not (twin == x)):
                        col.add("%s%s:mutating-copy-affects-original" % (cpre, cname), "original now %s, expected %s" % (short(sb["bytes"]), short(sa["bytes"])))
                except Exception as e:
                    col.add("harness:mutate-raises:%s" % cname, exc(e))
    return col.result()
