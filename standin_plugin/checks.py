"""Bounded end-to-end checkers for C03, C18, C13, C11 (real plugin, real generated code).

Each check_* returns
  {"property", "cases", "distinct_nontrivial", "failures": [{"match","detail","schema"}],
   "n_failures", "failure_counts", "samples", "skipped", "assumptions", "coverage", "seconds"}
"""
from __future__ import annotations

import concurrent.futures as cf
import json
import os
import random
import re
import zlib
import subprocess
import sys
import time
from typing import Dict, List, Optional, Tuple

from . import gen
from .gen import norm

WORKERS = max(2, min(14, (os.cpu_count() or 4) - 2))
MAX_EXAMPLES_PER_KEY = 2


# --------------------------------------------------------------------------
# result collection
# --------------------------------------------------------------------------
class Collector:
    def __init__(self, prop: str):
        self.prop = prop
        self.failures: List[dict] = []
        self.counts: Dict[str, int] = {}
        self.skipped: List[dict] = []
        self.samples: List[dict] = []
        self.cases = 0
        self.nontrivial: set = set()
        self.coverage: Dict[str, int] = {}
        self.t0 = time.time()

    def fail(self, match: str, detail: str, schema: str) -> None:
        self.counts[match] = self.counts.get(match, 0) + 1
        if self.counts[match] <= MAX_EXAMPLES_PER_KEY:
            self.failures.append({"match": match, "detail": detail[:1800], "schema": schema[:1500]})

    def skip(self, what: str, why: str) -> None:
        for s in self.skipped:
            if s["what"] == what and s["why"] == why:
                s["count"] += 1
                return
        self.skipped.append({"what": what, "why": why[:600], "count": 1})

    def cover(self, feats: Dict[str, int]) -> None:
        for k, v in feats.items():
            self.coverage[k] = self.coverage.get(k, 0) + v

    def result(self, extra: Optional[dict] = None) -> dict:
        d = {
            "property": self.prop,
            "cases": self.cases,
            "distinct_nontrivial": len(self.nontrivial),
            "failures": self.failures,
            "n_failures": sum(self.counts.values()),
            "failure_counts": dict(sorted(self.counts.items())),
            "samples": self.samples[:3],
            "skipped": self.skipped,
            "assumptions": list(gen.ASSUMPTIONS),
            "coverage": dict(sorted(self.coverage.items())),
            "seconds": round(time.time() - self.t0, 1),
        }
        if extra:
            d.update(extra)
        return d


def alias_collision(schema) -> bool:
    """two packages of the schema get the same import alias (`alpha.beta` and `alpha_beta` both become __alpha_beta__):
    a recorded defect of the alias scheme (known finding, reproduced deterministically by the edge schema
    alias-collision-packages and systematically by the C13 schemas); every failure of such a schema is attributed to it"""
    pk = [p for p in schema.packages() if p]
    return any(a != b and a.replace(".", "_") == b.replace(".", "_") for a in pk for b in pk)


def log(*a) -> None:
    print(*a, file=sys.stderr, flush=True)


_EXC_RE = re.compile(r"^([A-Za-z_][\w\.]*(?:Error|Exception|Exit|Warning|Interrupt))\b(?::\s*(.*))?$")


def crash_signature(stderr: str) -> Tuple[str, str]:
    """(exception type, last line) of a plugin traceback."""
    last = ("UnknownError", "")
    for line in stderr.splitlines():
        m = _EXC_RE.match(line.strip())
        if m:
            last = (m.group(1).split(".")[-1], line.strip()[:300])
    return last


def pydantic_available() -> bool:
    try:
        cp = subprocess.run([gen.VENV_PY, "-c", "import pydantic"], capture_output=True, timeout=60)
        return cp.returncode == 0
    except Exception:
        return False


def parallel(jobs, fn):
    out = [None] * len(jobs)
    with cf.ThreadPoolExecutor(max_workers=WORKERS) as ex:
        futs = {ex.submit(fn, j): i for i, j in enumerate(jobs)}
        for fu in cf.as_completed(futs):
            i = futs[fu]
            try:
                out[i] = fu.result()
            except Exception as e:  # harness bug: surface it loudly but keep going
                import traceback
                log("HARNESS ERROR in job", i, traceback.format_exc())
                out[i] = {"harness_error": "%s: %s" % (type(e).__name__, e)}
    # the deterministic edge schemas are part of the stated bound: one that protoc rejects (or that the generator's
    # own ground truth disagrees with) is a defect of this harness, never a silent skip
    for j, r in zip(jobs, out):
        tag = j[0] if isinstance(j, tuple) and j and isinstance(j[0], str) else ""
        if tag.startswith("edge:") and isinstance(r, dict) and r.get("skip") and r["skip"][0] in ("generator-invalid", "truth-mismatch"):
            raise RuntimeError("edge schema %s is not usable: %s: %s" % (tag, r["skip"][0], r["skip"][1]))
    return out


# --------------------------------------------------------------------------
# truth cross-check with protoc's descriptors (validates the GENERATOR, not betterproto)
# --------------------------------------------------------------------------
_PB_TYPE = {1: "double", 2: "float", 3: "int64", 4: "uint64", 5: "int32", 6: "fixed64", 7: "fixed32",
            8: "bool", 9: "string", 11: "message", 12: "bytes", 13: "uint32", 14: "enum",
            15: "sfixed32", 16: "sfixed64", 17: "sint32", 18: "sint64"}


def crosscheck_truth(truth: dict, ds_path: str) -> Optional[List[str]]:
    """Compare the generator's ground truth with protoc's FileDescriptorSet.
    Returns a list of discrepancies ([] = agree) or None if google.protobuf is unavailable."""
    try:
        from google.protobuf import descriptor_pb2
    except Exception:
        return None
    fds = descriptor_pb2.FileDescriptorSet()
    with open(ds_path, "rb") as fh:
        fds.ParseFromString(fh.read())
    probs: List[str] = []
    seen_msgs, seen_enums = set(), set()

    def walk(pkg: str, m, path: Tuple[str, ...]):
        p = path + (m.name,)
        key = ".".join(p)
        if m.options.map_entry:
            return
        t = truth["packages"].get(pkg, {}).get("messages", {}).get(key)
        seen_msgs.add((pkg, key))
        if t is None:
            probs.append("descriptor has message %s.%s unknown to truth" % (pkg, key))
            return
        entries = {n.name: n for n in m.nested_type if n.options.map_entry}
        tf = {f["number"]: f for f in t["fields"]}
        if len(tf) != len(m.field):
            probs.append("%s.%s: %d fields in descriptor, %d in truth" % (pkg, key, len(m.field), len(tf)))
        for f in m.field:
            e = tf.get(f.number)
            if e is None:
                probs.append("%s.%s: field %d missing in truth" % (pkg, key, f.number))
                continue
            is_map = f.type == 11 and f.type_name.split(".")[-1] in entries and f.label == 3
            if is_map:
                en = entries[f.type_name.split(".")[-1]]
                kt, vt = _PB_TYPE[en.field[0].type], _PB_TYPE[en.field[1].type]
                if e["proto_type"] != "map" or e["map_types"] != [kt, vt]:
                    probs.append("%s.%s.%s: map types %s vs truth %s" % (pkg, key, f.name, [kt, vt], e["map_types"]))
                tn = en.field[1].type_name
            else:
                if e["proto_type"] != _PB_TYPE[f.type]:
                    probs.append("%s.%s.%s: type %s vs truth %s" % (pkg, key, f.name, _PB_TYPE[f.type], e["proto_type"]))
                if (f.label == 3) != (e["label"] == "repeated"):
                    probs.append("%s.%s.%s: repeated mismatch" % (pkg, key, f.name))
                tn = f.type_name
            if bool(f.proto3_optional) != e["optional"]:
                probs.append("%s.%s.%s: proto3_optional mismatch" % (pkg, key, f.name))
            grp = m.oneof_decl[f.oneof_index].name if (f.HasField("oneof_index") and not f.proto3_optional) else None
            if grp != e["group"]:
                probs.append("%s.%s.%s: oneof %s vs truth %s" % (pkg, key, f.name, grp, e["group"]))
            ty = e["type"]
            if ty["kind"] != "scalar":
                exp = ".google.protobuf." + ty["name"] if ty["kind"] == "wkt" else \
                    "." + ".".join(([ty["pkg"]] if ty["pkg"] else []) + ty["path"])
                if tn != exp:
                    probs.append("%s.%s.%s: type_name %s vs truth %s" % (pkg, key, f.name, tn, exp))
            if f.name != e["name"]:
                probs.append("%s.%s: field %d name %s vs truth %s" % (pkg, key, f.number, f.name, e["name"]))
        for en in m.enum_type:
            check_enum(pkg, en, p)
        for n in m.nested_type:
            walk(pkg, n, p)

    def check_enum(pkg: str, en, path: Tuple[str, ...]):
        key = ".".join(path + (en.name,))
        seen_enums.add((pkg, key))
        t = truth["packages"].get(pkg, {}).get("enums", {}).get(key)
        if t is None:
            probs.append("descriptor has enum %s.%s unknown to truth" % (pkg, key))
            return
        if [[v.name, v.number] for v in en.value] != t["values"]:
            probs.append("enum %s.%s values differ" % (pkg, key))

    for fd in fds.file:
        if fd.package == "google.protobuf":
            continue
        for m in fd.message_type:
            walk(fd.package, m, ())
        for en in fd.enum_type:
            check_enum(fd.package, en, ())
        tsv = truth["packages"].get(fd.package, {}).get("services", {})
        for sv in fd.service:
            t = tsv.get(sv.name)
            if t is None or len(t["methods"]) != len(sv.method):
                probs.append("service %s differs" % sv.name)
                continue
            for me, tm in zip(sv.method, t["methods"]):
                if (me.name, me.client_streaming, me.server_streaming) != (tm["name"], tm["cs"], tm["ss"]):
                    probs.append("method %s.%s differs" % (sv.name, me.name))
    for pkg, p in truth["packages"].items():
        for k in p["messages"]:
            if (pkg, k) not in seen_msgs:
                probs.append("truth message %s.%s not in descriptor" % (pkg, k))
        for k in p["enums"]:
            if (pkg, k) not in seen_enums:
                probs.append("truth enum %s.%s not in descriptor" % (pkg, k))
    return probs


# --------------------------------------------------------------------------
# comparing a child dump with the ground truth (C03 core)
# --------------------------------------------------------------------------
def field_kind(ft: dict) -> str:
    ty = ft["type"]
    if ty["kind"] == "wkt":
        n = ty["name"]
        tk = "wkt-wrapper" if n in gen.WRAPPERS else ("wkt-" + n.lower() if n in ("Timestamp", "Duration") else "wkt-other")
    else:
        tk = ty["kind"]
    lab = "oneof" if ft["group"] else ft["label"]
    return "%s-%s" % (lab, tk)


def hint_matches(exp, got, dumps: dict, flavour: str) -> bool:
    if isinstance(exp, str):
        return got == exp
    if isinstance(exp, list):
        return (isinstance(got, list) and len(got) == len(exp) and got[0] == exp[0]
                and all(hint_matches(e, g, dumps, flavour) for e, g in zip(exp[1:], got[1:])))
    if not isinstance(got, dict):
        return False
    if "wkt" in exp:
        return got.get("name") == exp["wkt"] and got.get("mod") == "betterproto.lib.%s.google.protobuf" % flavour
    pkg, path = exp["ref"]
    mod = dumps.get(gen.module_of(pkg))
    if not mod or not mod.get("ok"):
        return False
    table = mod["messages"] if exp["kind"] == "message" else mod["enums"]
    ids = [v["id"] for n, v in table.items() if norm(n) == norm("".join(path))]
    return len(ids) == 1 and got.get("id") == ids[0]


def enum_name_ok(proto: str, py: str) -> bool:
    p = py.strip("_")
    return proto == py or proto == py.rstrip("_") or bool(p and proto.endswith(p))


def compare_dump_with_truth(truth: dict, dumps: dict, flavour: str = "std", pydantic_oneof_optional: bool = False):
    """yield (match_suffix, detail).  match_suffix is appended to '<PROP>:'."""
    out: List[Tuple[str, str]] = []
    for pkg, pt in truth["packages"].items():
        mod = dumps.get(pt["module"])
        if mod is None or not mod.get("ok"):
            continue  # import errors are reported by the caller
        for table, tkey in (("messages", "messages"), ("enums", "enums")):
            own = mod[table]
            used: Dict[str, List[str]] = {}
            for full, t in pt[tkey].items():
                flat = "".join(t["path"])
                hits = [n for n in own if norm(n) == norm(flat)]
                if not hits:
                    out.append(("missing-class:%s" % table[:-1], "%s %s.%s (expected a class ~%s) not defined in %s; module defines %s"
                                % (table[:-1], pkg, full, flat, pt["module"], sorted(own))))
                    continue
                if len(hits) > 1:
                    out.append(("ambiguous-class:%s" % table[:-1], "%s.%s matches classes %s" % (pkg, full, hits)))
                for h in hits:
                    used.setdefault(h, []).append(full)
            for cname, fulls in used.items():
                if len(fulls) > 1:
                    out.append(("class-collision:%s" % table[:-1],
                                "schema %s %s of package '%s' are all represented by the single class %s (one shadows the other)"
                                % (table, fulls, pkg, cname)))
            extra = [n for n in own if n not in used]
            if extra:
                out.append(("extra-class:%s" % table[:-1], "module %s defines classes %s that correspond to no schema %s"
                            % (pt["module"], extra, table[:-1])))
        # fields
        for full, t in pt["messages"].items():
            flat = "".join(t["path"])
            hits = [n for n in mod["messages"] if norm(n) == norm(flat)]
            if len(hits) != 1:
                continue
            # skip messages that share their class with another message (reported above)
            if sum(1 for f2, t2 in pt["messages"].items() if norm("".join(t2["path"])) == norm(flat)) > 1:
                continue
            c = mod["messages"][hits[0]]
            where = "%s.%s (class %s.%s)" % (pkg, full, pt["module"], hits[0])
            if c.get("error") or c.get("meta_error") or c.get("hint_error"):
                err = c.get("error") or c.get("meta_error") or c.get("hint_error")
                out.append(("class-unusable:%s" % err.split(":")[0], "%s: %s" % (where, err)))
                continue
            if c.get("instance_error"):
                err = c["instance_error"]
                out.append(("default-instance:%s" % err.split(":")[0], "%s: %s" % (where, err)))
            by_num: Dict[int, List[dict]] = {}
            for f in c["fields"]:
                by_num.setdefault(f.get("number"), []).append(f)
            if len(c["fields"]) != len(t["fields"]):
                out.append(("field-count", "%s: %d schema fields, %d dataclass fields %s" % (
                    where, len(t["fields"]), len(c["fields"]), [f["name"] for f in c["fields"]])))
            for ft in t["fields"]:
                fk = field_kind(ft)
                got = by_num.get(ft["number"], [])
                if len(got) != 1:
                    out.append(("field-missing" if not got else "field-duplicate",
                                "%s: schema field %s = %d has %d dataclass fields" % (where, ft["name"], ft["number"], len(got))))
                    continue
                g = got[0]
                fw = "%s field `%s` = %d [%s] -> python `%s`" % (where, ft["name"], ft["number"], fk, g["name"])
                if norm(g["name"]) != norm(ft["name"]):
                    out.append(("field-name", "%s: name not recognisable" % fw))
                exp_optional = ft["optional"] or (pydantic_oneof_optional and ft["group"] is not None)
                for attr, exp in (("proto_type", ft["proto_type"]), ("map_types", ft["map_types"]), ("group", ft["group"]),
                                  ("wraps", ft["wraps"]), ("optional", exp_optional)):
                    if g.get(attr) != exp:
                        out.append(("field-mismatch:%s:%s" % (attr, fk), "%s: %s is %r, schema says %r" % (fw, attr, g.get(attr), exp)))
                if g.get("meta_field_error"):
                    out.append(("field-unusable:%s" % g["meta_field_error"].split(":")[0], "%s: %s" % (fw, g["meta_field_error"])))
                    continue
                if ft["label"] == "repeated" and g.get("default_gen") != "list":
                    out.append(("field-mismatch:cardinality:%s" % fk, "%s: default_gen is %r, expected list" % (fw, g.get("default_gen"))))
                if ft["label"] == "map" and g.get("default_gen") != "dict":
                    out.append(("field-mismatch:cardinality:%s" % fk, "%s: default_gen is %r, expected dict" % (fw, g.get("default_gen"))))
                if ft["label"] in ("singular", "optional") and g.get("default_gen") in ("list", "dict"):
                    out.append(("field-mismatch:cardinality:%s" % fk, "%s: default_gen is %r for a %s field" % (fw, g.get("default_gen"), ft["label"])))
                exp_hint = ft["hint"]
                if pydantic_oneof_optional and ft["group"] is not None and not (isinstance(exp_hint, list) and exp_hint[0] == "optional"):
                    exp_hint = ["optional", exp_hint]
                if not hint_matches(exp_hint, g.get("hint"), dumps, flavour):
                    shadow = "Field(name=" in json.dumps(g.get("hint"))
                    out.append(("field-mismatch:python-type:%s" % ("builtin-name-shadowed" if shadow else fk), "%s: type hint resolves to %s, expected %s"
                                % (fw, json.dumps(g.get("hint"))[:300], json.dumps(exp_hint)[:200])))
        # enums
        for full, t in pt["enums"].items():
            flat = "".join(t["path"])
            hits = [n for n in mod["enums"] if norm(n) == norm(flat)]
            if len(hits) != 1:
                continue
            if sum(1 for f2, t2 in pt["enums"].items() if norm("".join(t2["path"])) == norm(flat)) > 1:
                continue
            members = [list(m) for m in mod["enums"][hits[0]]["members"]]
            where = "enum %s.%s (class %s.%s)" % (pkg, full, pt["module"], hits[0])
            unused = list(members)
            for n, v in t["values"]:
                cand = [m for m in unused if m[1] == v and enum_name_ok(n, m[0])]
                cand.sort(key=lambda m: m[0] != n)
                if cand:
                    unused.remove(cand[0])
                    continue
                wrong = [m for m in members if enum_name_ok(n, m[0])]
                if wrong:
                    out.append(("enum-member-number", "%s: %s = %d but python members %s" % (where, n, v, wrong)))
                else:
                    out.append(("enum-member-missing", "%s: %s = %d has no python member; members %s" % (where, n, v, members)))
            if unused:
                out.append(("enum-member-extra", "%s: python members %s correspond to no schema value" % (where, unused)))
    return out


def module_list(truth: dict) -> List[str]:
    return [p["module"] for p in truth["packages"].values()]


def attribute_failure(schema: gen.Schema, options: List[str], predicate) -> str:
    """Find the first single-feature ablation after which `predicate(schema)` no longer fails."""
    for ab in gen.ABLATIONS:
        s2 = gen.ablate(schema, ab)
        if s2.protos() == schema.protos():
            continue
        try:
            if not predicate(s2):
                return ab
        except Exception:
            continue
    return "unattributed"


def import_failure_predicate(options: List[str], exc_type: Optional[str], crash: bool):
    def pred(s: gen.Schema) -> bool:
        r = gen.run_plugin_ex(s.protos(), options)
        try:
            if r.protoc_rejected:
                return True  # inconclusive ablation -> treat as still failing
            if not r.ok:
                return crash
            if crash:
                return False
            t = gen.schema_truth(s)
            d = gen.run_child("dump", r.out_dir, {"modules": module_list(t)})
            return any((not m.get("ok")) and m.get("error_type") == exc_type for m in d.get("modules", {}).values())
        finally:
            gen.cleanup(r.scratch)
    return pred


# --------------------------------------------------------------------------
# C03
# --------------------------------------------------------------------------
def _c03_job(job) -> dict:
    tag, schema = job
    truth = gen.schema_truth(schema)
    res = {"tag": tag, "fails": [], "skip": None, "info": {}, "schema": schema}
    r = gen.run_plugin_ex(schema.protos(), [], want_descriptor=True, named=schema.named())
    try:
        if r.protoc_rejected:
            res["skip"] = ("generator-invalid", r.stderr[-400:])
            log("protoc rejected generated schema", tag, r.stderr[-400:])
            return res
        if not r.ok:
            et, line = crash_signature(r.stderr)
            cause = attribute_failure(schema, [], import_failure_predicate([], None, True))
            res["fails"].append(("plugin-crash:%s:%s" % (et, cause), "plugin exited %d: %s (vanishes when ablating: %s)" % (r.returncode, line, cause)))
            return res
        if r.descriptor_set:
            probs = crosscheck_truth(truth, r.descriptor_set)
            if probs is None:
                res["info"]["descriptor_crosscheck"] = "unavailable"
            elif probs:
                res["skip"] = ("truth-mismatch", "; ".join(probs[:5]))
                log("TRUTH MISMATCH", tag, probs[:5])
                return res
            else:
                res["info"]["descriptor_crosscheck"] = "agree"
        d = gen.run_child("dump", r.out_dir, {"modules": module_list(truth)})
        if "child_error" in d:
            res["fails"].append(("child-crash", d["child_error"]))
            return res
        dumps = d["modules"]
        seen_err = set()
        for mn, m in dumps.items():
            if not m.get("ok"):
                et = m.get("error_type", "Error")
                if (et, m.get("error")) in seen_err:
                    continue
                seen_err.add((et, m.get("error")))
                cause = attribute_failure(schema, [], import_failure_predicate([], et, False))
                res["fails"].append((("import-error:builtin-name-shadowed" if cause == "builtin-type-names" else "import-error:%s:%s" % (et, cause)),
                                     "import %s -> %s (vanishes when ablating: %s)" % (mn, m.get("error"), cause)))
        res["fails"] += compare_dump_with_truth(truth, dumps)
        res["info"]["classes"] = sum(len(m.get("messages", {})) + len(m.get("enums", {})) for m in dumps.values())
        res["info"]["fields"] = sum(len(c["fields"]) for m in dumps.values() for c in m.get("messages", {}).values())
        return res
    finally:
        gen.cleanup(r.scratch)


def check_C03(seed: int, n: int) -> dict:
    col = Collector("C03")
    try:
        jobs = []
        for i in range(n):
            s = seed * 100003 + i
            sc = gen.gen_schema(s, "full", tricky_comments=(i % 6 == 5), risky_names=(i % 3 == 0))
            jobs.append(("random", (sc.roots_only() or sc) if i % 3 == 1 else sc))
        jobs += [("edge:" + tag, sc) for tag, sc in gen.edge_schemas()]
        results = parallel(jobs, _c03_job)
        for (tag, schema), res in zip(jobs, results):
            if res.get("harness_error"):
                col.skip("harness-error", res["harness_error"])
                continue
            if res["skip"]:
                col.skip(*res["skip"])
                continue
            col.cases += 1
            col.cover(schema.features)
            text = schema.text()
            if any(k.startswith(("ref.", "recursive.", "map.", "oneof")) for k in schema.features) or tag.startswith("edge:"):
                col.nontrivial.add(text)
            seen = set()
            for m, detail in res["fails"]:
                key = "C03:" + m
                if alias_collision(schema):
                    key = "C03:alias-collision:underscore-packages"
                elif "builtin-name-shadowed" in m:
                    pass  # one root cause, whichever schema triggered it
                elif tag.startswith("edge:") and not m.startswith(("import-error", "plugin-crash")):
                    key += ":" + tag[5:]
                elif tag.startswith("edge:"):
                    key = "C03:" + ":".join(m.split(":")[:2]) + ":" + tag[5:]
                if key in seen:
                    continue
                seen.add(key)
                col.fail(key, detail, text)
            if len(col.samples) < 3 and not tag.startswith("edge:"):
                col.samples.append({"case": tag, "packages": schema.packages(), "info": res["info"],
                                    "features": dict(list(schema.features.items())[:12]),
                                    "failed": sorted({m for m, _ in res["fails"]})})
        # bundled descriptor / well-known-type classes vs descriptor.proto / plugin.proto
        sc = gen.new_scratch()
        try:
            os.makedirs(os.path.join(sc, "out"))
            b = gen.run_child("bundled", os.path.join(sc, "out"), {})
        finally:
            gen.cleanup(sc)
        bd = b.get("bundled")
        if not bd:
            col.skip("bundled-comparison", str(b)[:400])
        else:
            col.cases += bd["compared_classes"]
            for mm in bd["mismatches"]:
                col.fail("C03:bundled-mismatch:%s" % mm["attr"], json.dumps(mm), "(descriptor.proto / plugin.proto as shipped with google.protobuf)")
            for e, v in (b.get("bundled_import_errors") or {}).items():
                if ".lib.std." in e:
                    col.fail("C03:bundled-import-error", "%s: %s" % (e, v), "")
                else:
                    # the plugin reads its input with the std flavour (betterproto.lib.google.protobuf*);
                    # an unimportable pydantic twin is a defect, but outside the quoted statement
                    col.skip("bundled-module-not-importable(outside statement: plugin uses the std flavour)", "%s: %s" % (e, v))
            col.samples.append({"case": "bundled-vs-descriptor_pb2", "compared_classes": bd["compared_classes"],
                                "compared_fields": bd["compared_fields"], "compared_enum_members": bd["compared_enum_members"],
                                "mismatches": len(bd["mismatches"]),
                                "fields_only_in_reference(not shared)": len(bd["reference_only_fields"]),
                                "fields_only_in_bundled(not shared)": bd["bundled_only_fields"]})
        return col.result()
    finally:
        gen.cleanup_all()


# --------------------------------------------------------------------------
# value recipes
# --------------------------------------------------------------------------
INT_RANGES = {
    "int32": (-2**31, 2**31 - 1), "sint32": (-2**31, 2**31 - 1), "sfixed32": (-2**31, 2**31 - 1),
    "uint32": (0, 2**32 - 1), "fixed32": (0, 2**32 - 1),
    "int64": (-2**63, 2**63 - 1), "sint64": (-2**63, 2**63 - 1), "sfixed64": (-2**63, 2**63 - 1),
    "uint64": (0, 2**64 - 1), "fixed64": (0, 2**64 - 1),
}
WKT_RAW_RECIPES = {
    "Empty": {}, "Timestamp": {"1": 1700000000, "2": 5000}, "Duration": {"1": 12, "2": 340000000},
    "StringValue": {"1": "wrapped"}, "Int64Value": {"1": 1 << 40}, "Int32Value": {"1": -5}, "BoolValue": {"1": True},
    "Struct": {}, "FieldMask": {"1": {"l": ["a.b", "c"]}}, "DoubleValue": {"1": {"f": 1.5}}, "FloatValue": {"1": {"f": 0.25}},
    "UInt32Value": {"1": 7}, "UInt64Value": {"1": 9}, "BytesValue": {"1": {"b": "00ff"}}, "Value": {}, "ListValue": {}, "Any": {},
}


class ValueGen:
    def __init__(self, rng: random.Random, truth: dict):
        self.rng = rng
        self.msgs: Dict[Tuple[str, Tuple[str, ...]], dict] = {}
        self.enums: Dict[Tuple[str, Tuple[str, ...]], dict] = {}
        for pkg, p in truth["packages"].items():
            for t in p["messages"].values():
                self.msgs[(pkg, tuple(t["path"]))] = t
            for t in p["enums"].values():
                self.enums[(pkg, tuple(t["path"]))] = t

    def scalar(self, name: str, nonzero: bool = False):
        rng = self.rng
        if name in INT_RANGES:
            lo, hi = INT_RANGES[name]
            pool = [1, 127, 128, 300, hi, lo] + ([] if nonzero else [0])
            return rng.choice([v for v in pool if lo <= v <= hi and (v or not nonzero)])
        if name in ("double", "float"):
            return {"f": rng.choice([1.5, -0.25, 1024.0, 3.0] + ([] if nonzero else [0.0]))}
        if name == "bool":
            return True if nonzero else rng.choice([True, False])
        if name == "string":
            return rng.choice(["a", "héllo ☃", 'with "quote"', "x" * 200] + ([] if nonzero else [""]))
        if name == "bytes":
            return {"b": rng.choice(["00ff", "68656c6c6f", "80"] + ([] if nonzero else [""]))}
        raise KeyError(name)

    def leaf(self, ty: dict, depth: int, nonzero: bool = False, small: bool = False):
        k = ty["kind"]
        if k == "scalar":
            return self.scalar(ty["name"], nonzero)
        if k == "enum":
            vals = [v for _, v in self.enums[(ty["pkg"], tuple(ty["path"]))]["values"]]
            nz = [v for v in vals if v != 0]
            return {"e": self.rng.choice(nz if (nonzero and nz) else vals)}
        if k == "wkt":
            n = ty["name"]
            if n == "Timestamp":
                return {"ts": self.rng.choice([1, 1_600_000_000_123_456, 86_400_000_000, 253_402_300_799_000_000])}
            if n == "Duration":
                return {"dur": self.rng.choice([1, 1_500_000, 3_600_000_000, 86_400_000_000 * 400])}
            if n in gen.WRAPPERS:
                v = self.scalar(gen.WRAPPERS[n], nonzero)
                if small and isinstance(v, int) and not isinstance(v, bool):
                    # the runtime serialises a wrapper inside a map / repeated field with bytes(<int>),
                    # i.e. allocates that many zero bytes; keep the harness alive
                    v = v % 301
                    v = v or (1 if nonzero else 0)
                return v
            return {"m": {}}
        if depth <= 0:
            return {"m": {}}
        return {"m": self.message(ty["pkg"], tuple(ty["path"]), depth - 1, 1.0 if nonzero else 0.7)}

    def field(self, ft: dict, depth: int, nonzero: bool = False):
        if ft["label"] == "repeated":
            return {"l": [self.leaf(ft["type"], depth, nonzero, True) for _ in range(self.rng.randint(1, 3))]}
        if ft["label"] == "map":
            ks, out = set(), []
            for _ in range(self.rng.randint(1, 3)):
                k = self.scalar(ft["map_types"][0], False)
                if json.dumps(k) in ks:
                    continue
                ks.add(json.dumps(k))
                out.append([k, self.leaf(ft["type"], depth, nonzero, True)])
            return {"d": out}
        return self.leaf(ft["type"], depth, nonzero)

    def message(self, pkg: str, path: Tuple[str, ...], depth: int, p_include: float = 0.7) -> dict:
        t = self.msgs[(pkg, path)]
        out: Dict[str, object] = {}
        chosen: Dict[str, int] = {}
        for g in t["groups"]:
            members = [f for f in t["fields"] if f["group"] == g]
            if self.rng.random() < 0.8:
                chosen[g] = self.rng.choice(members)["number"]
        for f in t["fields"]:
            if f["group"]:
                if chosen.get(f["group"]) != f["number"]:
                    continue
            elif self.rng.random() > p_include:
                continue
            out[str(f["number"])] = self.field(f, depth)
        return out


def build_instances(truth: dict, rng: random.Random, per_message_full: int = 2) -> List[dict]:
    vg = ValueGen(rng, truth)
    out = []
    for pkg, p in truth["packages"].items():
        for full, t in p["messages"].items():
            flat = "".join(t["path"])
            base = {"module": p["module"], "flat": flat}
            out.append(dict(base, key="%s|%s|empty" % (pkg, full), kind="empty", recipe={}))
            for f in t["fields"]:
                for variant, nz in (("nonzero", True), ("any", False)):
                    out.append(dict(base, key="%s|%s|field%d|%s" % (pkg, full, f["number"], variant), kind=field_kind(f),
                                    recipe={str(f["number"]): vg.field(f, 1, nz)}))
                if f["type"]["kind"] == "enum" and f["label"] in ("singular", "optional", "repeated"):
                    # open enums: a number the enum does not define (every configuration must carry it like the default one)
                    vals = [v for _, v in vg.enums[(f["type"]["pkg"], tuple(f["type"]["path"]))]["values"]]
                    und = {"e": max(vals) + 7}
                    out.append(dict(base, key="%s|%s|field%d|undefined-enum" % (pkg, full, f["number"]), kind=field_kind(f),
                                    recipe={str(f["number"]): ({"l": [und]} if f["label"] == "repeated" else und)}))
            for i in range(per_message_full):
                out.append(dict(base, key="%s|%s|full%d" % (pkg, full, i), kind="multi-field",
                                recipe=vg.message(pkg, tuple(t["path"]), 2)))
    return out


# --------------------------------------------------------------------------
# C18
# --------------------------------------------------------------------------
CONFIGS = [
    ("typing.direct+std", []),  # baseline (the plugin's default)
    ("typing.root+std", ["typing.root"]),
    ("typing.310+std", ["typing.310"]),
    ("typing.direct+pydantic", ["typing.direct", "pydantic_dataclasses"]),
    ("typing.root+pydantic", ["typing.root", "pydantic_dataclasses"]),
    ("typing.310+pydantic", ["typing.310", "pydantic_dataclasses"]),
]


def config_label(names: List[str], active: List[str]) -> str:
    s = set(names)
    pyd = {c for c in active if c.endswith("+pydantic")}
    if pyd and s == pyd:
        return "pydantic"
    for t in ("typing.root", "typing.310", "typing.direct"):
        both = {c for c in active if c.startswith(t + "+")}
        if both and s == both:
            return t
    if s == set(active) - {active[0]}:
        return "all-non-default"
    if s == set(active):
        return "all-configs"
    return ",".join(sorted(s))


def _norm_hint(h, strip_optional: bool):
    if strip_optional and isinstance(h, list) and h and h[0] == "optional":
        h = h[1]
    if isinstance(h, list):
        return [h[0]] + [_norm_hint(x, False) for x in h[1:]]
    if isinstance(h, dict):
        if "mod" in h:
            return "%s:%s" % (re.sub(r"\.lib\.(std|pydantic)\.", ".lib.*.", h["mod"]), h["name"])
        return json.dumps(h, sort_keys=True)
    return h


def normalise_modules(dumps: dict) -> dict:
    """Configuration independent description of a generated tree."""
    out = {}
    for mn, m in dumps.items():
        if not m.get("ok"):
            out[mn] = {"import": "ERROR " + str(m.get("error_type"))}
            continue
        d = {"import": "ok", "classes": sorted(list(m["messages"]) + list(m["enums"]) + list(m["stubs"]) + list(m["bases"]))}
        for cn, c in m["messages"].items():
            if c.get("error") or c.get("meta_error") or c.get("hint_error"):
                d["msg:" + cn] = {"unusable": (c.get("error") or c.get("meta_error") or c.get("hint_error")).split(":")[0]}
                continue
            fd = {}
            for f in c["fields"]:
                grp = f.get("group")
                fd[str(f.get("number"))] = {
                    "name": f["name"], "proto_type": f.get("proto_type"), "map_types": f.get("map_types"), "group": grp,
                    "wraps": f.get("wraps"), "optional": None if grp else f.get("optional"),
                    "default_gen": None if grp else f.get("default_gen"),
                    "python-type": _norm_hint(f.get("hint"), bool(grp)),
                }
            d["msg:" + cn] = fd
        for en, e in m["enums"].items():
            d["enum:" + en] = {"members": e["members"]}
        for sn, s in m["stubs"].items():
            d["stub:" + sn] = {k: {"param": v.get("param"), "asyncgen": v.get("asyncgen"),
                                   "param_hint": _norm_hint(v.get("param_hint"), False) if "unresolved" not in json.dumps(v.get("param_hint")) else "UNRESOLVED",
                                   "return_hint": _norm_hint(v.get("return_hint"), False) if "unresolved" not in json.dumps(v.get("return_hint")) else "UNRESOLVED"}
                               for k, v in s["methods"].items()}
        for sn, s in m["bases"].items():
            mp = s.get("mapping")
            d["base:" + sn] = {"mapping_error": s.get("mapping_error")} if mp is None else {
                r: {"cardinality": h["cardinality"], "request": _norm_hint(h["request"], False), "reply": _norm_hint(h["reply"], False)}
                for r, h in mp.items()}
        out[mn] = d
    return out


def _canon_abstract(h):
    """collections.abc.X vs typing.X differ between typing styles by design; compare the leaf classes only."""
    if isinstance(h, list):
        return [_canon_abstract(x) for x in h[1:]] if h and h[0] in ("AsyncIterator", "AsyncIterable", "Iterable", "union", "optional") else [h[0]] + [_canon_abstract(x) for x in h[1:]]
    return h


def _flat_leaves(h) -> List[str]:
    if isinstance(h, list):
        out: List[str] = []
        for x in h:
            out += _flat_leaves(x)
        return out
    return [str(h)]


def diff_norm(base: dict, other: dict) -> List[Tuple[str, str]]:
    """[(attr, detail)] differences between two normalised trees."""
    out = []
    for mn in sorted(set(base) | set(other)):
        b, o = base.get(mn), other.get(mn)
        if b is None or o is None:
            out.append(("module-set", "%s present only in one configuration" % mn))
            continue
        if b["import"] != o["import"]:
            out.append(("import", "%s: %s vs %s" % (mn, b["import"], o["import"])))
            continue
        if b["import"] != "ok":
            continue
        if b["classes"] != o["classes"]:
            out.append(("class-set", "%s: %s vs %s" % (mn, b["classes"], o["classes"])))
        for k in b:
            if k in ("import", "classes") or k not in o:
                continue
            if k.startswith("msg:"):
                if "unusable" in b[k] or "unusable" in o[k]:
                    if b[k] != o[k]:
                        out.append(("class-usable", "%s.%s: %s vs %s" % (mn, k[4:], b[k], o[k])))
                    continue
                for num in sorted(set(b[k]) | set(o[k])):
                    fb, fo = b[k].get(num), o[k].get(num)
                    if fb is None or fo is None:
                        out.append(("field-set", "%s.%s field %s only in one configuration" % (mn, k[4:], num)))
                        continue
                    for attr in fb:
                        if fb[attr] != fo[attr]:
                            out.append((attr, "%s.%s field %s (%s): %s = %r vs %r" % (mn, k[4:], num, fb["name"], attr, fb[attr], fo[attr])))
            elif k.startswith("enum:"):
                if b[k] != o[k]:
                    out.append(("enum-members", "%s.%s: %s vs %s" % (mn, k[5:], b[k], o[k])))
            elif k.startswith("stub:"):
                for meth in sorted(set(b[k]) | set(o[k])):
                    sb, so = b[k].get(meth), o[k].get(meth)
                    if sb is None or so is None:
                        out.append(("stub-methods", "%s.%s method %s only in one configuration" % (mn, k[5:], meth)))
                        continue
                    for attr in ("asyncgen",):
                        if sb[attr] != so[attr]:
                            out.append(("stub-" + attr, "%s.%s.%s: %r vs %r" % (mn, k[5:], meth, sb[attr], so[attr])))
                    for attr in ("param_hint", "return_hint"):
                        lb = sorted(x for x in _flat_leaves(sb[attr]) if ":" in x or x == "UNRESOLVED")
                        lo = sorted(x for x in _flat_leaves(so[attr]) if ":" in x or x == "UNRESOLVED")
                        if lb != lo:
                            out.append(("stub-" + attr, "%s.%s.%s: %r vs %r" % (mn, k[5:], meth, sb[attr], so[attr])))
            elif k.startswith("base:"):
                if b[k] != o[k]:
                    out.append(("server-mapping", "%s.%s: %s vs %s" % (mn, k[5:], json.dumps(b[k])[:300], json.dumps(o[k])[:300])))
    return out


def _c18_job(job) -> dict:
    tag, schema, active, rseed = job
    truth = gen.schema_truth(schema)
    instances = build_instances(truth, random.Random(rseed))
    spec = {"modules": module_list(truth), "instances": [{k: v for k, v in i.items() if k != "kind"} for i in instances]}
    kinds = {i["key"]: i["kind"] for i in instances}
    res = {"tag": tag, "schema": schema, "fails": [], "skip": None, "notes": [], "compared": 0, "nontrivial": 0}
    per: Dict[str, dict] = {}
    for name, opts in active:
        r = gen.run_plugin_ex(schema.protos(), opts, named=schema.named())
        try:
            if r.protoc_rejected:
                res["skip"] = ("generator-invalid", r.stderr[-400:])
                log("protoc rejected generated schema", tag, r.stderr[-400:])
                return res
            if not r.ok:
                et, line = crash_signature(r.stderr)
                per[name] = {"crash": et, "line": line}
                continue
            d = gen.run_child("encode", r.out_dir, spec)
            if "child_error" in d:
                per[name] = {"crash": "child", "line": d["child_error"]}
                continue
            per[name] = {"dump": d["modules"], "norm": normalise_modules(d["modules"]),
                         "inst": {i["key"]: i for i in d.get("instances", [])}, "mode_error": d.get("mode_error")}
        finally:
            gen.cleanup(r.scratch)
    names = [n for n, _ in active]
    base_name = names[0]
    # plugin crashes
    crashed = [n for n in names if "crash" in per[n]]
    if crashed:
        et = per[crashed[0]]["crash"]
        res["fails"].append(("plugin-crash:%s:%s" % (et, config_label(crashed, names)),
                             "plugin failed under %s: %s" % (crashed, per[crashed[0]]["line"])))
    ok_names = [n for n in names if "crash" not in per[n]]
    # import errors (any configuration)
    imp: Dict[Tuple[str, str], List[str]] = {}
    broken = set()
    for n in ok_names:
        for mn, m in per[n]["dump"].items():
            if not m.get("ok"):
                broken.add(n)
                imp.setdefault((m.get("error_type", "Error"), re.sub(r"line \d+", "line N", m.get("error", ""))[:160]), []).append(n)
    by_type: Dict[Tuple[str, str], Tuple[List[str], str]] = {}
    all_broken = set(ok_names) <= broken
    for (et, msg), ns in imp.items():
        lab = config_label(sorted(set(ns)), names)
        by_type.setdefault((et, lab), (sorted(set(ns)), msg))
    seen_cause = set()
    for (et, lab), (ns, msg) in by_type.items():
        opts = dict(active)[ns[0]]
        cause = attribute_failure(schema, opts, import_failure_predicate(opts, et, False))
        if cause == "builtin-type-names":
            # the symptom (exception type) differs between configurations; one root cause
            key = "import-error:builtin-name-shadowed:%s" % ("all-configs" if all_broken else lab)
        else:
            key = "import-error:%s:%s:%s" % (et, lab, cause)
        if key in seen_cause:
            continue
        seen_cause.add(key)
        res["fails"].append((key, "generated package fails to import under %s: %s (vanishes when ablating: %s)" % (ns, msg, cause)))
    if base_name not in ok_names or base_name in broken:
        return res
    base = per[base_name]
    ok_names = [n for n in ok_names if n not in broken]
    # also compare every configuration with the schema itself (stronger than config-vs-config)
    base_keys = {m for m, _ in compare_dump_with_truth(truth, base["dump"], "std")}
    sm: Dict[str, Tuple[List[str], str]] = {}
    for n in ok_names[1:]:
        flavour = "pydantic" if n.endswith("pydantic") else "std"
        for m, detail in compare_dump_with_truth(truth, per[n]["dump"], flavour, pydantic_oneof_optional=(flavour == "pydantic")):
            if m in base_keys:
                continue  # that is C03's business
            sm.setdefault(m, ([], detail))[0].append(n)
    for m, (ns, detail) in sm.items():
        lab = config_label(sorted(set(ns)), ok_names)
        if "Field(name=" in detail:
            res["fails"].append(("builtin-name-shadowed:%s" % lab, detail))
        else:
            res["fails"].append(("schema-mismatch:%s:%s" % (m, lab), detail))
    # metadata identical to the default configuration
    diffs: Dict[str, Tuple[List[str], str]] = {}
    for n in ok_names[1:]:
        for attr, detail in diff_norm(base["norm"], per[n]["norm"]):
            k = attr
            diffs.setdefault(k, ([], detail))[0].append(n)
    for attr, (ns, detail) in diffs.items():
        lab = config_label(sorted(set(ns)), ok_names)
        if "Field(name=" in detail:
            res["fails"].append(("builtin-name-shadowed:%s" % lab, "%s (default vs %s)" % (detail, sorted(set(ns)))))
        else:
            res["fails"].append(("metadata-diff:%s:%s" % (attr, lab), "%s (default vs %s)" % (detail, sorted(set(ns)))))
    # instances
    inst_diffs: Dict[Tuple[str, str, str], Tuple[set, str]] = {}
    for key, b in base["inst"].items():
        kind = kinds.get(key, "?")
        res["compared"] += 1
        if b.get("bytes"):
            res["nontrivial"] += 1
        for n in ok_names[1:]:
            o = per[n]["inst"].get(key)
            if o is None:
                inst_diffs.setdefault(("instance-missing", kind, ""), (set(), key))[0].add(n)
                continue
            for what, field in (("construct-error", "build_error"), ("bytes-error", "bytes_error"), ("json-error", "json_error"),
                                ("parse-error", "parse_error")):
                if b.get(field) and not o.get(field):
                    # the DEFAULT configuration fails where the other one does not: the defect is in the
                    # default runtime path (C01/C04 territory); recorded as an observation, not as a C18 failure
                    res["notes"].append("%s: default config itself fails (%s: %s)" % (key, what, b.get(field)))
                    continue
                if bool(b.get(field)) != bool(o.get(field)):
                    msg = (o.get(field) or b.get(field))
                    exc = msg.split(":")[0]
                    mt = re.search(r"\[type=(\w+)", msg)
                    if mt:
                        exc += ":" + mt.group(1)
                    inst_diffs.setdefault((what, kind, exc), (set(), "%s: default -> %r ; %s -> %r" % (key, b.get(field), n, o.get(field))))[0].add(n)
            for what, field in (("bytes-diff", "bytes"), ("json-diff", "json"), ("roundtrip-diff", "roundtrip_equal")):
                if field in b and field in o and b[field] != o[field]:
                    inst_diffs.setdefault((what, kind, ""), (set(), "%s: default -> %r ; %s -> %r" % (key, str(b[field])[:200], n, str(o[field])[:200])))[0].add(n)
        if b.get("build_error") or b.get("bytes_error") or b.get("json_error"):
            res["notes"].append("%s: default config itself fails (%s)" % (key, b.get("build_error") or b.get("bytes_error") or b.get("json_error")))
    single = {(what, frozenset(ns)) for (what, kind, exc), (ns, _) in inst_diffs.items() if kind != "multi-field"}
    for (what, kind, exc), (ns, detail) in inst_diffs.items():
        if kind == "multi-field" and (what, frozenset(ns)) in single:
            continue  # already explained by a single-field instance
        recipe = next((json.dumps(i["recipe"]) for i in instances if detail.startswith(i["key"] + ":")), "")
        lab = config_label(sorted(ns), ok_names)
        if "Field(name=" in detail:
            key = "builtin-name-shadowed:%s" % lab
        elif what.endswith("-error"):
            key = "%s:%s:%s" % (what, lab, exc)
        elif '"m": {}' in recipe and "pydantic" in lab and what in ("bytes-diff", "json-diff"):
            key = "%s:%s:explicit-empty-submessage" % (what, lab)
        else:
            key = "%s:%s:%s" % (what, lab, kind)
        res["fails"].append((key, "%s ; recipe(field number -> value) %s" % (detail, recipe[:300])))
    res["observations"] = sorted({n.split(": default config itself fails ")[1][:140] for n in res["notes"]})
    return res


def check_C18(seed: int, n: int) -> dict:
    col = Collector("C18")
    try:
        active = list(CONFIGS)
        if not pydantic_available():
            active = [c for c in CONFIGS if not c[0].endswith("pydantic")]
            for c in CONFIGS:
                if c[0].endswith("pydantic"):
                    col.skip("config:" + c[0], "pydantic is not importable in /venv")
        jobs = []
        for i in range(n):
            s = seed * 100019 + i
            sc = gen.gen_schema(s, "full", tricky_comments=False, risky_names=(i % 5 == 4),
                                client_streaming=("none", False, True)[i % 3])
            jobs.append(("random", (sc.roots_only() or sc) if i % 2 == 1 else sc, active, s ^ 0x5EED))
        for tag, sc in gen.edge_schemas():
            if tag in ("feature-cover", "wkt-rpc", "typing-name-message", "builtin-shadow", "wkt-in-map", "cross-file-roots-only", "scale", "alias-collision-packages", "wkt-named-user-types", "lonely-fields"):
                jobs.append(("edge:" + tag, sc, active, seed))
        results = parallel(jobs, _c18_job)
        for job, res in zip(jobs, results):
            tag, schema = job[0], job[1]
            if res.get("harness_error"):
                col.skip("harness-error", res["harness_error"])
                continue
            if res["skip"]:
                col.skip(*res["skip"])
                continue
            col.cases += 1
            col.cover(schema.features)
            if res["nontrivial"]:
                col.nontrivial.add(schema.text())
            text = schema.text()
            seen = set()
            for m, detail in res["fails"]:
                key = "C18:" + m + ((":" + tag[5:]) if (tag.startswith("edge:") and "builtin-name-shadowed" not in m) else "")
                if alias_collision(schema):
                    key = "C18:alias-collision:underscore-packages"
                if key in seen:
                    continue
                seen.add(key)
                col.fail(key, detail, text)
            if len(col.samples) < 3:
                col.samples.append({"case": tag, "packages": schema.packages(), "configs": [c[0] for c in active],
                                    "instances_compared_per_config": res["compared"], "nonempty_instances": res["nontrivial"],
                                    "failed": sorted({m for m, _ in res["fails"]}), "default_config_itself_fails": res.get("observations", [])[:4]})
        return col.result({"configs": [c[0] for c in active]})
    finally:
        gen.cleanup_all()


# --------------------------------------------------------------------------
# C13
# --------------------------------------------------------------------------
def _underscore(p: str) -> bool:
    return "_" in p


def _c13_job(job) -> dict:
    mode, style, packages, edges = job
    schema, refs, rpc_refs = gen.ref_schema(packages, edges, style)
    if zlib.crc32(repr((mode, style, packages)).encode()) % 2:
        # how the files are named on the command line is part of the input: every other job names only the files
        # nothing imports (the referenced packages are then compiled because they are imported)
        schema = schema.roots_only() or schema
    res = {"mode": mode, "style": style, "schema": schema, "skip": None, "fails": [], "pairs": sorted(set(edges)), "refs": 0}
    r = gen.run_plugin_ex(schema.protos(), [], named=schema.named())
    try:
        if r.protoc_rejected:
            res["skip"] = ("generator-invalid", r.stderr[-400:])
            log("protoc rejected C13 schema", packages, r.stderr[-400:])
            return res
        if not r.ok:
            et, line = crash_signature(r.stderr)
            for s, d in sorted(set(edges)):
                res["fails"].append((s, d, "plugin-crash:" + et, "plugin exited %d: %s" % (r.returncode, line)))
            return res
        mods = [gen.module_of(p) for p in packages]
        d = gen.run_child("refs", r.out_dir, {"modules": mods, "refs": refs, "rpc_refs": rpc_refs}, timeout=600)
        res["early_touches"] = d.get("early_touches", {})
        if "child_error" in d or d.get("mode_error"):
            res["skip"] = ("harness-error", str(d.get("child_error") or d.get("mode_error")))
            return res
        import_err = {mn: m for mn, m in d["modules"].items() if not m.get("ok")}
        by_key = {x["key"]: x for x in refs + rpc_refs}
        flatpath = {p: p.replace(".", "_") for p in packages}
        per_pair: Dict[Tuple[str, str, str], str] = {}
        for x in d.get("refs", []) + d.get("rpc_refs", []):
            res["refs"] += 1
            if x["ok"]:
                continue
            spec = by_key[x["key"]]
            s, dst = spec["src"], spec["dst"]
            sm = spec["src_module"]
            if sm in import_err or (not spec.get("wkt") and spec["dst_module"] in import_err):
                bad = import_err.get(sm) or import_err.get(spec["dst_module"])
                kind = "import-error:%s" % bad.get("error_type")
                detail = "import of %s fails: %s" % (bad["module"], bad.get("error"))
            elif x.get("error"):
                kind = "unresolved:%s" % x.get("error_type")
                detail = "%s %s -> %s" % (spec["site"], spec["kind"], x["error"])
            else:
                probs = x.get("problems", [])
                got = (x.get("hint_leaf") or [None])[0] or next((p.split("=", 1)[1] for p in probs if "=" in p), "?")
                kind = "wrong-class"
                # diagnosis: did it resolve to the same-named class of a package whose dotted path
                # becomes identical once '.' is replaced by '_' ?
                if dst != "<wkt>":
                    for other in packages:
                        if other != dst and flatpath[other] == flatpath[dst] and str(got).startswith(gen.module_of(other) + "."):
                            kind = "alias-collision"
                    if kind == "wrong-class" and all("annotation" in p or "method-count" in p for p in probs):
                        kind = "stub-annotation"
                detail = "%s of kind %s declared in package '%s' referring to '%s': expected %s, resolved %s; problems %s" % (
                    spec["site"], spec["kind"], s, dst, x.get("target"), got, probs)
            per_pair.setdefault((s, dst, kind), detail)
        for (s, dst, kind), detail in per_pair.items():
            res["fails"].append((s, dst, kind, detail))
        return res
    finally:
        gen.cleanup(r.scratch)


def c13_plan(seed: int, n: int):
    rng = random.Random(seed)
    base_paths = gen.all_paths(["a", "b"], 3)
    ext_paths = gen.all_paths(["a", "b", "a_b", "x"], 3)
    jobs = []
    planned = {"isolated": 0, "isolated-ext": 0, "lower": 0, "camel": 0, "capitalized": 0, "circular": 0, "combined": 0}

    def bucket(pairs, cap, keyfn):
        groups: Dict[tuple, list] = {}
        for p in pairs:
            groups.setdefault(keyfn(p), []).append(p)
        out = []
        for k in sorted(groups):
            g = sorted(groups[k])
            rng.shuffle(g)
            out += g[:cap]
        return out

    shape = lambda p: gen.relation(p[0], p[1])[:3] + (gen.relation(p[0], p[1])[3] > 0,)
    # 1. complete enumeration over {a,b}, depth <= 3 (complete when n >= 60: the largest class has 32 pairs)
    base_pairs = [(s, d) for s in base_paths for d in base_paths]
    sel = bucket(base_pairs, n, shape)
    for s, d in sel:
        jobs.append(("isolated", "pascal", sorted({s, d}), [(s, d)]))
    planned["isolated"] = len(sel)
    # 2. extended alphabet (underscore component, another letter): sampled per shape class
    ext_pairs = [(s, d) for s in ext_paths for d in ext_paths
                 if any(c in ("a_b", "x") for c in (s + "." + d).split("."))]
    sel2 = bucket(ext_pairs, max(1, n // 4), lambda p: (gen.relation(p[0], p[1])[0], _underscore(p[0]), _underscore(p[1])))
    for s, d in sel2:
        jobs.append(("isolated", "pascal", sorted({s, d}), [(s, d)]))
    planned["isolated-ext"] = len(sel2)
    # 3. lower-case message names
    sel3 = bucket(base_pairs, max(1, n // 6), lambda p: gen.relation(p[0], p[1])[0])
    for s, d in sel3:
        jobs.append(("isolated", "lower", sorted({s, d}), [(s, d)]))
    planned["lower"] = len(sel3)
    # 3b. lowerCamel message / enum names (legal; on the unchanged tree they resolve like Pascal names)
    sel3b = bucket(base_pairs, max(1, n // 6), lambda p: gen.relation(p[0], p[1])[0])
    for s, d in sel3b:
        jobs.append(("isolated", "camel", sorted({s, d}), [(s, d)]))
    planned["camel"] = len(sel3b)
    # 4. capitalised package component
    caps = [("x.Cap", "x.Cap"), ("x.Cap", "x.d"), ("x.d", "x.Cap"), ("", "Cap"), ("Cap", ""), ("Cap.a", "Cap"),
            ("Cap", "Cap.a"), ("x.Cap.y", "x.d.y"), ("x.d.y", "x.Cap.y")][: max(2, n)]
    for s, d in caps:
        jobs.append(("isolated", "capitalized", sorted({s, d}), [(s, d)]))
    planned["capitalized"] = len(caps)
    # 5. circular package dependencies (both directions in one compilation)
    unordered = sorted({tuple(sorted(p)) for p in base_pairs + sel2 if p[0] != p[1]})
    sel5 = bucket(unordered, max(1, n // 3), lambda p: gen.relation(p[0], p[1])[0])
    for s, d in sel5:
        jobs.append(("circular", "pascal", [s, d], [(s, d), (d, s)]))
    planned["circular"] = len(sel5)
    # 6. everything at once
    combos = [base_paths,
              ["", "x", "x.a", "x.a.b", "x.a_b", "x.c", "x.a_b.c", "x.a.b_c", "a_b", "a.b", "a"]]
    for _ in range(n // 10):
        combos.append(sorted(rng.sample(ext_paths, 8)))
    for c in combos:
        jobs.append(("combined", "pascal", list(c), [(s, d) for s in c for d in c]))
    planned["combined"] = len(combos)
    return jobs, planned


def check_C13(seed: int, n: int) -> dict:
    col = Collector("C13")
    try:
        jobs, planned = c13_plan(seed, n)
        # longest jobs first
        order = sorted(range(len(jobs)), key=lambda i: -len(jobs[i][3]))
        results_o = parallel([jobs[i] for i in order], _c13_job)
        results = [None] * len(jobs)
        for i, r in zip(order, results_o):
            results[i] = r
        raw: List[Tuple[str, str, str, str, str]] = []  # (basekey, mode, detail, schema, style)
        refs_checked = 0
        for job, res in zip(jobs, results):
            mode, style, packages, edges = job
            if res.get("harness_error"):
                col.skip("harness-error", res["harness_error"])
                continue
            if res["skip"]:
                col.skip(*res["skip"])
                continue
            refs_checked += res["refs"]
            for s, d in res["pairs"]:
                col.cases += 1
                col.nontrivial.add((gen.relation(s, d)[:3], style, mode, _underscore(s) or _underscore(d)))
                col.cover({"relation." + gen.relation(s, d)[0]: 1, "mode." + mode: 1, "style." + style: 1})
            text = res["schema"].text()
            for s, d, kind, detail in res["fails"]:
                general = kind.split(":")[0]
                if style not in ("pascal", "camel"):
                    # the naming style is the root cause; relation / exception type only vary the symptom
                    if d == "<wkt>" and general == "import-error":
                        continue
                    key = "C13:%s:%s" % (general, {"lower": "lowercase-message", "capitalized": "capitalized-package"}[style])
                elif d == "<wkt>":
                    if general == "import-error":
                        continue  # consequence of an import error already reported for the package pair
                    key = "C13:%s:well-known-type" % kind
                elif general == "alias-collision":
                    path = {"cousin": "cousin", "sibling": "cousin", "descendant": "descendant",
                            "root-to-descendant": "descendant"}.get(gen.relation(s, d)[0], gen.relation(s, d)[0])
                    key = "C13:alias-collision:%s-underscore" % path
                else:
                    rel = gen.relation(s, d)[0]
                    if _underscore(s) or _underscore(d):
                        rel += "-underscore"
                    key = "C13:%s:%s" % (kind, rel)
                raw.append((key, mode, "[%s, %d packages] %s" % (mode, len(packages), detail), text, style))
            if len(col.samples) < 3 and mode != "combined":
                col.samples.append({"mode": mode, "style": style, "pairs": res["pairs"], "references_checked": res["refs"],
                                    "failed": sorted({k for _, _, k, _ in res["fails"]})})
        iso_keys = {k for k, mode, _, _, _ in raw if mode == "isolated"}
        for k, mode, detail, text, style in sorted(raw, key=lambda x: (x[0], x[1] != "isolated", len(x[3]))):
            key = k if (mode == "isolated" or k in iso_keys or k.startswith("C13:alias-collision")) else k + ":only-with-other-references"
            col.fail(key, detail, text)
        early = {}
        for res in results:
            for k, v in (res or {}).get("early_touches", {}).items():
                early[k] = early.get(k, 0) + v
        return col.result({"planned": planned, "references_checked": refs_checked, "first_use_before_names_are_bound": early,
                           "complete_enumeration_depth<=3_over_{a,b}": planned["isolated"] == 225})
    finally:
        gen.cleanup_all()


# --------------------------------------------------------------------------
# C11
# --------------------------------------------------------------------------
def _c11_job(job) -> dict:
    tag, schema, rseed = job[:3]
    options = list(job[3]) if len(job) > 3 else []
    rng = random.Random(rseed)
    truth = gen.schema_truth(schema)
    vg = ValueGen(rng, truth)
    res = {"schema": schema, "skip": None, "fails": [], "checks": 0, "shapes": set(), "services": 0, "calls": 0}

    def tdesc(t: dict) -> dict:
        if t["kind"] == "wkt":
            return {"kind": "wkt", "name": t["name"]}
        return {"kind": "message", "module": gen.module_of(t["pkg"]), "flat": "".join(t["path"])}

    def recipe(t: dict) -> dict:
        if t["kind"] == "wkt":
            return WKT_RAW_RECIPES[t["name"]]
        return vg.message(t["pkg"], tuple(t["path"]), 1)

    services = []
    for pkg, p in truth["packages"].items():
        for sname, sv in p["services"].items():
            methods = []
            for me in sv["methods"]:
                cs, ss = me["cs"], me["ss"]
                calls = []
                lens = [0, 1, 2, 3]
                combos = [(a, b) for a in (lens if cs else [1]) for b in (lens if ss else [1])]
                rng.shuffle(combos)
                for ci, (nreq, nresp) in enumerate(combos[:5]):
                    calls.append({"requests": [recipe(me["input"]) for _ in range(nreq)],
                                  "responses": [recipe(me["output"]) for _ in range(nresp)],
                                  "async_iter": bool(ci % 2)})
                methods.append({"name": me["name"], "route": me["route"], "cs": cs, "ss": ss,
                                "card": ("stream" if cs else "unary") + "-" + ("stream" if ss else "unary"),
                                "input": tdesc(me["input"]), "output": tdesc(me["output"]), "calls": calls,
                                "error_after": rng.randint(0, 2),
                                "error_status": rng.choice(["NOT_FOUND", "INVALID_ARGUMENT", "PERMISSION_DENIED", "UNAVAILABLE", "INTERNAL"])})
            services.append({"module": p["module"], "name": sname, "methods": methods, "precedence_method": rng.randint(0, 7)})
    res["services"] = len(services)
    r = gen.run_plugin_ex(schema.protos(), options, named=schema.named())
    try:
        if r.protoc_rejected:
            res["skip"] = ("generator-invalid", r.stderr[-400:])
            log("protoc rejected generated schema", tag, r.stderr[-400:])
            return res
        if not r.ok:
            et, line = crash_signature(r.stderr)
            res["fails"].append(("plugin-crash:" + et, "plugin exited %d: %s" % (r.returncode, line)))
            return res
        d = gen.run_child("grpc", r.out_dir, {"modules": module_list(truth), "services": services,
                                              "flavour": "pydantic" if "pydantic_dataclasses" in options else "std"}, timeout=600)
        if "child_error" in d or d.get("mode_error"):
            res["skip"] = ("harness-error", str(d.get("child_error") or d.get("mode_error"))[:500])
            return res
        bad_mods = {mn: m for mn, m in d["modules"].items() if not m.get("ok")}
        for mn, m in bad_mods.items():
            res["fails"].append(("import-error:%s" % m.get("error_type"), "import %s: %s" % (mn, m.get("error"))))
        for c in d.get("grpc_checks", []):
            res["checks"] += 1
            if c["check"] in ("invoked-once",):
                res["calls"] += 1
            if c.get("cardinality"):
                res["shapes"].add((c["cardinality"], c.get("nreq"), c.get("nresp"), c["check"]))
            if c.get("skipped"):
                res["payload_skipped"] = res.get("payload_skipped", 0) + 1
                continue
            if c["ok"]:
                continue
            if c["check"] in ("locate-classes", "resolve-types") and bad_mods:
                continue  # consequence of the import error above
            exc = ""
            m = re.match(r"^(?:got )?([A-Za-z]\w*(?:Error|Exception))", c["detail"])
            if c["check"] in ("call", "build-values", "channel", "precedence", "locate-classes", "resolve-types") and m:
                exc = ":" + m.group(1)
            res["fails"].append(("%s:%s%s" % (c["check"], c.get("cardinality") or "service", exc),
                                 "service %s rpc %s: %s" % (c["service"], c["method"], c["detail"])))
        return res
    finally:
        gen.cleanup(r.scratch)


def check_C11(seed: int, n: int) -> dict:
    col = Collector("C11")
    try:
        jobs, nserv, i = [], 0, 0
        while nserv < n and i < 10 * n + 10:
            s = seed * 100043 + i
            i += 1
            schema = gen.gen_schema(s, "service", risky_names=False)
            k = sum(len(f.services) for f in schema.files)
            if not k:
                continue
            nserv += k
            jobs.append(("random", schema, s ^ 0xC11))
        jobs += [("edge:" + tag, sc, seed ^ 0xC11) for tag, sc in gen.edge_schemas() if tag in ("feature-cover", "wkt-rpc", "scale", "alias-collision-packages", "wkt-named-user-types")]
        # "every generated service": also the stubs / server bases generated under the other plugin options (the
        # deterministic service schemas under every configuration, the first random ones under the pydantic one)
        active = [c for c in CONFIGS if pydantic_available() or not c[0].endswith("pydantic")]
        for cname, opts in active[1:]:
            jobs += [("edge:" + tag + "@" + cname, sc, seed ^ 0xC11, opts) for tag, sc in gen.edge_schemas() if tag in ("feature-cover", "wkt-rpc")]
        if pydantic_available():
            jobs += [("random@pydantic", j[1], j[2], ["pydantic_dataclasses"]) for j in jobs[:max(1, n // 4)] if j[0] == "random"]
        else:
            col.skip("config:pydantic", "pydantic is not importable in /venv")
        results = parallel(jobs, _c11_job)
        shapes = set()
        services = 0
        for job, res in zip(jobs, results):
            schema = job[1]
            if res.get("harness_error"):
                col.skip("harness-error", res["harness_error"])
                continue
            if res["skip"]:
                col.skip(*res["skip"])
                continue
            col.cases += res["calls"]
            services += res["services"]
            for _ in range(res.get("payload_skipped", 0)):
                col.skip("call-skipped:payload-not-roundtrippable", "the generated request/response value does not survive bytes()/parse() in the "
                         "default runtime (codec defect, outside C11); the call was not made")
            shapes |= res["shapes"]
            col.cover({k: v for k, v in schema.features.items() if k.startswith(("rpc.", "service"))})
            text = schema.text()
            seen = set()
            for m, detail in res["fails"]:
                key = "C11:" + m
                if alias_collision(schema):
                    key = "C11:alias-collision:underscore-packages"
                if key in seen:
                    continue
                seen.add(key)
                col.fail(key, ("[options %s] " % ",".join(job[3]) if len(job) > 3 and job[3] else "") + detail, text)
            if len(col.samples) < 3:
                col.samples.append({"packages": schema.packages(), "services": res["services"], "calls": res["calls"],
                                    "checks": res["checks"], "failed": sorted({m for m, _ in res["fails"]})})
        col.nontrivial = shapes
        return col.result({"services": services, "schemas": len(jobs)})
    finally:
        gen.cleanup_all()


CHECKS = {"C03": check_C03, "C18": check_C18, "C13": check_C13, "C11": check_C11}
