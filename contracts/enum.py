"""Contracts for betterproto.enum (C20): canonical members, open value set, immutability."""
from pyvc.contracts import FN, LOOP, LEMMA
from pyvc.models_enum import EnumPlugin

DEPENDS = []
SPEC_MODULES = ("wire",)
PLUGINS = [EnumPlugin()]
LEMMAS = []
E = "betterproto.enum."

# class invariant of every constructed enum class (established by the member loop of EnumType.__new__)
ENUM_INV = [
    ("E1-number-finds-its-canonical-member",
     "forall_int(lambda v: implies(VMAP(v) != -1, MVALUE(VMAP(v)) == v and is_str(MNAME(VMAP(v)))"
     " and MMAP(as_str(MNAME(VMAP(v)))) == VMAP(v)))"),
]
CLS = {"cls": "model:enumcls"}

CONTRACTS = [
    FN(E + "EnumType.__new__", start_at_loop=0, returns="any",
       types={"members": "model:memberdecls", "value_map": "model:vmdict", "member_map": "model:mmdict",
              "cls": "model:enumcls", "new_mcs": "model:opaque"},
       requires=[("fresh-tables", "forall_int(lambda v: VM_OF(value_map, v) == -1) and NEXT_ID() == 0"),
                 ("first-occurrence-function", "FO_WF(members)"),
                 ("distinct-names", "forall(0, DECL_N(members), lambda a: forall(0, DECL_N(members), lambda b: implies(a != b, DECL_NAME(members, a) != DECL_NAME(members, b))))")],
       loops={0: LOOP(index="mi", inv=[
           ("C20-every-name-maps-to-the-member-of-its-number",
            "forall(0, mi, lambda j: VM_OF(value_map, DECL_VALUE(members, j)) != -1 and MM_OF(member_map, DECL_NAME(members, j)) == VM_OF(value_map, DECL_VALUE(members, j))"
            " and MVALUE(VM_OF(value_map, DECL_VALUE(members, j))) == DECL_VALUE(members, j) and 0 <= VM_OF(value_map, DECL_VALUE(members, j)) < NEXT_ID())"),
           ("C20-canonical-member-carries-the-first-declared-name",
            "forall(0, mi, lambda j: is_str(MNAME(VM_OF(value_map, DECL_VALUE(members, j)))) and as_str(MNAME(VM_OF(value_map, DECL_VALUE(members, j)))) == DECL_NAME(members, FO(DECL_VALUE(members, j))))"),
           ("only-declared-numbers", "forall_int(lambda v: implies(VM_OF(value_map, v) != -1, 0 <= FO(v) < mi))"),
           ("ids", "NEXT_ID() >= 0")])},
       ensures=[
           ("C20-lookup-by-name-and-by-number-agree",
            "forall(0, DECL_N(members), lambda j: VM_OF(value_map, DECL_VALUE(members, j)) != -1 and MM_OF(member_map, DECL_NAME(members, j)) == VM_OF(value_map, DECL_VALUE(members, j))"
            " and MVALUE(VM_OF(value_map, DECL_VALUE(members, j))) == DECL_VALUE(members, j) and 0 <= VM_OF(value_map, DECL_VALUE(members, j)) < NEXT_ID())"),
           ("C20-canonical-member-carries-the-first-declared-name",
            "forall(0, DECL_N(members), lambda j: is_str(MNAME(VM_OF(value_map, DECL_VALUE(members, j)))) and as_str(MNAME(VM_OF(value_map, DECL_VALUE(members, j)))) == DECL_NAME(members, FO(DECL_VALUE(members, j))))"),
           ("C20-undeclared-numbers-are-absent", "forall_int(lambda v: implies(VM_OF(value_map, v) != -1, 0 <= FO(v) < DECL_N(members)))")],
       top=["C20-lookup-by-name-and-by-number-agree", "C20-canonical-member-carries-the-first-declared-name"],
       inst_terms=["mi", "mi - 1", "DECL_VALUE(members, mi - 1)", "FO(DECL_VALUE(members, mi - 1))"],
       props=["C20"]),
    FN(E + "EnumType.__call__", types={**CLS, "value": "int"}, returns="any",
       requires=ENUM_INV,
       ensures=[("C20-canonical-member-by-number", "MID(result) == VMAP(value) and MVALUE(MID(result)) == value")],
       raises=[("ValueError", "iff", "VMAP(value) == -1")], top=["C20-canonical-member-by-number"],
       inst_terms=["value"], props=["C20", "C04"]),
    FN(E + "EnumType.__getitem__", types={**CLS, "key": "str"}, returns="any",
       ensures=[("C20-member-by-name", "MID(result) == MMAP(key)")],
       raises=[("KeyError", "iff", "MMAP(key) == -1")], top=["C20-member-by-name"], props=["C20"]),
    FN(E + "EnumType.__setattr__", types={**CLS, "name": "str", "value": "obj"}, returns="none",
       ensures=[("never-returns", "False")], raises=[("AttributeError", "iff", "True")], props=["C20"]),
    FN(E + "EnumType.__delattr__", types={**CLS, "name": "str"}, returns="none",
       ensures=[("never-returns", "False")], raises=[("AttributeError", "iff", "True")], props=["C20"]),
    FN(E + "Enum.try_value", types={**CLS, "value": "int"}, returns="any",
       requires=ENUM_INV,
       ensures=[("C20-open-enum", "MVALUE(MID(result)) == value and implies(VMAP(value) != -1, MID(result) == VMAP(value))"
                                  " and implies(VMAP(value) == -1, is_none(MNAME(MID(result))))")],
       top=["C20-open-enum"], inst_terms=["value"], props=["C20", "C01"]),
    FN(E + "Enum.from_string", types={**CLS, "name": "str"}, returns="any",
       ensures=[("C20-member-by-name", "MID(result) == MMAP(name)")],
       raises=[("ValueError", "iff", "MMAP(name) == -1")], top=["C20-member-by-name"], props=["C20", "C04"]),
    FN(E + "Enum.__copy__", types={"self": "model:member"}, returns="any",
       ensures=[("C20-copy-is-identity", "MID(result) == MID(self)")], props=["C20"]),
    FN(E + "Enum.__deepcopy__", types={"self": "model:member", "memo": "obj"}, returns="any",
       ensures=[("C20-deepcopy-is-identity", "MID(result) == MID(self)")], props=["C20"]),
    FN(E + "Enum.__setattr__", types={"self": "model:member", "key": "str", "value": "obj"}, returns="none",
       ensures=[("never-returns", "False")], raises=[("AttributeError", "iff", "True")], props=["C20"]),
    FN(E + "Enum.__delattr__", types={"self": "model:member", "item": "obj"}, returns="none",
       ensures=[("never-returns", "False")], raises=[("AttributeError", "iff", "True")], props=["C20"]),
]
