"""Symbolic executor / VC generator for the Python subset described in DESIGN.md §2.2.

For one function under contract it produces named obligations  PC ⇒ φ  (each one later sent to
z3 / cvc5 as  PC ∧ ¬φ  expecting unsat).  Loops are cut by invariants, repo callees are replaced
by their contracts (modular), builtins by small trusted models (assumption registry).
"""
import ast
import itertools
import z3

from . import front
from .sym import (SV, NONE, IntS, BoolS, BytesS, StrS, PyObj, sv_int, sv_bool, sv_bytes, sv_str,
                  sv_tuple, bytes_val, concrete_int, concrete_str, concrete_bool, pow2_table,
                  from_python, to_obj)
from .contracts import FN, LOOP


def shl_table(x, e, hi=72):
    """x * 2**e as an If-chain whose branches are linear in x (0 <= e <= hi)."""
    r = x * (2 ** hi)
    for k in range(hi - 1, -1, -1):
        r = z3.If(e == k, x * (2 ** k), r)
    return r


class Unsupported(Exception):
    """Construct outside the accepted subset -> the obligations of this function are UNDECIDED."""


class Raised:
    def __init__(self, exc):
        self.exc = exc      # SV('exc', clsname)


FALL = ("fall",)
BREAK = ("break",)
CONT = ("continue",)

EXC_PARENTS = {
    "Exception": "BaseException", "ValueError": "Exception", "EOFError": "Exception",
    "KeyError": "LookupError", "IndexError": "LookupError", "LookupError": "Exception",
    "TypeError": "Exception", "AttributeError": "Exception", "NotImplementedError": "RuntimeError",
    "RuntimeError": "Exception", "StopAsyncIteration": "Exception", "StopIteration": "Exception",
    "CancelledError": "BaseException", "AssertionError": "Exception", "OverflowError": "ArithmeticError",
    "ArithmeticError": "Exception", "UnicodeDecodeError": "ValueError", "StructError": "Exception",
    "ChannelClosed": "Exception", "ChannelDone": "Exception", "QueueTaskDoneError": "ValueError",
    "GRPCError": "Exception", "ModuleNotFoundError": "ImportError", "ImportError": "Exception",
}


def exc_isinstance(name, cls):
    while name is not None:
        if name == cls:
            return True
        name = EXC_PARENTS.get(name)
    return False


class Obligation:
    def __init__(self, name, pc, goal, kind, fn, lineno=None, inputs=None, note=""):
        self.name = name
        self.pc = list(pc)
        self.goal = goal
        self.kind = kind
        self.fn = fn
        self.lineno = lineno
        self.inputs = inputs or {}
        self.note = note
        self.pc_lite = None

    def byte_range_facts(self):
        # inputs of type bytes really are bytes: used to obtain replayable models (and to discard
        # counter-models that only exist with out-of-range "bytes")
        i = z3.Int("i!rng")
        out = []
        for n, t in self.inputs.items():
            if z3.is_seq(t) and not z3.is_string(t) and t.sort() == BytesS:
                out.append(z3.ForAll([i], z3.Implies(z3.And(0 <= i, i < z3.Length(t)), z3.And(t[i] >= 0, t[i] < 256))))
        return out

    def smt2(self, byte_ranges=False):
        s = z3.Solver()
        for c in self.pc:
            s.add(c)
        s.add(z3.Not(self.goal))
        if byte_ranges:
            for f in self.byte_range_facts():
                s.add(f)
        return s.to_smt2()


class State:
    __slots__ = ("env", "pc", "heap", "ghost")

    def __init__(self):
        self.env = {}
        self.pc = []
        self.heap = {}      # (objkey, attr) -> SV
        self.ghost = {}

    def clone(self):
        s = State()
        s.env = dict(self.env)
        s.pc = list(self.pc)
        s.heap = dict(self.heap)
        s.ghost = dict(self.ghost)
        return s

    def assume(self, c):
        if c is True or (z3.is_bool(c) and z3.is_true(c)):
            return
        self.pc.append(c)


def _conjuncts(c):
    if z3.is_and(c):
        for ch in c.children():
            yield from _conjuncts(ch)
    else:
        yield c


def instantiate_foralls(pc, terms):
    out = []
    for c in pc:
        for q in _conjuncts(c):
            if z3.is_quantifier(q) and q.is_forall() and q.num_vars() == 1 and q.var_sort(0) == IntS:
                for t in terms:
                    out.append(z3.substitute_vars(q.body(), t))
    return out


_quant_cache = {}


def has_quantifier(c):
    k = c.get_id()
    if k in _quant_cache:
        return _quant_cache[k]
    seen = set()
    stack = [c]
    found = False
    while stack:
        t = stack.pop()
        i = t.get_id()
        if i in seen:
            continue
        seen.add(i)
        if z3.is_quantifier(t):
            found = True
            break
        if z3.is_app(t) and t.decl().kind() == z3.Z3_OP_RECURSIVE if hasattr(z3, "Z3_OP_RECURSIVE") else False:
            found = True          # recursive definitions also slow the pruning solver down
            break
        stack.extend(t.children())
    _quant_cache[k] = found
    return found


_fresh_counter = itertools.count()


def fresh(name, sort):
    return z3.Const(f"{name}!{next(_fresh_counter)}", sort)


def fresh_sv(name, kind):
    if kind == "int":
        return sv_int(fresh(name, IntS))
    if kind == "bool":
        return sv_bool(fresh(name, BoolS))
    if kind == "bytes":
        return sv_bytes(fresh(name, BytesS))
    if kind == "str":
        return sv_str(fresh(name, StrS))
    if kind == "obj":
        return SV("obj", fresh(name, PyObj))
    if kind == "none":
        return NONE
    raise Unsupported(f"fresh value of kind {kind}")


def named_sv(name, kind):
    if kind == "int":
        return sv_int(z3.Int(name))
    if kind == "bool":
        return sv_bool(z3.Bool(name))
    if kind == "bytes":
        return sv_bytes(z3.Const(name, BytesS))
    if kind == "str":
        return sv_str(z3.String(name))
    if kind == "obj":
        return SV("obj", z3.Const(name, PyObj))
    if kind == "objseq":
        return SV("objseq", z3.Const(name, z3.SeqSort(PyObj)))
    raise Unsupported(f"named value of kind {kind}")


class Engine:
    """Holds contracts + spec library; creates per-function executors."""

    def __init__(self, contracts, speclib, feas_timeout_ms=2000):
        self.contracts = {c.qualname: c for c in contracts}
        self.spec = speclib
        self.feas_timeout_ms = feas_timeout_ms
        self.assumptions_used = set()
        self.lemmas = {}
        self.lemmas_used = set()

    def verify_function(self, qualname):
        c = self.contracts[qualname]
        if not c.variants:
            ex = FnExec(self, qualname)
            return ex.run()
        first = None
        for label, shape in c.variants:
            ex = FnExec(self, qualname)
            ex.variant = shape
            ex.run()
            for o in ex.obls:
                o.name = o.name.replace(qualname + "/", f"{qualname}/{label}:", 1)
            ex.unsupported = [f"{label}: {u}" for u in ex.unsupported]
            if first is None:
                first = ex
            else:
                first.obls += ex.obls
                first.unsupported += ex.unsupported
                first.paths += ex.paths
                first.requires_sat = first.requires_sat and ex.requires_sat
        return first

    def bare_exec(self, label, modname="betterproto"):
        ex = FnExec.__new__(FnExec)
        ex.eng = self
        ex.c = FN(label)
        ex.qualname = label
        ex.mi = front.load_module(modname)
        ex.q = label
        ex.node = None
        ex.modname = modname
        ex.loops = []
        ex.obls = []
        ex.entry = State()
        ex.dedupe = set()
        ex.paths = 0
        ex.dead_paths = 0
        ex.unsupported = []
        ex.inputs = {}
        ex._feas = z3.Solver()
        ex._feas.set("timeout", self.feas_timeout_ms)
        ex.cur_cls = None
        ex.is_spec = False
        ex.cur_line = 0
        ex.requires_sat = True
        return ex

    def verify_lemma(self, L):
        """Obligations of a lemma proved by well-founded induction (explicit schema)."""
        ex = self.bare_exec(f"lemma:{L.name}")
        if L.assumed:
            self.assumptions_used.add(f"AXIOM {L.name}: {L.goal} ({L.notes})")
            return ex
        try:
            st = State()
            for v, k in L.vars.items():
                sv = named_sv(v, k)
                st.env[v] = sv
                ex.inputs[v] = sv.t
            ex.entry = st.clone()
            hy = [ex.truth(ex.ev_spec(h, st)) for h in L.hyps]
            for h in hy:
                st.assume(h)
            ex.requires_sat = ex.feasible(st)
            main = st.clone()
            m0 = ex.ev_spec(L.measure, st).t if L.measure else None
            for j, (guard, sigma) in enumerate(L.ih):
                g = ex.truth(ex.ev_spec(guard, st))
                s2 = State()
                s2.pc = st.pc
                for v in L.vars:
                    s2.env[v] = ex.ev_spec(sigma[v], st) if v in sigma else st.env[v]
                sg = st.clone()
                sg.assume(g)
                m1 = ex.ev_spec(L.measure, s2).t
                ex.oblige(sg, f"ih{j}.measure-decreases", z3.And(m1 >= 0, m1 < m0), "lemma-measure")
                hy2 = [ex.truth(ex.ev_spec(h, s2)) for h in L.hyps]
                g2 = ex.truth(ex.ev_spec(L.goal, s2))
                main.assume(z3.Implies(g, z3.Implies(z3.And(*hy2) if hy2 else z3.BoolVal(True), g2)))
            uses = ex.inst_uses(L.use, st, None)
            ex.oblige(main, "goal", ex.truth(ex.ev_spec(L.goal, st)), "lemma", use=uses)
        except Unsupported as e:
            ex.unsupported.append(str(e))
        return ex

    def lemma_instance(self, ex, lem, inst, st):
        """hyps[inst] => goal[inst] of a (separately proved) lemma, as a formula."""
        L = self.lemmas[lem]
        s2 = State()
        s2.pc = st.pc
        for v in L.vars:
            s2.env[v] = inst[v]
        hy = [ex.truth(ex.ev_spec(h, s2)) for h in L.hyps]
        g = ex.truth(ex.ev_spec(L.goal, s2))
        self.lemmas_used.add(lem)
        if L.assumed:
            self.assumptions_used.add(f"AXIOM {L.name}: {L.goal} ({L.notes})")
        return z3.Implies(z3.And(*hy), g) if hy else g


class FnExec:
    def __init__(self, engine, qualname):
        self.eng = engine
        self.c: FN = engine.contracts[qualname]
        self.qualname = qualname
        self.mi, self.q, self.node = front.get_function(qualname)
        self.modname = self.mi.modname
        self.loops = front.loops_in_order(self.node)
        self.obls = []
        self.entry = None
        self.dedupe = set()
        self.paths = 0
        self.dead_paths = 0
        self.unsupported = []
        self.inputs = {}
        self._feas = z3.Solver()
        self._feas.set("timeout", engine.feas_timeout_ms)
        self.cur_cls = self.q.rsplit(".", 1)[0] if "." in self.q else None
        self.is_spec = False
        self.cur_line = getattr(self.node, "lineno", 0)

    # ------------------------------------------------------------------ utilities
    def feasible(self, st):
        """path pruning only: quantified facts are left out (over-approximation keeps more paths, which is sound)"""
        self._feas.push()
        try:
            for c in st.pc:
                if not has_quantifier(c):
                    self._feas.add(c)
            r = self._feas.check()
        finally:
            self._feas.pop()
        return r != z3.unsat

    def oblige(self, st, name, goal, kind, lineno=None, note="", use=None):
        if kind in ("safety", "model") and self.is_spec:
            return          # spec expressions are pure terms; they generate no obligations
        if isinstance(goal, bool):
            goal = z3.BoolVal(goal)
        if use:
            st = st.clone()
            for u in use:
                if u[0] == "__inst__":
                    # explicit instances of universally quantified facts already in the path condition
                    # (sound: each added formula is implied by a formula of the pc)
                    for f in instantiate_foralls(st.pc, u[1]):
                        st.assume(f)
                elif u[0] == "__hint__":
                    # proof hint: first an obligation of its own (assert), then an assumption
                    full_h = f"{self.qualname}/hint@{self.cur_line}[{u[2][:40]}]"
                    key_h = (full_h, hash(tuple(c.hash() for c in st.pc)), u[1].hash())
                    if key_h not in self.dedupe:
                        self.dedupe.add(key_h)
                        self.obls.append(Obligation(full_h, st.pc, u[1], "hint", self.qualname, lineno, dict(self.inputs)))
                    st.assume(u[1])
                else:
                    st.assume(self.eng.lemma_instance(self, u[0], u[1], st))
        full = f"{self.qualname}/{name}"
        key = (full, hash(tuple(c.hash() for c in st.pc)), goal.hash())
        if key in self.dedupe:
            return
        self.dedupe.add(key)
        ob = Obligation(full, st.pc, goal, kind, self.qualname, lineno, dict(self.inputs), note)
        if any(has_quantifier(c) for c in st.pc):
            # first attempt without the universally quantified hypotheses (their explicit instances stay):
            # fewer hypotheses is still a proof, and it keeps the solver out of quantifier instantiation
            lite = []
            for c in st.pc:
                for q in _conjuncts(c):
                    if not z3.is_quantifier(q):
                        lite.append(q)
            ob.pc_lite = lite
        self.obls.append(ob)

    def assumption(self, aid):
        self.eng.assumptions_used.add(aid)

    # ------------------------------------------------------------------ entry
    def make_entry_state(self):
        st = State()
        args = self.node.args
        params = [a.arg for a in args.posonlyargs + args.args + args.kwonlyargs]
        defaults = {}
        pos = args.posonlyargs + args.args
        for a, d in zip(pos[len(pos) - len(args.defaults):], args.defaults):
            defaults[a.arg] = d
        for a, d in zip(args.kwonlyargs, args.kw_defaults):
            if d is not None:
                defaults[a.arg] = d
        if args.vararg is not None:
            params.append(args.vararg.arg)
        if self.c.start_at_loop is not None:
            params = list(self.c.types)      # the locals live at the start of the verified region
        for p in params:
            kind = self.c.types.get(p)
            if kind is None:
                raise Unsupported(f"no type for parameter {p} of {self.qualname}")
            st.env[p] = self.make_param(st, p, kind)
        return st

    def make_param(self, st, p, kind):
        if kind in ("int", "bool", "bytes", "str", "obj"):
            v = named_sv(p, kind)
            self.inputs[p] = v.t
            if kind == "bytes":
                self.assume_byte_range(st, v.t)
            return v
        if kind == "stream":
            key = f"stream:{p}"
            d = z3.Const(f"{p}.data", BytesS)
            ps = z3.Int(f"{p}.pos")
            st.heap[(key, "data")] = sv_bytes(d)
            st.heap[(key, "pos")] = sv_int(ps)
            st.assume(ps >= 0)
            st.assume(ps <= z3.Length(d))
            self.assume_byte_range(st, d)
            self.inputs[f"{p}.data"] = d
            self.inputs[f"{p}.pos"] = ps
            return SV("ref", key, "stream")
        if kind.startswith("model:"):
            return self.eng.spec.make_model_param(self, st, p, kind[6:])
        raise Unsupported(f"parameter kind {kind}")

    def assume_byte_range(self, st, seq):
        # element ranges are assumed lazily where a byte is read (see index()); nothing to do here
        return

    # ------------------------------------------------------------------ run
    def run(self):
        try:
            od = front.opaque_decorators(self.node)
            if od:
                raise Unsupported(f"decorator {od[0]} may change the meaning of a call (not in the transparent list)")
            st = self.make_entry_state()
            self.entry = st.clone()
            # ghost constants
            for g, e in self.c.ghost.items():
                v = self.ev_spec(e, st)
                st.ghost[g] = v
            self.entry = st.clone()
            for name, r in self.c.requires:
                st.assume(self.truth(self.ev_spec(r, st)))
            self.entry_pc = list(st.pc)
            # vacuity: requires satisfiable
            self.requires_sat = self.feasible(st)
            body = self.node.body
            if self.c.start_at_loop is not None:
                target = self.loops[self.c.start_at_loop]
                idxs = [i for i, s_ in enumerate(body) if s_ is target]
                if not idxs:
                    raise Unsupported("start_at_loop: the loop is not a top-level statement of the function")
                body = body[idxs[0]:]
                self.eng.assumptions_used.add(
                    f"REGION {self.qualname}: statements before line {target.lineno} are not verified; they are trusted to establish the stated precondition")
            for st1, sig in self.exec_block(body, st):
                self.paths += 1
                self.at_exit(st1, sig)
        except Unsupported as e:
            self.unsupported.append(str(e))
        except (TypeError, KeyError, IndexError, AttributeError, ValueError, z3.Z3Exception) as e:
            # the symbolic executor met a value / construct it has no representation for (e.g. an unmodelled library
            # constant): the function is outside the subset on this tree - UNDECIDED, never a crash of the check and never
            # a verdict.  The message keeps the Python error so that a genuine engine bug stays visible in the evidence.
            import traceback as _tb
            where = _tb.extract_tb(e.__traceback__)[-1]
            self.unsupported.append(f"engine has no model here ({type(e).__name__}: {str(e)[:120]} at {where.filename.split('/')[-1]}:{where.lineno})")
        return self

    def vacuity_probe(self, st, group):
        """records one probe per completed path: `pc => False` must NOT be provable.  If every path of a
        group (a loop body, the function exits) is provably infeasible the proof is vacuous (checker error)."""
        full = f"{self.qualname}/vacuity[{group}]"
        st = st.clone()
        try:
            for u in self.inst_uses([], st, None):
                if u[0] == "__inst__":
                    for f in instantiate_foralls(st.pc, u[1]):
                        st.assume(f)
        except Unsupported:
            pass
        ob = Obligation(full, st.pc, z3.BoolVal(False), "vacuity", self.qualname, None, dict(self.inputs))
        self.obls.append(ob)

    def at_exit(self, st, sig):
        if sig is FALL:
            sig = ("ret", NONE)
        self.vacuity_probe(st, "exit")
        if sig[0] in ("ret", "raise"):
            how = "return" if sig[0] == "ret" else f"raise:{sig[1].t}"
            for name, e in self.c.always:
                self.oblige(st, f"always[{name}]@{how}", self.truth(self.ev_spec(e, st)), "always")
        cells = [tuple(p[1:].split(".", 1)) for p in self.c.modifies if p.startswith("@")]
        if cells and sig[0] == "ret":
            # cell-level frame: every other heap cell that existed at entry is unchanged
            for (key, attr), v0 in self.entry.heap.items():
                if (key, attr) in cells or key.startswith("$L"):
                    continue
                v1 = st.heap.get((key, attr))
                if v1 is None or v1.kind != v0.kind or v0.kind not in ("int", "bool", "bytes", "str", "obj", "objseq", "arr"):
                    continue
                if v1.t is v0.t or v1.t.eq(v0.t):
                    continue
                self.oblige(st, f"frame[{key}.{attr}]", v1.t == v0.t, "frame")
        if sig[0] == "ret" and self.c.generator:
            uses = self.inst_uses(self.c.use, st, None)
            for name, e in self.c.ends:
                self.oblige(st, f"ends[{name}]", self.truth(self.ev_spec(e, st)), "ends", use=uses)
            return
        if sig[0] == "ret":
            res = sig[1]
            # in postconditions parameter names denote the ENTRY values (callers cannot observe rebinding);
            # heap state (stream.data ...) and locals are the exit ones; old(...) gives the entry heap
            pst = st.clone()
            for p in self.c.types:
                if p in self.entry.env and self.entry.env[p].kind not in ("vmdict", "mmdict", "gclocal", "arr", "ref", "strset"):
                    pst.env[p] = self.entry.env[p]      # (mutable containers denote their exit state)
            for name, e in self.c.ensures:
                g = self.truth(self.ev_spec(e, pst, result=res))
                self.oblige(st, f"ensures[{name}]", g, "ensures", use=self.inst_uses(self.c.use, st, res))
            # an `iff` raise condition must not hold on a normal exit
            for exc, kind, cond in self.c.raises:
                if kind == "iff":
                    g = z3.Not(self.truth(self.ev_spec(cond, self.entry_with(st))))
                    self.oblige(st, f"raises[{exc}].complete", g, "raises", use=self.inst_uses(self.c.use, st, res))
        elif sig[0] == "raise":
            exc = sig[1].t
            clauses = [(e, k, c) for (e, k, c) in self.c.raises if exc_isinstance(exc, e)]
            if not clauses:
                self.oblige(st, f"no-unlisted-exception[{exc}]", z3.BoolVal(False), "raises",
                            note=f"path raises {exc} which the contract does not list")
            else:
                conds = []
                for e, k, c in clauses:
                    if k == "may":
                        conds.append(z3.BoolVal(True))
                    else:
                        conds.append(self.truth(self.ev_spec(c, self.entry_with(st))))
                self.oblige(st, f"raises[{exc}].sound", z3.Or(*conds), "raises", use=self.inst_uses(self.c.use, st, None))
            for e, post in self.c.on_raise:
                if exc_isinstance(exc, e):
                    self.oblige(st, f"on_raise[{e}]", self.truth(self.ev_spec(post, st)), "raises",
                                use=self.inst_uses(self.c.use, st, None))
        else:
            raise Unsupported(f"signal {sig} at function exit")

    def inst_uses(self, uses, st, res):
        out = []
        for h in getattr(self.c, "hints", []) or []:
            try:
                out.append(("__hint__", self.truth(self.ev_spec(h, st, result=res)), h))
            except (Unsupported, KeyError):
                continue
        terms = []
        for e in getattr(self.c, "inst_terms", []) or []:
            try:
                terms.append(self.as_int(self.ev_spec(e, st, result=res), st))
            except (Unsupported, KeyError):
                continue
        if terms:
            out.append(("__inst__", terms))
        for lem, inst in uses or []:
            try:
                out.append((lem, {k: self.ev_spec(e, st, result=res) for k, e in inst.items()}))
            except (Unsupported, KeyError):
                continue      # instance mentions names that do not exist at this exit
        return out

    def entry_with(self, st):
        """State whose env/heap are the entry ones but whose pc is the current one (for old-state conditions)."""
        e = self.entry.clone()
        e.pc = st.pc
        e.ghost = st.ghost
        return e

    # ------------------------------------------------------------------ spec expressions
    _spec_cache = {}

    def parse_spec(self, text):
        if text not in self._spec_cache:
            self._spec_cache[text] = ast.parse(text.strip(), mode="eval").body
        return self._spec_cache[text]

    def ev_spec(self, text, st, result=None):
        node = self.parse_spec(text) if isinstance(text, str) else text
        old_spec, old_res = self.is_spec, getattr(self, "_result", None)
        self.is_spec, self._result = True, result
        try:
            outs = list(self.ev(node, st))
        finally:
            self.is_spec, self._result = old_spec, old_res
        if len(outs) != 1 or isinstance(outs[0][1], Raised):
            raise Unsupported(f"spec expression is not pure: {ast.unparse(node)}")
        return outs[0][1]

    # ------------------------------------------------------------------ truthiness / coercions
    def truth(self, v):
        k = v.kind
        if k == "bool":
            return v.t
        if k == "int":
            return v.t != 0
        if k in ("bytes", "str"):
            return z3.Length(v.t) > 0
        if k == "none":
            return z3.BoolVal(False)
        if k == "tuple":
            return z3.BoolVal(len(v.t) > 0)
        if k == "const":
            return z3.BoolVal(bool(v.t))
        if k == "obj":
            return self.eng.spec.obj_truth(self, v.t)
        if k in ("ref", "rec", "func"):
            return z3.BoolVal(True)
        r = self.eng.spec._plug("truth_hook", self, v)
        if r is not None:
            return r
        raise Unsupported(f"truth of {k}")

    def as_int(self, v, st, what="int operand"):
        if v.kind == "int":
            return v.t
        if v.kind == "bool":
            return z3.If(v.t, z3.IntVal(1), z3.IntVal(0))
        if v.kind == "obj":
            # type-safety side obligation: the dynamic value is an int (or bool)
            self.oblige(st, f"type[{what}]@{self.cur_line}", z3.Or(PyObj.is_PInt(v.t), PyObj.is_PBool(v.t), PyObj.is_PEnum(v.t)), "safety")
            from .speclib import obj_int
            return obj_int(v.t)
        raise Unsupported(f"{what}: expected int, got {v.kind}")

    def as_bytes(self, v, st, what="bytes operand"):
        if v.kind == "bytes":
            return v.t
        if v.kind == "obj":
            self.oblige(st, f"type[{what}]", PyObj.is_PBytes(v.t), "safety")
            return PyObj.pbytes(v.t)
        raise Unsupported(f"{what}: expected bytes, got {v.kind}")

    def coerce(self, v, kind, st, what):
        if kind is None or v.kind == kind:
            return v
        if kind == "int":
            return sv_int(self.as_int(v, st, what))
        if kind == "bytes":
            return sv_bytes(self.as_bytes(v, st, what))
        if kind == "obj":
            return SV("obj", to_obj(v))
        if kind == "bool" and v.kind == "obj":
            self.oblige(st, f"type[{what}]", PyObj.is_PBool(v.t), "safety")
            return sv_bool(PyObj.pbool(v.t))
        if kind == "str" and v.kind == "obj":
            self.oblige(st, f"type[{what}]", PyObj.is_PStr(v.t), "safety")
            return sv_str(PyObj.pstr(v.t))
        if kind == "any":
            return v
        raise Unsupported(f"{what}: cannot coerce {v.kind} to {kind}")

    # ------------------------------------------------------------------ statements
    def exec_block(self, stmts, st):
        if not stmts:
            yield st, FALL
            return
        for st1, sig in self.exec_stmt(stmts[0], st):
            if sig is FALL:
                yield from self.exec_block(stmts[1:], st1)
            else:
                yield st1, sig

    def exec_stmt(self, node, st):
        m = getattr(self, "s_" + type(node).__name__, None)
        if m is None:
            raise Unsupported(f"statement {type(node).__name__} at line {node.lineno}")
        self.cur_line = node.lineno
        yield from m(node, st)

    def s_Expr(self, node, st):
        if isinstance(node.value, ast.Constant):
            yield st, FALL     # docstring
            return
        if isinstance(node.value, ast.Yield):
            # generator step contract: the clauses `yields` must hold for the yielded value
            for st1, v in self.ev(node.value.value, st):
                if isinstance(v, Raised):
                    yield st1, ("raise", v.exc)
                    continue
                st2 = st1.clone()
                st2.ghost["yielded"] = v
                uses = self.inst_uses(self.c.use, st2, None)
                for name, e in self.c.yields:
                    self.oblige(st2, f"yields[{name}]@{node.lineno}", self.truth(self.ev_spec(e, st2)), "yields",
                                node.lineno, use=uses)
                yield st1, FALL
            return
        for st1, v in self.ev(node.value, st):
            if isinstance(v, Raised):
                yield st1, ("raise", v.exc)
            else:
                yield st1, FALL

    def s_Pass(self, node, st):
        yield st, FALL

    def s_Assign(self, node, st):
        for st1, v in self.ev(node.value, st):
            if isinstance(v, Raised):
                yield st1, ("raise", v.exc)
                continue
            st2 = st1.clone()
            for tgt in node.targets:
                self.assign(tgt, v, st2)
                if isinstance(tgt, ast.Name) and tgt.id in self.c.ghost_at_assign:
                    for g, e in self.c.ghost_at_assign[tgt.id].items():
                        st2.ghost[g] = self.ev_spec(e, st2)
                if isinstance(tgt, ast.Name) and tgt.id in self.c.assert_after_assign:
                    uses = self.inst_uses(self.c.use, st2, None)
                    for e in self.c.assert_after_assign[tgt.id]:
                        try:
                            g_ = self.truth(self.ev_spec(e, st2))
                        except (Unsupported, KeyError):
                            continue
                        self.oblige(st2, f"assert-after[{tgt.id}]@{node.lineno}", g_, "hint", node.lineno, use=uses)
                        st2.assume(g_)
            yield st2, FALL

    def s_AnnAssign(self, node, st):
        if node.value is None:
            yield st, FALL
            return
        for st1, v in self.ev(node.value, st):
            if isinstance(v, Raised):
                yield st1, ("raise", v.exc)
                continue
            st2 = st1.clone()
            self.assign(node.target, v, st2)
            yield st2, FALL

    def s_AugAssign(self, node, st):
        load = ast.copy_location(ast.BinOp(left=self._as_load(node.target), op=node.op, right=node.value), node)
        for st1, v in self.ev(load, st):
            if isinstance(v, Raised):
                yield st1, ("raise", v.exc)
                continue
            st2 = st1.clone()
            self.assign(node.target, v, st2)
            yield st2, FALL

    def _as_load(self, t):
        if isinstance(t, ast.Name):
            return ast.copy_location(ast.Name(id=t.id, ctx=ast.Load()), t)
        if isinstance(t, ast.Attribute):
            return ast.copy_location(ast.Attribute(value=t.value, attr=t.attr, ctx=ast.Load()), t)
        if isinstance(t, ast.Subscript):
            return ast.copy_location(ast.Subscript(value=t.value, slice=t.slice, ctx=ast.Load()), t)
        raise Unsupported("augassign target")

    def assign(self, tgt, v, st):
        if isinstance(tgt, ast.Name):
            st.env[tgt.id] = v
        elif isinstance(tgt, (ast.Tuple, ast.List)):
            if v.kind != "tuple" or len(v.t) != len(tgt.elts):
                raise Unsupported("tuple unpack of non-tuple")
            for t, x in zip(tgt.elts, v.t):
                self.assign(t, x, st)
        elif isinstance(tgt, ast.Attribute):
            recv = self.ev1(tgt.value, st)
            self.set_attr(recv, tgt.attr, v, st)
        elif isinstance(tgt, ast.Subscript):
            recv = self.ev1(tgt.value, st)
            key = self.ev1(tgt.slice, st)
            self.eng.spec.set_item(self, st, recv, key, v)
        else:
            raise Unsupported(f"assignment target {type(tgt).__name__}")

    def set_attr(self, recv, attr, v, st):
        if recv.kind == "ref":
            attr = self.mangle(attr)
            hook = self.eng.spec.setattr_hook(self, st, recv, attr, v)
            if hook:
                return
            st.heap[(recv.t, attr)] = v
            return
        if self.eng.spec._plug("setattr_other", self, st, recv, attr, v):
            return
        raise Unsupported(f"attribute store on {recv.kind}")

    def mangle(self, attr):
        if attr.startswith("__") and not attr.endswith("__") and self.cur_cls:
            return f"_{self.cur_cls.split('.')[-1]}{attr}"
        return attr

    def s_Return(self, node, st):
        if node.value is None:
            yield st, ("ret", NONE)
            return
        for st1, v in self.ev(node.value, st):
            if isinstance(v, Raised):
                yield st1, ("raise", v.exc)
            else:
                yield st1, ("ret", v)

    def s_Raise(self, node, st):
        if node.exc is None:
            cur = st.env.get("__active_exc")
            if cur is None:
                raise Unsupported("bare raise outside handler")
            yield st, ("raise", cur)
            return
        for st1, v in self.ev(node.exc, st):
            if isinstance(v, Raised):
                yield st1, ("raise", v.exc)
            elif v.kind == "exc":
                yield st1, ("raise", v)
            elif v.kind == "func" and v.t[0] in ("builtin", "class") and (
                    v.t[1].split(".")[-1] in EXC_PARENTS or (v.t[0] == "class" and self.eng.spec.is_exception_class(v.t[1]))):
                yield st1, ("raise", SV("exc", v.t[1].split(".")[-1]))     # `raise ExcClass`
            else:
                raise Unsupported(f"raise of {v.kind}")

    def s_Assert(self, node, st):
        for st1, v in self.ev(node.test, st):
            if isinstance(v, Raised):
                yield st1, ("raise", v.exc)
                continue
            self.oblige(st1, f"assert@{node.lineno}", self.truth(v), "safety", node.lineno)
            st2 = st1.clone()
            st2.assume(self.truth(v))
            yield st2, FALL

    def s_If(self, node, st):
        for st1, v in self.ev_cond(node.test, st):
            if isinstance(v, Raised):
                yield st1, ("raise", v.exc)
                continue
            c = v
            cb = concrete_bool(c)
            if cb is not False:
                s_t = st1.clone()
                s_t.assume(c)
                if cb is True or self.feasible(s_t):
                    yield from self.exec_block(node.body, s_t)
                else:
                    self.dead_paths += 1
            if cb is not True:
                s_f = st1.clone()
                s_f.assume(z3.Not(c))
                if cb is False or self.feasible(s_f):
                    yield from self.exec_block(node.orelse, s_f)
                else:
                    self.dead_paths += 1

    def s_With(self, node, st):
        if len(node.items) != 1:
            raise Unsupported("with: multiple items")
        item = node.items[0]
        for st1, v in self.ev(item.context_expr, st):
            if isinstance(v, Raised):
                yield st1, ("raise", v.exc)
                continue
            st2 = st1.clone()
            if v.kind == "ctx_stream":
                v = SV("ref", v.t, "gstream")       # `async with channel.request(...) as stream`
            if item.optional_vars is not None:
                self.assign(item.optional_vars, v, st2)
            # context managers in the subset (BytesIO, warnings.catch_warnings) have no-op __exit__
            yield from self.exec_block(node.body, st2)

    def s_Try(self, node, st):
        def run_finally(st_in, sig):
            if not node.finalbody:
                yield st_in, sig
                return
            for st_f, sig_f in self.exec_block(node.finalbody, st_in):
                if sig_f is FALL:
                    yield st_f, sig
                else:
                    yield st_f, sig_f     # finally overrides (e.g. raises)

        for st1, sig in self.exec_block(node.body, st):
            if sig[0] == "raise":
                exc = sig[1]
                handled = False
                for h in node.handlers:
                    names = self.handler_names(h)
                    if any(exc_isinstance(exc.t, n) for n in names):
                        st2 = st1.clone()
                        if h.name:
                            st2.env[h.name] = exc
                        st2.env["__active_exc"] = exc
                        for st3, sig3 in self.exec_block(h.body, st2):
                            yield from run_finally(st3, sig3)
                        handled = True
                        break
                if not handled:
                    yield from run_finally(st1, sig)
            elif sig is FALL and node.orelse:
                for st2, sig2 in self.exec_block(node.orelse, st1):
                    yield from run_finally(st2, sig2)
            else:
                yield from run_finally(st1, sig)

    def handler_names(self, h):
        if h.type is None:
            return ["BaseException"]
        ts = h.type.elts if isinstance(h.type, ast.Tuple) else [h.type]
        out = []
        for t in ts:
            if isinstance(t, ast.Name):
                out.append(t.id)
            elif isinstance(t, ast.Attribute):
                out.append(t.attr)
            else:
                raise Unsupported("except clause type")
        return out

    def s_Break(self, node, st):
        yield st, BREAK

    def s_Continue(self, node, st):
        yield st, CONT

    # ------------------------------------------------------------------ loops
    def loop_spec(self, node):
        idx = self.loops.index(node)
        spec = self.c.loops.get(idx)
        if spec is None:
            raise Unsupported(f"loop {idx} (line {node.lineno}) of {self.qualname} has no invariant")
        return idx, spec

    MUTATING_METHODS = {"append", "extend", "setdefault", "update", "add", "pop", "clear", "insert", "remove"}

    def assigned_names(self, body):
        names = set()
        for n in body:
            for c in ast.walk(n):
                if isinstance(c, ast.Name) and isinstance(c.ctx, ast.Store):
                    names.add(c.id)
                # in-place mutation of a local container: x[k] = v, x.append(v), ...
                if isinstance(c, ast.Subscript) and isinstance(c.ctx, ast.Store) and isinstance(c.value, ast.Name):
                    names.add(c.value.id)
                if (isinstance(c, ast.Call) and isinstance(c.func, ast.Attribute) and c.func.attr in self.MUTATING_METHODS
                        and isinstance(c.func.value, ast.Name)):
                    names.add(c.func.value.id)
        return names

    def touched_refs(self, body, st):
        """Heap objects possibly mutated by the loop body: receivers of method calls / attribute
        stores and reference-kind values passed as call arguments."""
        refs = set()
        for n in body:
            for c in ast.walk(n):
                if isinstance(c, ast.Name) and c.id in st.env and st.env[c.id].kind == "ref":
                    refs.add(st.env[c.id].t)
                    extra = self.eng.spec._plug("modified_keys", self, st.env[c.id])
                    if extra:
                        refs |= set(extra)
        # global model state (value heap, ghost counters ...) may be changed by any call in the body: it is
        # part of the loop-modified state unless an invariant says otherwise
        for (key, attr) in st.heap:
            if key.startswith("$"):
                refs.add(key)
        return refs

    def havoc(self, st, names, refs):
        for n in names:
            if n in st.env and st.env[n].kind in ("arr", "vmdict", "mmdict", "gclocal", "objseq"):
                st.env[n] = SV(st.env[n].kind, fresh(n, st.env[n].t.sort()))
            elif n in st.env and st.env[n].kind in ("int", "bool", "bytes", "str", "obj"):
                v = fresh_sv(n, st.env[n].kind)
                if v.kind == "bytes":
                    self.assume_byte_range(st, v.t)
                st.env[n] = v
            elif n in st.env and st.env[n].kind == "tuple":
                raise Unsupported(f"havoc of tuple variable {n}")
        for (key, attr), v in list(st.heap.items()):
            if key in refs and v.kind in ("arr", "objseq"):
                st.heap[(key, attr)] = SV(v.kind, fresh(f"{key}.{attr}", v.t.sort()))
            elif key in refs and v.kind in ("int", "bool", "bytes", "str", "obj"):
                nv = fresh_sv(f"{key}.{attr}", v.kind)
                if nv.kind == "bytes":
                    self.assume_byte_range(st, nv.t)
                st.heap[(key, attr)] = nv
        self.eng.spec.havoc_hook(self, st, refs)

    def s_While(self, node, st):
        yield from self.loop_cut(node, st, guard=node.test, it=None)

    def s_For(self, node, st):
        for st1, itv in self.ev(node.iter, st):
            if isinstance(itv, Raised):
                yield st1, ("raise", itv.exc)
                continue
            yield from self.loop_cut(node, st1, guard=None, it=itv)

    def gen_step(self, gen, st):
        """one step of a generator under its (separately verified) step contract: nondeterministically it
        ends (ends clauses hold), raises (may), or yields a value for which the yields clauses hold."""
        c, genv_env, ghost = gen.t
        refs = set()
        for p_ in c.modifies:
            v = genv_env.get(p_)
            if v is not None and v.kind == "ref":
                refs.add(v.t)

        def clause_state(s, yielded=None):
            cs = State()
            cs.pc, cs.heap, cs.env = s.pc, s.heap, dict(genv_env)
            cs.ghost = dict(ghost)
            if yielded is not None:
                cs.ghost["yielded"] = yielded
            return cs
        sub = FnExec.__new__(FnExec)
        sub.__dict__.update(self.__dict__)
        sub.c = c
        sub.mi = front.load_module(front.split_qualname(c.qualname)[0])
        head = clause_state(st)
        lp = c.loops.get(0)
        head_ghost = {}
        if lp is not None:
            for g, e in lp.ghost_head.items():
                head_ghost[g] = sub.ev_spec(e, head)
        # raise outcomes
        for exc, kind, cond in c.raises:
            s_r = st.clone()
            s_r.heap = dict(s_r.heap)
            self.havoc(s_r, [], refs)
            if self.feasible(s_r):
                yield s_r, "raise", SV("exc", exc)
        # end
        s_e = st.clone()
        s_e.heap = dict(s_e.heap)
        self.havoc(s_e, [], refs)
        cs = clause_state(s_e)
        cs.ghost.update(head_ghost)
        for name, e in c.ends:
            s_e.assume(sub.truth(sub.ev_spec(e, cs)))
        yield s_e, "end", None
        # yield
        s_y = st.clone()
        s_y.heap = dict(s_y.heap)
        self.havoc(s_y, [], refs)
        yv = self.eng.spec.fresh_yield(self, c, s_y)
        cs = clause_state(s_y, yv)
        cs.ghost.update(head_ghost)
        for name, e in c.yields:
            s_y.assume(sub.truth(sub.ev_spec(e, cs)))
        yield s_y, "yield", yv

    def iter_model(self, itv, st):
        """returns (length term or None, elem(k term)->SV)."""
        if itv.kind == "iter_count":
            a, b = itv.t
            return None, (lambda k: sv_int(a + b * k))
        if itv.kind == "iter_range":
            n = itv.t
            return n, (lambda k: sv_int(k))
        if itv.kind == "bytes":
            return z3.Length(itv.t), (lambda k: sv_int(itv.t[k]))
        if itv.kind == "tuple":
            raise Unsupported("for over python-level tuple (unroll not implemented)")
        r = self.eng.spec.iter_hook(self, st, itv)
        if r is not None:
            return r
        raise Unsupported(f"for over {itv.kind}")

    def loop_cut(self, node, st, guard, it):
        idx, spec = self.loop_spec(node)
        lname = f"loop{idx}"
        kname = f"__k{idx}"
        st = st.clone()
        is_gen = it is not None and it.kind == "gen"
        if is_gen:
            length, elem = None, None
            st.env[kname] = sv_int(0)
            if spec.index:
                st.ghost[spec.index] = st.env[kname]
        elif it is not None:
            length, elem = self.iter_model(it, st)
            st.env[kname] = sv_int(0)
            if spec.index:
                st.ghost[spec.index] = st.env[kname]
        for g, e in spec.ghost_init.items():
            st.ghost[g] = self.ev_spec(e, st)
        # 1. invariant holds on entry
        for label, inv in spec.inv:
            self.oblige(st, f"{lname}.init[{label}]", self.truth(self.ev_spec(inv, st)), "loop-init", node.lineno)
        # 2. havoc
        hs = st.clone()
        names = self.assigned_names(node.body) | set(spec.modifies or [])
        if it is not None:
            names.add(kname)
        refs = self.touched_refs(node.body, hs)
        self.havoc(hs, names, refs)
        if it is not None:
            hs.assume(hs.env[kname].t >= 0)
            if length is not None:
                # iteration protocol: the index never exceeds the length (re-checked at the end of the body
                # against the length in THAT state, so a body that shrinks the sequence is caught)
                hs.assume(hs.env[kname].t <= length)
            if spec.index:
                hs.ghost[spec.index] = hs.env[kname]
        for g in spec.ghost_update:
            hs.ghost[g] = fresh_sv(g, hs.ghost[g].kind)
        for label, inv in spec.inv:
            hs.assume(self.truth(self.ev_spec(inv, hs)))
        # 3. guard
        if guard is not None:
            branches = []
            for st3, g in self.ev_cond(guard, hs):
                if isinstance(g, Raised):
                    yield st3, ("raise", g.exc)
                    continue
                branches.append((st3, g))
        elif is_gen:
            branches = []
            for st3, kind_, val in self.gen_step(it, hs):
                if kind_ == "raise":
                    yield st3, ("raise", val)
                elif kind_ == "end":
                    s_end = st3.clone()
                    if self.feasible(s_end):
                        yield from self.exec_block(node.orelse, s_end)
                else:
                    branches.append((st3, z3.BoolVal(True), val))
        else:
            k = hs.env[kname].t
            branches = [(hs, (k < length) if length is not None else z3.BoolVal(True))]
        for br in branches:
            st3, c = br[0], br[1]
            # body
            sb = st3.clone()
            sb.assume(c)
            if self.feasible(sb):
                if is_gen:
                    self.assign(node.target, br[2], sb)
                elif it is not None:
                    self.assign(node.target, elem(sb.env[kname].t), sb)
                for g, e in spec.ghost_head.items():
                    sb.ghost[g] = self.ev_spec(e, sb)
                v0 = self.ev_spec(spec.decreases, sb).t if spec.decreases else None
                for st4, sig in self.exec_block(node.body, sb):
                    if sig is FALL or sig is CONT:
                        st5 = st4.clone()
                        if it is not None:
                            st5.env[kname] = sv_int(st5.env[kname].t + 1)
                            if spec.index:
                                st5.ghost[spec.index] = st5.env[kname]
                        for g, e in spec.ghost_update.items():
                            st5.ghost[g] = self.ev_spec(e, st5)
                        self.paths += 1
                        self.vacuity_probe(st5, f"{lname}.body")
                        if it is not None and length is not None:
                            length2, _ = self.iter_model(it, st5)
                            self.oblige(st5, f"{lname}.index-bound", st5.env[kname].t <= length2, "loop-preserve", node.lineno)
                        uses = self.inst_uses(spec.use, st5, None)
                        for label, e in spec.step:
                            self.oblige(st5, f"{lname}.step[{label}]", self.truth(self.ev_spec(e, st5)), "loop-step",
                                        node.lineno, use=uses)
                        for label, inv in spec.inv:
                            self.oblige(st5, f"{lname}.preserve[{label}]", self.truth(self.ev_spec(inv, st5)),
                                        "loop-preserve", node.lineno, use=uses)
                        if v0 is not None:
                            v1 = self.ev_spec(spec.decreases, st5).t
                            self.oblige(st5, f"{lname}.variant", z3.And(v0 >= 0, v1 < v0), "termination", node.lineno)
                    elif sig is BREAK:
                        for label, e in spec.step:
                            self.oblige(st4, f"{lname}.step[{label}]", self.truth(self.ev_spec(e, st4)), "loop-step",
                                        node.lineno, use=self.inst_uses(spec.use, st4, None))
                        yield st4, FALL
                    else:
                        yield st4, sig
            else:
                self.dead_paths += 1
            # exit
            if is_gen:
                continue
            se = st3.clone()
            se.assume(z3.Not(c))
            if it is not None and length is not None:
                se.assume(se.env[kname].t == length)      # implied by the index bound and the negated guard
            if self.feasible(se):
                yield from self.exec_block(node.orelse, se)

    # ------------------------------------------------------------------ expressions
    def ev1(self, node, st):
        outs = list(self.ev(node, st))
        if len(outs) != 1 or isinstance(outs[0][1], Raised) or outs[0][0] is not st and outs[0][0].pc != st.pc:
            if len(outs) == 1 and not isinstance(outs[0][1], Raised):
                return outs[0][1]
            raise Unsupported(f"expression must be simple here: {ast.unparse(node)}")
        return outs[0][1]

    def ev(self, node, st):
        m = getattr(self, "e_" + type(node).__name__, None)
        if m is None:
            raise Unsupported(f"expression {type(node).__name__}: {ast.unparse(node)}")
        yield from m(node, st)

    def ev_list(self, nodes, st):
        """evaluate expressions left to right; yields (st, [values]) or (st, Raised)."""
        if not nodes:
            yield st, []
            return
        for st1, v in self.ev(nodes[0], st):
            if isinstance(v, Raised):
                yield st1, v
                continue
            for st2, rest in self.ev_list(nodes[1:], st1):
                if isinstance(rest, Raised):
                    yield st2, rest
                else:
                    yield st2, [v] + rest

    def e_Constant(self, node, st):
        v = node.value
        if isinstance(v, (bool, int, str, bytes)) or v is None:
            yield st, from_python(v)
        elif isinstance(v, float):
            yield st, SV("const", v)
        elif v is Ellipsis:
            yield st, SV("const", v)
        else:
            raise Unsupported(f"constant {v!r}")

    def e_Name(self, node, st):
        n = node.id
        if self.is_spec and n == "result" and self._result is not None:
            yield st, self._result
            return
        if n in st.env:
            yield st, st.env[n]
            return
        if self.is_spec:
            if n in st.ghost:
                yield st, st.ghost[n]
                return
        if self.is_spec and n == "result":
            raise Unsupported("`result` is not defined here")
        if self.is_spec and any(n in getattr(p, "SPEC_CONSTS", ()) for p in self.eng.spec.plugins):
            yield st, self.eng.spec.call(self, n, [], st)
            return
        yield st, self.resolve_global(n)

    def resolve_global(self, n, mi=None):
        mi = mi or self.mi
        if n in ("True", "False", "None"):
            return from_python({"True": True, "False": False, "None": None}[n])
        if self.is_spec and self.eng.spec.has(n):
            return SV("func", ("spec", n))
        if n in mi.assigns:
            return self.eval_module_const(mi, n)
        if n in mi.functions:
            return SV("func", ("repo", f"{mi.modname}.{n}"))
        if n in mi.classes:
            return SV("func", ("class", f"{mi.modname}.{n}"))
        if n in mi.imports:
            imp = mi.imports[n]
            if imp[0] == "from" and imp[1].startswith("."):
                # relative import inside betterproto
                base = mi.modname.split(".")
                is_pkg = mi.path.endswith("__init__.py")
                level = len(imp[1]) - len(imp[1].lstrip("."))
                up = base if is_pkg else base[:-1]
                up = up[: len(up) - (level - 1)]
                target = ".".join(up + ([imp[1].lstrip(".")] if imp[1].lstrip(".") else []))
                try:
                    tmi = front.load_module(target)
                    return self.resolve_global(imp[2], tmi)
                except FileNotFoundError:
                    pass
            if imp[0] == "from" and not imp[1].startswith("."):
                # `from betterproto import casing` : a module of the repository
                for cand in (f"{imp[1]}.{imp[2]}",):
                    try:
                        front.load_module(cand)
                        return SV("func", ("module", cand))
                    except FileNotFoundError:
                        pass
                try:
                    tmi = front.load_module(imp[1])
                    if imp[2] in tmi.functions or imp[2] in tmi.classes or imp[2] in tmi.assigns:
                        return self.resolve_global(imp[2], tmi)
                except FileNotFoundError:
                    pass
            return SV("func", ("builtin", self.import_name(imp)))
        if self.eng.spec.has(n):
            return SV("func", ("spec", n))
        if self.is_spec and n not in ("len", "int", "bool", "isinstance", "min", "max", "abs", "bytes", "str", "divmod"):
            raise Unsupported(f"unknown name {n} in a spec expression")
        return SV("func", ("builtin", n))

    def import_name(self, imp):
        if imp[0] == "module":
            return imp[1]
        return f"{imp[1]}.{imp[2]}"

    _const_cache = {}

    def eval_module_const(self, mi, n):
        key = (mi.path, n)
        if key not in self._const_cache:
            node = mi.assigns[n]
            sub = FnExec.__new__(FnExec)
            sub.__dict__.update(self.__dict__)
            sub.mi = mi
            sub.is_spec = False
            st0 = State()
            outs = list(sub.ev(node, st0))
            if len(outs) != 1 or isinstance(outs[0][1], Raised):
                raise Unsupported(f"module constant {n} is not a simple expression")
            self._const_cache[key] = outs[0][1]
        return self._const_cache[key]

    def e_Tuple(self, node, st):
        for st1, vs in self.ev_list(node.elts, st):
            yield st1, (vs if isinstance(vs, Raised) else sv_tuple(vs))

    def e_List(self, node, st):
        if not node.elts and not self.is_spec:
            r = self.eng.spec._plug("list_literal", self, st)
            if r is not None:
                yield from r
                return
        yield from self.e_Tuple(node, st)

    def e_Set(self, node, st):
        for st1, vs in self.ev_list(node.elts, st):
            yield st1, (vs if isinstance(vs, Raised) else sv_tuple(vs))

    def e_Dict(self, node, st):
        if not node.keys and not self.is_spec:
            r = self.eng.spec._plug("dict_literal", self, st)
            if r is not None:
                yield from r
                return
        if any(k is None for k in node.keys):
            raise Unsupported("dict unpacking literal")
        for st1, ks in self.ev_list(node.keys, st):
            if isinstance(ks, Raised):
                yield st1, ks
                continue
            for st2, vs in self.ev_list(node.values, st1):
                yield st2, (vs if isinstance(vs, Raised) else SV("cdict", list(zip(ks, vs))))

    def e_JoinedStr(self, node, st):
        """f-strings: exact for str pieces without conversion / format spec (the pieces may fork, e.g. a helper
        call with branches); anything else (exception messages with !r, numbers ...) yields an opaque text"""
        exprs = []
        for v in node.values:
            if isinstance(v, ast.FormattedValue):
                if v.conversion != -1 or v.format_spec is not None:
                    yield st, SV("const", "<f-string>")
                    return
                exprs.append(v.value)
        try:
            outs = list(self.ev_list(exprs, st))
        except Unsupported:
            yield st, SV("const", "<f-string>")
            return
        for st1, vals in outs:
            if isinstance(vals, Raised):
                yield st1, vals
                continue
            if any(x.kind != "str" for x in vals):
                # a plugin may know how a non-str piece is formatted (e.g. a positive int as its numeral)
                conv = [x if x.kind == "str" else self.eng.spec._plug("format_value", self, x, st1) for x in vals]
                if any(c is None for c in conv):
                    yield st1, SV("const", "<f-string>")
                    continue
                vals = conv
            it = iter(vals)
            parts = []
            for v in node.values:
                if isinstance(v, ast.Constant) and isinstance(v.value, str):
                    parts.append(z3.StringVal(v.value))
                else:
                    parts.append(next(it).t)
            if not parts:
                yield st1, sv_str("")
            elif len(parts) == 1:
                yield st1, sv_str(parts[0])
            else:
                yield st1, sv_str(z3.Concat(*parts))

    def e_IfExp(self, node, st):
        for st1, c in self.ev_cond(node.test, st):
            if isinstance(c, Raised):
                yield st1, c
                continue
            ct = c
            if self.is_spec:
                a = self.ev_spec(node.body, st1, self._result)
                b = self.ev_spec(node.orelse, st1, self._result)
                yield st1, self.ite(ct, a, b)
                continue
            cb = concrete_bool(ct)
            if cb is not False:
                s_t = st1.clone()
                s_t.assume(ct)
                if cb is True or self.feasible(s_t):
                    yield from self.ev(node.body, s_t)
            if cb is not True:
                s_f = st1.clone()
                s_f.assume(z3.Not(ct))
                if cb is False or self.feasible(s_f):
                    yield from self.ev(node.orelse, s_f)

    def ite(self, c, a, b):
        if a.kind != b.kind:
            if {a.kind, b.kind} <= {"int", "bool"}:
                return sv_int(z3.If(c, self.as_int(a, None), self.as_int(b, None)))
            return SV("obj", z3.If(c, to_obj(a), to_obj(b)))
        if a.kind == "tuple":
            return sv_tuple([self.ite(c, x, y) for x, y in zip(a.t, b.t)])
        if a.kind == "none":
            return a
        return SV(a.kind, z3.If(c, a.t, b.t))

    def ev_cond(self, node, st):
        """evaluate an expression in a truth context: yields (state, z3 Bool | Raised).  Avoids building
        operand-returning ite values for `a or b` when only the truth value is needed."""
        if isinstance(node, ast.UnaryOp) and isinstance(node.op, ast.Not):
            for st1, c in self.ev_cond(node.operand, st):
                yield st1, (c if isinstance(c, Raised) else z3.Not(c))
            return
        if isinstance(node, ast.BoolOp) and (self.is_spec or all(self.pure(x) for x in node.values[1:])):
            is_and = isinstance(node.op, ast.And)
            for st1, c0 in self.ev_cond(node.values[0], st):
                if isinstance(c0, Raised):
                    yield st1, c0
                    continue
                terms = [c0]
                ok = True
                guard_st = st1
                for x in node.values[1:]:
                    # later operands are only evaluated when the earlier ones did not short-circuit: their
                    # safety obligations carry that guard
                    guard_st = guard_st.clone()
                    guard_st.assume(terms[-1] if is_and else z3.Not(terms[-1]))
                    n_pc = len(guard_st.pc)
                    outs = list(self.ev_cond(x, guard_st))
                    if len(outs) != 1 or isinstance(outs[0][1], Raised) or len(outs[0][0].pc) != n_pc:
                        ok = False
                        break
                    terms.append(outs[0][1])
                if ok:
                    yield st1, (z3.And(*terms) if is_and else z3.Or(*terms))
                else:
                    for st2, v in self.ev(node, st1):
                        yield st2, (v if isinstance(v, Raised) else self.truth(v))
            return
        for st1, v in self.ev(node, st):
            yield st1, (v if isinstance(v, Raised) else self.truth(v))

    def e_BoolOp(self, node, st):
        is_and = isinstance(node.op, ast.And)

        def go(i, st0):
            for st1, v in self.ev(node.values[i], st0):
                if isinstance(v, Raised) or i == len(node.values) - 1:
                    yield st1, v
                    continue
                t = self.truth(v)
                if self.is_spec or all(self.pure(x) for x in node.values[i + 1:]):
                    # pure tail: build an ite instead of forking
                    rest = list(go(i + 1, st1))
                    if len(rest) == 1 and not isinstance(rest[0][1], Raised) and rest[0][0].pc == st1.pc:
                        r = rest[0][1]
                        if v.kind == "bool" and r.kind == "bool":
                            yield st1, sv_bool(z3.And(t, r.t) if is_and else z3.Or(t, r.t))
                        else:
                            yield st1, (self.ite(t, r, v) if is_and else self.ite(t, v, r))
                        continue
                # fork
                cb = concrete_bool(t)
                short = st1.clone()
                short.assume(z3.Not(t) if is_and else t)
                if (cb is not (True if is_and else False)) and self.feasible(short):
                    yield short, v
                cont = st1.clone()
                cont.assume(t if is_and else z3.Not(t))
                if (cb is not (False if is_and else True)) and self.feasible(cont):
                    yield from go(i + 1, cont)
        yield from go(0, st)

    def pure(self, node):
        for c in ast.walk(node):
            if isinstance(c, ast.Call):
                f = c.func
                if isinstance(f, ast.Name) and f.id in ("len", "isinstance", "bool", "int", "old", "forall", "forall_int", "implies", "same"):
                    continue
                if self.is_spec:
                    continue
                return False
        return True

    def e_UnaryOp(self, node, st):
        for st1, v in self.ev(node.operand, st):
            if isinstance(v, Raised):
                yield st1, v
                continue
            if isinstance(node.op, ast.Not):
                yield st1, sv_bool(z3.Not(self.truth(v)))     # (operand already evaluated as a value)
            elif isinstance(node.op, ast.USub):
                if v.kind == "const" and isinstance(v.t, float):
                    yield st1, SV("const", -v.t)
                else:
                    yield st1, sv_int(-self.as_int(v, st1))
            elif isinstance(node.op, ast.Invert):
                yield st1, sv_int(-self.as_int(v, st1) - 1)
            elif isinstance(node.op, ast.UAdd):
                yield st1, sv_int(self.as_int(v, st1))

    def e_BinOp(self, node, st):
        for st1, vs in self.ev_list([node.left, node.right], st):
            if isinstance(vs, Raised):
                yield st1, vs
                continue
            yield st1, self.binop(node.op, vs[0], vs[1], st1, node)

    def binop(self, op, a, b, st, node=None):
        r = self.eng.spec.binop_hook(self, op, a, b, st)
        if r is not None:
            return r
        if a.kind in ("bytes",) or b.kind in ("bytes",):
            if isinstance(op, ast.Add):
                return sv_bytes(z3.Concat(self.as_bytes(a, st), self.as_bytes(b, st)))
            if isinstance(op, ast.Mult):
                raise Unsupported("bytes * n")
        if a.kind == "objseq" and b.kind == "objseq" and isinstance(op, ast.Add):
            return SV("objseq", z3.Concat(a.t, b.t))
        if a.kind == "str" and b.kind == "str" and isinstance(op, ast.Add):
            return sv_str(z3.Concat(a.t, b.t))
        if a.kind == "tuple" and b.kind == "tuple" and isinstance(op, ast.Add):
            return sv_tuple(a.t + b.t)
        if a.kind == "str" and isinstance(op, ast.Mult):
            n = concrete_int(self.as_int(b, st))
            s = concrete_str(a.t)
            if n is not None and s is not None:
                return sv_str(s * n)
            raise Unsupported("str * symbolic")
        x = self.as_int(a, st, "left operand")
        y = self.as_int(b, st, "right operand")
        if isinstance(op, ast.Add):
            return sv_int(x + y)
        if isinstance(op, ast.Sub):
            return sv_int(x - y)
        if isinstance(op, ast.Mult):
            return sv_int(x * y)
        if isinstance(op, ast.Pow):
            cy, cx = concrete_int(y), concrete_int(x)
            if cy is not None and cx is not None and cy >= 0:
                return sv_int(cx ** cy)
            if cx == 2:
                self.oblige(st, f"pow-range@{self.cur_line}", z3.And(y >= 0, y <= 72), "model")
                return sv_int(pow2_table(y))
            raise Unsupported("symbolic **")
        if isinstance(op, ast.FloorDiv):
            return sv_int(self.floordiv(x, y, st))
        if isinstance(op, ast.Mod):
            return sv_int(self.pymod(x, y, st))
        if isinstance(op, ast.LShift):
            cy = concrete_int(y)
            if cy is not None and cy >= 0:
                return sv_int(x * (2 ** cy))
            self.oblige(st, f"shift-range@{self.cur_line}", z3.And(y >= 0, y <= 72), "model")
            return sv_int(shl_table(x, y))
        if isinstance(op, ast.RShift):
            cy = concrete_int(y)
            if cy is not None and cy >= 0:
                return sv_int(x / (2 ** cy))      # z3 Int '/' with positive divisor == floor division
            self.oblige(st, f"shift-range@{self.cur_line}", z3.And(y >= 0, y <= 72), "model")
            return sv_int(x / pow2_table(y))
        if isinstance(op, ast.BitAnd):
            return sv_int(self.bitand(x, y, st))
        if isinstance(op, ast.BitOr):
            return sv_int(self.bitor(x, y, st, node))
        if isinstance(op, ast.BitXor):
            return sv_int(self.bitxor(x, y, st))
        if isinstance(op, ast.Div):
            raise Unsupported("true division outside a modelled pattern")
        raise Unsupported(f"operator {type(op).__name__}")

    def floordiv(self, x, y, st):
        cy = concrete_int(y)
        if cy is not None and cy > 0:
            return x / cy
        self.oblige(st, f"div-positive@{self.cur_line}", y > 0, "safety")
        return x / y

    def pymod(self, x, y, st):
        cy = concrete_int(y)
        if cy is not None and cy > 0:
            return x % cy
        self.oblige(st, f"mod-positive@{self.cur_line}", y > 0, "safety")
        return x % y

    @staticmethod
    def _pow2m1(c):
        return c is not None and c >= 0 and (c & (c + 1)) == 0

    @staticmethod
    def _pow2(c):
        return c is not None and c > 0 and (c & (c - 1)) == 0

    def bitand(self, x, y, st):
        cx, cy = concrete_int(x), concrete_int(y)
        if cx is not None and cy is not None:
            return z3.IntVal(cx & cy)
        if cy is None and cx is not None:
            x, y, cx, cy = y, x, cy, cx
        if cy is not None:
            if self._pow2m1(cy):            # x & (2^k - 1) == x mod 2^k  (all ints, Python semantics)
                return x % (cy + 1)
            if self._pow2(cy):              # x & 2^k == ((x div 2^k) mod 2) * 2^k
                return ((x / cy) % 2) * cy
            if cy == -1:
                return x
        raise Unsupported("& with a mask that is not 2^k-1 or 2^k")

    def bitor(self, x, y, st, node=None):
        cx, cy = concrete_int(x), concrete_int(y)
        if cx is not None and cy is not None:
            return z3.IntVal(cx | cy)
        # (e << k) | c  with 0 <= c < 2^k : low k bits of the left operand are zero
        if node is not None and isinstance(node, ast.BinOp):
            for left, lt, rt in ((node.left, x, y), (node.right, y, x)):
                if isinstance(left, ast.BinOp) and isinstance(left.op, ast.LShift):
                    sh = None
                    try:
                        sh = self.ev1(left.right, st)
                    except Unsupported:
                        pass
                    if sh is not None:
                        k = self.as_int(sh, st)
                        p = pow2_table(k)
                        # disjoint-bits side obligation: other operand in [0, 2^k)
                        self.oblige(st, f"or-disjoint@{self.cur_line}", z3.And(rt >= 0, rt < p, k >= 0, k <= 72), "model")
                        return lt + rt
        # c | e with c = 2^k and 0 <= e < 2^k
        if cx is None and cy is not None:
            x, y, cx, cy = y, x, cy, cx
        if cx is not None and self._pow2(cx):
            self.oblige(st, f"or-disjoint@{self.cur_line}", z3.And(y >= 0, y < cx), "model")
            return cx + y
        raise Unsupported("| outside the disjoint-bits patterns")

    def bitxor(self, x, y, st):
        cx, cy = concrete_int(x), concrete_int(y)
        if cx is not None and cy is not None:
            return z3.IntVal(cx ^ cy)
        if cy is None and cx is not None:
            x, y, cx, cy = y, x, cy, cx
        if cy is not None:
            if cy == 0:
                return x
            if cy == -1:
                return -x - 1
            if self._pow2(cy):
                return z3.If((x / cy) % 2 == 1, x - cy, x + cy)
            raise Unsupported("^ with an unsupported constant")
        # symbolic mask: must be 0 or -1
        self.oblige(st, f"xor-mask@{self.cur_line}", z3.Or(y == 0, y == -1), "model")
        return z3.If(y == 0, x, -x - 1)

    def e_Compare(self, node, st):
        for st1, vs in self.ev_list([node.left] + list(node.comparators), st):
            if isinstance(vs, Raised):
                yield st1, vs
                continue
            terms = []
            for op, a, b in zip(node.ops, vs, vs[1:]):
                terms.append(self.compare(op, a, b, st1))
            yield st1, sv_bool(terms[0] if len(terms) == 1 else z3.And(*terms))

    def compare(self, op, a, b, st):
        r = self.eng.spec.compare_hook(self, op, a, b, st)
        if r is not None:
            return r
        if isinstance(op, (ast.In, ast.NotIn)):
            r = self.contains(a, b, st)
            return z3.Not(r) if isinstance(op, ast.NotIn) else r
        if isinstance(op, (ast.Is, ast.IsNot)):
            r = self.identical(a, b, st)
            return z3.Not(r) if isinstance(op, ast.IsNot) else r
        if isinstance(op, (ast.Eq, ast.NotEq)):
            r = self.equal(a, b, st)
            return z3.Not(r) if isinstance(op, ast.NotEq) else r
        if a.kind in ("bytes", "str") and b.kind == a.kind:
            raise Unsupported("ordering on sequences")
        x, y = self.as_int(a, st), self.as_int(b, st)
        if isinstance(op, ast.Lt):
            return x < y
        if isinstance(op, ast.LtE):
            return x <= y
        if isinstance(op, ast.Gt):
            return x > y
        if isinstance(op, ast.GtE):
            return x >= y
        raise Unsupported(f"comparison {type(op).__name__}")

    def equal(self, a, b, st):
        ka, kb = a.kind, b.kind
        if ka == "none" or kb == "none":
            if ka == kb:
                return z3.BoolVal(True)
            o = b if ka == "none" else a
            if o.kind == "obj":
                return PyObj.is_PNone(o.t)
            return z3.BoolVal(False)
        if {ka, kb} <= {"int", "bool"}:
            if ka == kb == "bool":
                return a.t == b.t
            return self.as_int(a, st) == self.as_int(b, st)
        if ka == kb and ka in ("bytes", "str"):
            return a.t == b.t
        if ka == kb == "tuple":
            if len(a.t) != len(b.t):
                return z3.BoolVal(False)
            return z3.And(*[self.equal(x, y, st) for x, y in zip(a.t, b.t)]) if a.t else z3.BoolVal(True)
        if ka == "obj" or kb == "obj":
            return self.eng.spec.obj_equal(self, a, b, st)
        if ka == kb == "const":
            return z3.BoolVal(a.t == b.t)
        if ka == kb == "ref":
            return z3.BoolVal(a.t == b.t)
        if ka == kb and ka in ("arr", "objseq", "intseq"):
            return a.t == b.t
        if {ka, kb} <= {"int", "bool", "bytes", "str", "tuple", "const"}:
            return z3.BoolVal(False)
        r = self.eng.spec._plug("equal_hook", self, a, b, st)
        if r is not None:
            return r
        raise Unsupported(f"== between {ka} and {kb}")

    def identical(self, a, b, st):
        if a.kind == "none" or b.kind == "none":
            return self.equal(a, b, st)
        if a.kind == "ref" and b.kind == "ref":
            return z3.BoolVal(a.t == b.t)
        if a.kind == "func" and b.kind == "func":
            return z3.BoolVal(a.t == b.t)
        r = self.eng.spec.identical_hook(self, a, b, st)
        if r is not None:
            return r
        raise Unsupported(f"`is` between {a.kind} and {b.kind}")

    def contains(self, a, b, st):
        if b.kind == "tuple":
            if not b.t:
                return z3.BoolVal(False)
            return z3.Or(*[self.equal(a, x, st) for x in b.t])
        if b.kind == "cdict":
            return z3.Or(*[self.equal(a, k, st) for k, _ in b.t])
        r = self.eng.spec.contains_hook(self, a, b, st)
        if r is not None:
            return r
        raise Unsupported(f"`in` on {b.kind}")

    def e_Subscript(self, node, st):
        if isinstance(node.slice, ast.Slice):
            parts = [node.value] + [x for x in (node.slice.lower, node.slice.upper) if x is not None]
            if node.slice.step is not None:
                raise Unsupported("slice step")
            for st1, vs in self.ev_list(parts, st):
                if isinstance(vs, Raised):
                    yield st1, vs
                    continue
                seq = vs[0]
                it = iter(vs[1:])
                lo = next(it) if node.slice.lower is not None else None
                hi = next(it) if node.slice.upper is not None else None
                yield st1, self.slice(seq, lo, hi, st1)
            return
        for st1, vs in self.ev_list([node.value, node.slice], st):
            if isinstance(vs, Raised):
                yield st1, vs
                continue
            yield from self.index(vs[0], vs[1], st1)

    def slice(self, seq, lo, hi, st):
        if seq.kind == "obj":
            seq = sv_bytes(self.as_bytes(seq, st, f"sliced value@{self.cur_line}"))
        if seq.kind == "objseq":
            l = self.as_int(lo, st) if lo is not None else z3.IntVal(0)
            h = self.as_int(hi, st) if hi is not None else z3.Length(seq.t)
            return SV("objseq", z3.SubSeq(seq.t, l, h - l))
        if seq.kind not in ("bytes", "str"):
            r = self.eng.spec.slice_hook(self, seq, lo, hi, st)
            if r is not None:
                return r
            raise Unsupported(f"slice of {seq.kind}")
        n = z3.Length(seq.t)
        l = self.as_int(lo, st) if lo is not None else z3.IntVal(0)
        h = self.as_int(hi, st) if hi is not None else n
        if lo is not None and concrete_int(l) is None:
            self.oblige(st, f"slice-nonneg@{self.cur_line}", l >= 0, "safety")
        elif lo is not None and concrete_int(l) < 0:
            raise Unsupported("negative slice bound")
        if hi is not None:
            ch = concrete_int(h)
            if ch is not None and ch < 0:
                # s[:-k] == s[:len-k] (clipped at 0)
                h = z3.If(n + ch >= 0, n + ch, 0)
            elif ch is None:
                self.oblige(st, f"slice-nonneg@{self.cur_line}", h >= 0, "safety")
        r = z3.SubSeq(seq.t, l, h - l) if seq.kind == "bytes" else z3.SubString(seq.t, l, h - l)
        return SV(seq.kind, r)

    def index(self, seq, idx, st):
        if seq.kind == "bytes":
            i = self.as_int(idx, st)
            self.oblige(st, f"index-in-range@{self.cur_line}", z3.And(i >= 0, i < z3.Length(seq.t)), "safety")
            if not self.is_spec:
                st = st.clone()
                st.assume(z3.And(seq.t[i] >= 0, seq.t[i] < 256))
                self.assumption("A-BYTES")
            yield st, sv_int(seq.t[i])
            return
        if seq.kind == "objseq":
            yield st, SV("obj", seq.t[self.as_int(idx, st)])
            return
        if seq.kind == "tuple":
            ci = concrete_int(self.as_int(idx, st))
            if ci is None:
                raise Unsupported("symbolic index into tuple")
            yield st, seq.t[ci]
            return
        if seq.kind == "cdict":
            # constant dict lookup; a missing key would be KeyError -> safety obligation
            ck = concrete_str(idx.t) if idx.kind == "str" else None
            if ck is not None and all(k.kind == "str" and concrete_str(k.t) is not None for k, _ in seq.t):
                for k, v in seq.t:
                    if concrete_str(k.t) == ck:
                        yield st, v
                        return
            hit = z3.Or(*[self.equal(idx, k, st) for k, _ in seq.t])
            self.oblige(st, f"key-present@{self.cur_line}", hit, "safety")
            if any(v.kind in ("func", "tuple", "cdict", "ref", "rec") for _, v in seq.t):
                # values without a common sort: one path per key
                for k, v in seq.t:
                    s2 = st.clone()
                    s2.assume(self.equal(idx, k, st))
                    if self.feasible(s2):
                        yield s2, v
                return
            r = seq.t[-1][1]
            for k, v in reversed(seq.t[:-1]):
                r = self.ite(self.equal(idx, k, st), v, r)
            yield st, r
            return
        r = self.eng.spec.index_hook(self, seq, idx, st)
        if r is not None:
            yield from r
            return
        raise Unsupported(f"subscript of {seq.kind}")

    def e_Attribute(self, node, st):
        for st1, v in self.ev(node.value, st):
            if isinstance(v, Raised):
                yield st1, v
                continue
            yield from self.get_attr(v, node.attr, st1)

    def get_attr(self, v, attr, st):
        if v.kind == "ref":
            attr = self.mangle(attr)
            r = self.eng.spec.getattr_hook(self, st, v, attr)
            if r is not None:
                yield from r
                return
            if (v.t, attr) in st.heap:
                yield st, st.heap[(v.t, attr)]
                return
            yield st, SV("func", ("method", v, attr))
            return
        if v.kind == "rec":
            if attr in v.t:
                yield st, v.t[attr]
                return
            raise Unsupported(f"record has no attribute {attr}")
        if v.kind == "func" and v.t[0] == "module":
            yield st, self.resolve_global(attr, front.load_module(v.t[1]))
            return
        if v.kind == "func" and v.t[0] == "builtin":
            r = self.eng.spec._plug("builtin_value", self, f"{v.t[1]}.{attr}")
            yield st, (r if r is not None else SV("func", ("builtin", f"{v.t[1]}.{attr}")))
            return
        if v.kind == "func" and v.t[0] == "class":
            yield st, SV("func", ("classattr", v.t[1], attr))
            return
        if v.kind in ("int", "bool", "bytes", "str", "obj", "tuple", "cdict", "const"):
            r = self.eng.spec.value_attr_hook(self, st, v, attr)
            if r is not None:
                yield from r
                return
            yield st, SV("func", ("method", v, attr))
            return
        r = self.eng.spec._plug("attr_hook", self, st, v, attr)
        if r is not None:
            yield from r
            return
        raise Unsupported(f"attribute {attr} of {v.kind}")

    def e_Await(self, node, st):
        for st1, v in self.ev(node.value, st):
            if isinstance(v, Raised):
                yield st1, v
                continue
            if v.kind != "aw":
                raise Unsupported(f"await of {v.kind}")
            r = self.eng.spec._plug("await_hook", self, st1, v)
            if r is None:
                raise Unsupported(f"await of {v.t[0]}")
            yield from r

    def s_AsyncFor(self, node, st):
        yield from self.s_For(node, st)

    def s_AsyncWith(self, node, st):
        yield from self.s_With(node, st)

    def feasible_true(self, st, cond):
        """cond is implied by the path condition (used by models that need a definite flag)"""
        s = z3.Solver()
        s.set("timeout", 2000)
        for c in st.pc:
            if not has_quantifier(c):
                s.add(c)
        s.add(z3.Not(cond))
        return s.check() == z3.unsat

    def e_Call(self, node, st):
        # special forms in spec expressions
        if self.is_spec and isinstance(node.func, ast.Name):
            if node.func.id == "old":
                e = self.entry_with(st)
                yield st, self.ev_spec(node.args[0], e, self._result)
                return
            if node.func.id == "same":
                # structural identity of two dynamic values (same Python type and same value), stronger than ==
                a = self.ev_spec(node.args[0], st, self._result)
                b = self.ev_spec(node.args[1], st, self._result)
                yield st, sv_bool(to_obj(a) == to_obj(b))
                return
            if node.func.id == "implies":
                a = self.truth(self.ev_spec(node.args[0], st, self._result))
                b = self.truth(self.ev_spec(node.args[1], st, self._result))
                yield st, sv_bool(z3.Implies(a, b))
                return
            if node.func.id == "forall_int":
                # forall_int(lambda v: body): unbounded quantification over the integers
                lam = node.args[0]
                i = fresh(lam.args.args[0].arg, IntS)
                st2 = st.clone()
                st2.env[lam.args.args[0].arg] = sv_int(i)
                st2.ghost[lam.args.args[0].arg] = sv_int(i)
                body = self.truth(self.ev_spec(lam.body, st2, self._result))
                yield st, sv_bool(z3.ForAll([i], body))
                return
            if node.func.id == "forall":
                # forall(lo, hi, lambda i: body)
                lo = self.as_int(self.ev_spec(node.args[0], st, self._result), st)
                hi = self.as_int(self.ev_spec(node.args[1], st, self._result), st)
                lam = node.args[2]
                i = fresh(lam.args.args[0].arg, IntS)
                st2 = st.clone()
                st2.env[lam.args.args[0].arg] = sv_int(i)
                st2.ghost[lam.args.args[0].arg] = sv_int(i)     # visible inside old(...) too
                body = self.truth(self.ev_spec(lam.body, st2, self._result))
                yield st, sv_bool(z3.ForAll([i], z3.Implies(z3.And(lo <= i, i < hi), body)))
                return
        if any(isinstance(a, ast.Starred) for a in node.args):
            raise Unsupported("* in call")
        for st1, f in self.ev(node.func, st):
            if isinstance(f, Raised):
                yield st1, f
                continue
            for st2, args in self.ev_list(list(node.args) + [k.value for k in node.keywords], st1):
                if isinstance(args, Raised):
                    yield st2, args
                    continue
                pos = args[: len(node.args)]
                kw = {}
                for k, v in zip(node.keywords, args[len(node.args):]):
                    if k.arg is not None:
                        kw[k.arg] = v
                        continue
                    # **mapping with constant string keys
                    if v.kind == "kwlocal":
                        kw["**"] = v          # a symbolic keyword table (plugin-modelled constructor call)
                        continue
                    if v.kind != "cdict":
                        raise Unsupported("** of a non-literal mapping")
                    for kk, vv in v.t:
                        ks = concrete_str(kk.t) if kk.kind == "str" else None
                        if ks is None:
                            raise Unsupported("** with a non-constant key")
                        kw[ks] = vv
                yield from self.call(f, pos, kw, st2, node)

    # ------------------------------------------------------------------ calls
    def call(self, f, pos, kw, st, node):
        if f.kind != "func":
            raise Unsupported(f"call of {f.kind}")
        tag = f.t[0]
        if tag == "spec":
            yield st, self.eng.spec.call(self, f.t[1], pos, st)
            return
        if tag == "repo":
            yield from self.call_repo(f.t[1], pos, kw, st, node)
            return
        if tag == "builtin":
            yield from self.eng.spec.call_builtin(self, f.t[1], pos, kw, st, node)
            return
        if tag == "method":
            yield from self.eng.spec.call_method(self, f.t[1], f.t[2], pos, kw, st, node)
            return
        if tag in ("class", "classattr"):
            yield from self.eng.spec.call_class(self, f.t, pos, kw, st, node)
            return
        r = self.eng.spec._plug("call_other", self, f.t, pos, kw, st, node)
        if r is not None:
            yield from r
            return
        raise Unsupported(f"call tag {tag}")

    def bind_args(self, fn_node, pos, kw, skip_self=False):
        args = fn_node.args
        params = [a.arg for a in args.posonlyargs + args.args]
        if skip_self:
            params = params[1:]
        bound = {}
        for p, v in zip(params, pos):
            bound[p] = v
        if len(pos) > len(params):
            raise Unsupported("too many positional args")
        for k, v in kw.items():
            bound[k] = v
        # defaults
        allp = args.posonlyargs + args.args
        for a, d in zip(allp[len(allp) - len(args.defaults):], args.defaults):
            if a.arg not in bound and not (skip_self and a is allp[0]):
                bound[a.arg] = ("default", d)
        for a, d in zip(args.kwonlyargs, args.kw_defaults):
            if a.arg not in bound and d is not None:
                bound[a.arg] = ("default", d)
        return bound

    def call_repo(self, qualname, pos, kw, st, node, recv=None):
        r = self.eng.spec._plug("call_repo", self, qualname, pos, kw, st, node)
        if r is not None:
            yield from r
            return
        c = self.eng.contracts.get(qualname)
        if c is None:
            # a repo helper without a contract (e.g. introduced by a refactoring): execute its body in place
            # (sound: it is the real code), unless it has loops or the inlining is nested too deeply
            mi0, q0, fn0 = front.get_function(qualname)
            depth = getattr(self, "_inline_depth", 0)
            if front.loops_in_order(fn0) or depth >= 3:
                raise Unsupported(f"call to {qualname} which has no contract")
            c = FN(qualname, inline=True)
            self._inline_depth = depth + 1
            try:
                bound0 = self.bind_args(fn0, ([recv] if recv is not None else []) + pos, kw)
                for k_, v_ in list(bound0.items()):
                    if isinstance(v_, tuple) and v_[0] == "default":
                        subd = FnExec.__new__(FnExec)
                        subd.__dict__.update(self.__dict__)
                        subd.mi = mi0
                        bound0[k_] = subd.ev1(v_[1], State())
                yield from self.inline_call(c, mi0, q0, fn0, bound0, st)
            finally:
                self._inline_depth = depth
            return
        mi, q, fn_node = front.get_function(qualname)
        bound = self.bind_args(fn_node, ([recv] if recv is not None else []) + pos, kw)
        for k, v in list(bound.items()):
            if isinstance(v, tuple) and v[0] == "default":
                sub = FnExec.__new__(FnExec)
                sub.__dict__.update(self.__dict__)
                sub.mi = mi
                bound[k] = sub.ev1(v[1], State())
        if c.inline or c.inline_at_calls:
            yield from self.inline_call(c, mi, q, fn_node, bound, st)
            return
        if c.assumed:
            self.eng.assumptions_used.add(f"ASSUMED CONTRACT {qualname}: " + "; ".join(e for _, e in c.ensures))
        if c.generator:
            # calling a generator function only creates the generator; its step contract is applied by the
            # consuming for-loop (loop_cut)
            genv = State()
            genv.heap = st.heap
            for p_, kind in c.types.items():
                genv.env[p_] = bound[p_]
            ghost = {}
            subg = FnExec.__new__(FnExec)
            subg.__dict__.update(self.__dict__)
            subg.c, subg.mi, subg.entry = c, mi, genv
            for g, e in c.ghost.items():
                ghost[g] = subg.ev_spec(e, genv)
                genv.ghost[g] = ghost[g]
            yield st, SV("gen", (c, dict(genv.env), ghost))
            return
        # modular call: callee contract only
        cst = State()
        cst.pc = st.pc
        cst.heap = st.heap
        for p, kind in c.types.items():
            if p not in bound:
                raise Unsupported(f"call {qualname}: missing argument {p}")
            v = bound[p]
            if kind == "stream":
                if v.kind != "ref":
                    raise Unsupported("stream argument is not a stream")
            elif kind.startswith("model:"):
                pass
            else:
                v = self.coerce(v, kind, st, f"arg {p} of {q}")
            cst.env[p] = v
        sub = FnExec.__new__(FnExec)
        sub.__dict__.update(self.__dict__)
        sub.c = c
        sub.mi = mi
        sub.cur_cls = q.rsplit(".", 1)[0] if "." in q else None
        sub.entry = cst
        sub.obls = self.obls
        sub.dedupe = self.dedupe
        for g, e in c.ghost.items():
            cst.ghost[g] = sub.ev_spec(e, cst)
        # 1. preconditions
        pre_uses = self.inst_uses(self.c.use, st, None) if c.requires else []
        for name, r in c.requires:
            self.oblige(st, f"call@{node.lineno}:{q}.requires[{name}]", sub.truth(sub.ev_spec(r, cst)), "call-pre",
                        node.lineno, use=pre_uses)
        # 2. exceptional returns
        iff_conds = []
        for exc, kind, cond in c.raises:
            ct = sub.truth(sub.ev_spec(cond, cst)) if kind != "may" else None
            s_r = st.clone()
            if kind == "iff":
                s_r.assume(ct)
                iff_conds.append(ct)
            elif kind == "only_if":
                s_r.assume(ct)
            # state after an exceptional return: modified objects are havoced, then constrained by on_raise
            self.havoc_modified(c, cst, s_r)
            rpost = State()
            rpost.pc, rpost.env, rpost.heap, rpost.ghost = s_r.pc, dict(cst.env), s_r.heap, dict(cst.ghost)
            for e2, post in list(c.on_raise) + [("BaseException", a_[1]) for a_ in c.always]:
                if exc_isinstance(exc, e2):
                    sub_r = FnExec.__new__(FnExec)
                    sub_r.__dict__.update(sub.__dict__)
                    sub_r.entry = cst
                    s_r.assume(sub_r.truth(sub_r.ev_spec(post, rpost)))
            if self.feasible(s_r):
                yield s_r, Raised(SV("exc", exc))
        # 3. normal return
        s_n = st.clone()
        for ct in iff_conds:
            s_n.assume(z3.Not(ct))
        post = State()
        post.pc = s_n.pc
        post.env = dict(cst.env)
        post.heap = s_n.heap
        post.ghost = dict(cst.ghost)
        self.havoc_modified(c, cst, s_n)
        post.heap = s_n.heap
        res = self.fresh_result(c, q, s_n)
        sub2 = FnExec.__new__(FnExec)
        sub2.__dict__.update(sub.__dict__)
        sub2.entry = cst
        for name, e in list(c.ensures) + list(c.always):
            s_n.assume(sub2.truth(sub2.ev_spec(e, post, result=res)))
        post.pc = s_n.pc
        if self.feasible(s_n):
            yield s_n, res
        elif self.feasible(st) and not c.raises:
            # the callee's postcondition contradicts what the caller knows: a frame/modifies mistake in the
            # contracts would silently drop this path -> report instead of proving vacuously
            raise Unsupported(f"vacuous call: postcondition of {qualname} is inconsistent with the caller's state at line {node.lineno}")

    def havoc_modified(self, c, cst, st):
        refs = set()
        cells = [tuple(p[1:].split(".", 1)) for p in c.modifies if p.startswith("@")]
        if cells:
            # cell-level frame: only the named heap cells change
            st.heap = dict(st.heap)
            for key, attr in cells:
                v = st.heap.get((key, attr))
                if v is not None and v.kind in ("int", "bool", "bytes", "str", "obj", "arr", "objseq"):
                    nv = SV(v.kind, fresh(f"{key}.{attr}", v.t.sort()))
                    st.heap[(key, attr)] = nv
            return
        for p in c.modifies:
            v = cst.env.get(p)
            if v is not None and v.kind == "ref":
                refs.add(v.t)
                extra = self.eng.spec._plug("modified_keys", self, v)
                if extra:
                    refs |= set(extra)
        if refs:
            st.heap = dict(st.heap)
            self.havoc(st, [], refs)

    def fresh_result(self, c, q, st):
        r = c.returns
        name = f"ret_{q.split('.')[-1]}"
        return self.fresh_of_kind(name, r, st)

    def fresh_of_kind(self, name, r, st):
        if r in (None, "none"):
            return NONE
        if r.startswith("tuple:"):
            return sv_tuple([self.fresh_of_kind(f"{name}_{i}", k, st) for i, k in enumerate(r[6:].split(","))])
        v = fresh_sv(name, r)
        if r == "bytes":
            self.assume_byte_range(st, v.t)
        return v

    def inline_call(self, c, mi, q, fn_node, bound, st):
        od = front.opaque_decorators(fn_node)
        if od:
            raise Unsupported(f"call to {q}: decorator {od[0]} may change the meaning of the call")
        sub = FnExec.__new__(FnExec)
        sub.__dict__.update(self.__dict__)
        sub.mi = mi
        sub.c = c
        sub.node = fn_node
        sub.loops = front.loops_in_order(fn_node)
        sub.cur_cls = q.rsplit(".", 1)[0] if "." in q else None
        s0 = st.clone()
        saved_env = s0.env
        s0.env = dict(bound)
        for st1, sig in sub.exec_block(fn_node.body, s0):
            st2 = st1.clone()
            st2.env = dict(saved_env)
            if sig is FALL:
                yield st2, NONE
            elif sig[0] == "ret":
                yield st2, sig[1]
            elif sig[0] == "raise":
                yield st2, Raised(sig[1])
            else:
                raise Unsupported("signal escaping inlined function")
