"""C07 — oneof exclusivity after any history."""
AREAS = ["varint", "single", "frame", "msg", "msgload", "msgattr"]
LEVEL = "other"
ONLY = None
EXPLANATION = (
    "Message.load step clause C07-oneof-member-becomes-selected: after a record of a oneof member the member is the "
    "selected one and every sibling is reset (last wins, any order); dump's WIRE contributes nothing for unselected members. "
    "Message.__setattr__ is verified at the level of the raw instance dictionary: the assigned member becomes the "
    "selected one (also for a default value) and EVERY sibling is reset to PLACEHOLDER, nothing else changes; "
    "__post_init__ derives the selection from the constructor arguments (last member holding a value); "
    "__getattribute__ raises AttributeError exactly for unselected members. These three contracts are the models "
    "(C-SETATTR / C-GETATTR) used by the load / dump proofs, so every history of assignments and decodes preserves "
    "exclusivity by induction over the operation sequence; copy / deepcopy / pickle / from_dict histories are "
    "additionally exercised by the bounded stand-in (random operation sequences on OneOfs).")
ASSUMED = ["A-OBJ raw instance dictionary model", "A-NESTED-MARK (marking an assigned field-less message is nested-object state)", "copy/pickle/from_dict histories: bounded random sequences"]
from pyvc.check import standin_bounded
from pyvc.check import external_bounded
BOUNDED = [standin_bounded("C07"),
           external_bounded("deep-schema:C07", "standin.deep", ["C07", "--n", "150"], ["C07", "--n", "800"],
                            "nested schema: oneof-carrying messages inside lists / maps / sub-messages after build, decode, deepcopy, from_dict; copy / deepcopy / pickle followed by a change of one of the two objects")]
