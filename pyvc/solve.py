"""Discharging obligations: z3 (python API, own process per obligation) with cvc5 as second back end."""
import multiprocessing as mp
import os
import re
import subprocess
import tempfile
import time

import z3

CVC5 = "/usr/bin/cvc5"


def z3_value_to_py(v):
    """Convert a z3 model value into a plain python value (best effort)."""
    try:
        if z3.is_int_value(v):
            return v.as_long()
        if z3.is_true(v):
            return True
        if z3.is_false(v):
            return False
        if z3.is_string_value(v):
            return v.as_string()
        if z3.is_seq(v):
            return seq_to_list(v)
        if v.sort().kind() == z3.Z3_DATATYPE_SORT:
            name = v.decl().name()
            return {"ctor": name, "args": [z3_value_to_py(c) for c in v.children()]}
    except Exception:
        pass
    return str(v)


def seq_to_list(v):
    k = v.decl().kind()
    if k == z3.Z3_OP_SEQ_EMPTY:
        return []
    if k == z3.Z3_OP_SEQ_UNIT:
        return [z3_value_to_py(v.arg(0))]
    if k == z3.Z3_OP_SEQ_CONCAT:
        out = []
        for c in v.children():
            out += seq_to_list(c)
        return out
    return [str(v)]


def _solve_one(job):
    name, smt2, input_names, timeout_s, use_cvc5, smt2_ranged = job
    if "/vacuity[" in name:
        # vacuity probe: only a quick refutation attempt (unsat = the path is infeasible); sat/unknown is the
        # expected outcome and not worth a long search
        return _z3_once(name, smt2, input_names, 5)
    res = _solve_plain((name, smt2, input_names, timeout_s, use_cvc5))
    if res["result"] == "sat" and smt2_ranged is not None:
        # second pass with 0..255 element ranges on bytes inputs (true facts about the inputs)
        r2 = _solve_plain((name, smt2_ranged, input_names, timeout_s, use_cvc5))
        r2["time_s"] = round(r2["time_s"] + res["time_s"], 3)
        if r2["result"] in ("sat", "unsat"):
            r2["reason"] = (r2["reason"] + " [decided with byte-range facts on the inputs]").strip()
            return r2
        res["reason"] += " [model may contain out-of-range bytes: ranged re-check undecided]"
    return res


def _solve_plain(job):
    name, smt2, input_names, timeout_s, use_cvc5 = job
    t0 = time.time()
    first = min(timeout_s, 6) if use_cvc5 else timeout_s
    res = _z3_once(name, smt2, input_names, first)
    if res["result"] == "unknown" and use_cvc5:
        if isinstance(smt2, tuple):
            txt = _OBLS[smt2[0]].smt2(byte_ranges=smt2[1])
        else:
            txt = smt2
        r2 = run_cvc5(txt, timeout_s)
        if r2["result"] in ("unsat", "sat"):
            r2["name"] = name
            r2["reason"] = f"z3: unknown ({res['reason']}) after {first}s; decided by cvc5"
            if r2["result"] == "sat":
                # cvc5 gives the verdict; ask z3 for a model with the remaining budget (replay needs one)
                r3 = _z3_once(name, smt2, input_names, timeout_s)
                if r3["result"] == "sat":
                    r2["model"] = r3["model"]
            r2["time_s"] = round(time.time() - t0, 3)
            return r2
        if timeout_s > first:
            res = _z3_once(name, smt2, input_names, timeout_s)
            res["reason"] += f"; cvc5: {r2['result']} {r2['reason'][:80]}"
    res["time_s"] = round(time.time() - t0, 3)
    return res


_OBLS = []          # obligations of the current run; forked workers index into it (no SMT2 round trip for z3)


def _z3_once(name, smt2, input_names, timeout_s):
    t0 = time.time()
    res = {"name": name, "backend": "z3 " + z3.get_version_string(), "result": "unknown", "time_s": 0.0,
           "model": None, "reason": ""}
    try:
        if isinstance(smt2, tuple):
            idx, ranged = smt2
            o = _OBLS[idx]
            if o.pc_lite is not None and not ranged:
                s0 = z3.Solver()
                s0.set("timeout", int(min(timeout_s, 4) * 1000))
                for c in o.pc_lite:
                    s0.add(c)
                s0.add(z3.Not(o.goal))
                if s0.check() == z3.unsat:
                    res["result"] = "unsat"
                    res["reason"] = "proved from the quantifier-free hypotheses and explicit instances"
                    res["time_s"] = round(time.time() - t0, 3)
                    return res
            s = z3.Solver()
            s.set("timeout", int(timeout_s * 1000))
            for c in o.pc:
                s.add(c)
            s.add(z3.Not(o.goal))
            if ranged:
                for f in o.byte_range_facts():
                    s.add(f)
        else:
            ctx = z3.Context()
            s = z3.Solver(ctx=ctx)
            s.set("timeout", int(timeout_s * 1000))
            s.from_string(smt2)
        r = s.check()
        res["result"] = str(r)
        if r == z3.sat:
            m = s.model()
            vals = {}
            for d in m.decls():
                n = d.name()
                if n in input_names and d.arity() == 0:
                    vals[n] = z3_value_to_py(m[d])
            res["model"] = vals
        elif r == z3.unknown:
            res["reason"] = s.reason_unknown()
    except Exception as e:  # pragma: no cover
        res["result"] = "error"
        res["reason"] = f"{type(e).__name__}: {e}"
    res["time_s"] = round(time.time() - t0, 3)
    return res


def run_cvc5(smt2, timeout_s):
    res = {"backend": "cvc5 1.0.3", "result": "unknown", "model": None, "reason": ""}
    with tempfile.NamedTemporaryFile("w", suffix=".smt2", delete=False, dir=os.environ.get("PYVC_WORK", None)) as f:
        # z3 prints applications of recursive functions as ((_ F 0) args); cvc5 wants (F args)
        txt = re.sub(r"\(\(_ ([A-Za-z_0-9!]+) 0\)", r"(\1", smt2)
        f.write("(set-logic ALL)\n" + txt.replace("(check-sat)", "") + "\n(check-sat)\n")
        path = f.name
    try:
        p = subprocess.run([CVC5, "--strings-exp", f"--tlimit={int(timeout_s * 1000)}", path],
                           capture_output=True, text=True, timeout=timeout_s + 5)
        out = p.stdout.strip().splitlines()
        if out and out[0] in ("sat", "unsat", "unknown"):
            res["result"] = out[0]
        else:
            res["reason"] = (p.stdout + p.stderr)[:300]
    except subprocess.TimeoutExpired:
        res["reason"] = "timeout"
    finally:
        os.unlink(path)
    return res


def _child(job, conn):
    try:
        conn.send(_solve_one(job))
    except Exception as e:  # pragma: no cover
        conn.send({"name": job[0], "backend": "z3", "result": "error", "time_s": 0.0, "model": None,
                   "reason": f"{type(e).__name__}: {e}"})
    finally:
        conn.close()


def solve_all(obls, timeout_s=30, procs=None, use_cvc5=True):
    """One forked process per obligation (the z3 terms are inherited through fork, no SMT2 round trip), at most
    `procs` at a time, each under a HARD wall-clock limit: z3 does not always honour its own timeout inside
    quantifier instantiation, and an obligation that cannot be decided in time is `unknown`, never a verdict."""
    global _OBLS
    _OBLS = list(obls)
    jobs = []
    for i, o in enumerate(obls):
        has_bytes = any(z3.is_seq(t) and not z3.is_string(t) and t.sort() == z3.SeqSort(z3.IntSort()) for t in o.inputs.values())
        jobs.append((o.name, (i, False), set(str(k) for k in o.inputs), timeout_s, use_cvc5,
                     (i, True) if has_bytes else None))
    if not jobs:
        return []
    procs = procs or 16
    hard = timeout_s * 3 + 30
    ctx = mp.get_context("fork")
    results = [None] * len(jobs)
    running = {}      # index -> (process, conn, start)
    retried = {}
    nxt = 0
    while nxt < len(jobs) or running:
        while nxt < len(jobs) and len(running) < procs:
            pr, pc = ctx.Pipe(duplex=False)
            p = ctx.Process(target=_child, args=(jobs[nxt], pc))
            p.start()
            pc.close()
            running[nxt] = (p, pr, time.time())
            nxt += 1
        done = []
        restarted = {}
        for i, (p, conn, t0) in running.items():
            if conn.poll(0):
                try:
                    results[i] = conn.recv()
                except EOFError:
                    results[i] = {"name": jobs[i][0], "backend": "z3", "result": "unknown", "time_s": round(time.time() - t0, 3),
                                  "model": None, "reason": "solver process died"}
                p.join(1)
                done.append(i)
            elif not p.is_alive():
                # the child may have written its result and exited between the two tests above
                got = False
                if conn.poll(0.5):
                    try:
                        results[i] = conn.recv()
                        got = True
                    except EOFError:
                        pass
                if not got:
                    if retried.get(i, 0) < 1:
                        # a crashed worker (killed under memory pressure, solver abort): one more attempt
                        retried[i] = retried.get(i, 0) + 1
                        conn.close()
                        pr, pc = ctx.Pipe(duplex=False)
                        p2 = ctx.Process(target=_child, args=(jobs[i], pc))
                        p2.start()
                        pc.close()
                        restarted[i] = (p2, pr, time.time())
                        continue
                    results[i] = {"name": jobs[i][0], "backend": "z3", "result": "unknown", "time_s": round(time.time() - t0, 3),
                                  "model": None, "reason": "solver process exited without a result (twice)"}
                p.join(1)
                done.append(i)
            elif time.time() - t0 > hard:
                p.kill()
                p.join(1)
                results[i] = {"name": jobs[i][0], "backend": "z3 " + z3.get_version_string(), "result": "unknown",
                              "time_s": round(time.time() - t0, 3), "model": None,
                              "reason": f"hard wall-clock limit of {hard}s reached (solver ignored its timeout)"}
                done.append(i)
        for i in done:
            running[i][1].close()
            del running[i]
        running.update(restarted)
        if not done:
            time.sleep(0.01)
    return results
