"""C08 — unknown fields survive decode/encode; schema evolution is lossless."""
AREAS = ["varint", "frame", "msg", "msgload"]
LEVEL = "proof"
EXPLANATION = (
    "load_fields: ParsedField.raw is exactly the bytes consumed for that record (all wire types, any number). "
    "Message.load step contract: a record whose number is unknown (or whose wire type does not fit) appends raw to "
    "_unknown_fields and changes nothing else; records of known fields leave _unknown_fields alone. dump/__len__ emit "
    "WIRE(self) = known fields ++ _unknown_fields. The schema-evolution consequence (old reader re-emits everything) is "
    "the composition of these step contracts over the record sequence (A-FOLD, not machine-checked) and is exercised by the "
    "bounded stand-in.")
ASSUMED = ["A-FOLD: a loop whose every iteration satisfies the step contract computes the fold of that step over the record sequence"]
from pyvc.check import standin_bounded
from pyvc.check import external_bounded
BOUNDED = [standin_bounded("C08"),
           external_bounded("deep-schema:C08", "standin.deep", ["C08", "--n", "150"], ["C08", "--n", "800"],
                            "nested schema (containers of oneof-carrying / field-less messages, two-level lazy parents, float maps, Duration JSON strings); observation-based oracle")]
