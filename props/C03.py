"""C03 — plugin output faithfully implements the schema (translation validity)."""
AREAS = ["names"]
LEVEL = "other"
EXPLANATION = (
    "Under contract: only the name mapping used for fields / methods / classes (valid non-keyword identifiers). The "
    "translation itself (descriptor traversal, FieldCompiler, Jinja templates, formatting) manipulates a large object "
    "graph through dataclasses, properties and templates and is outside the proved subset; it is decided by the bounded "
    "end-to-end stand-in: schemas from a grammar-based generator are compiled with the REAL plugin, imported, and every "
    "class / field / enum member is compared with the schema; plus the complete comparison of the bundled descriptor / "
    "plugin classes with google.protobuf's descriptors (exhaustive, finite).")
ASSUMED = ["A-RUFF", "the translation is not proved: bounded translation validation on generated schemas"]
from pyvc.check import external_bounded
BOUNDED = [external_bounded("plugin-end-to-end:C03", "standin_plugin.run", ["C03", "--n", "6"], ["C03", "--n", "40"],
                            "real plugin on schemas from a grammar-based generator + complete comparison of bundled descriptor classes")]
