"""Contract data model (sidecar contracts; /repo files are never annotated)."""
from dataclasses import dataclass, field
from typing import Dict, List, Optional, Tuple


@dataclass
class LOOP:
    inv: List[Tuple[str, str]] = field(default_factory=list)   # (label, expr)
    decreases: Optional[str] = None
    index: Optional[str] = None        # ghost name for the iteration counter of a for loop
    modifies: Optional[List[str]] = None   # extra names/heap objects to havoc
    ghost_update: Dict[str, str] = field(default_factory=dict)  # ghost := expr at end of each iteration
    use: List[Tuple[str, Dict[str, str]]] = field(default_factory=list)  # lemma instances for preserve VCs
    ghost_head: Dict[str, str] = field(default_factory=dict)    # ghost := expr at the start of each iteration
    # per-iteration step contract: clauses relating the state at the start of the iteration (ghost_head
    # snapshots) to the state at its end; checked on every way of finishing an iteration (fall, continue, break)
    step: List[Tuple[str, str]] = field(default_factory=list)
    ghost_init: Dict[str, str] = field(default_factory=dict)    # ghost := expr once, when the loop is reached


@dataclass
class FN:
    qualname: str                      # e.g. "betterproto.dump_varint" / "betterproto.Message.dump"
    types: Dict[str, str] = field(default_factory=dict)   # param -> kind
    returns: Optional[str] = None      # kind of result ("int","bytes","tuple:int,bytes",...)
    requires: List[Tuple[str, str]] = field(default_factory=list)
    ensures: List[Tuple[str, str]] = field(default_factory=list)
    # (ExcName, "iff"|"only_if"|"may", cond over entry state)
    raises: List[Tuple[str, str, str]] = field(default_factory=list)
    loops: Dict[int, LOOP] = field(default_factory=dict)
    ghost: Dict[str, str] = field(default_factory=dict)   # ghost constants defined at entry
    modifies: List[str] = field(default_factory=list)     # params whose heap state may change
    inline: bool = False               # callers execute the body instead of using the contract
    inline_at_calls: bool = False      # verified on its own AND executed in place at call sites
    props: List[str] = field(default_factory=list)        # property ids served
    witness: Optional[dict] = None     # concrete args for the vacuity witness / replay template
    notes: str = ""
    # names of ensures clauses that are the property-level (top) postconditions
    top: List[str] = field(default_factory=list)
    assume_types: bool = True
    use: List[Tuple[str, Dict[str, str]]] = field(default_factory=list)  # lemma instances for ensures VCs
    # generators (step contract): clauses checked at every `yield` (over `yielded`) and at generator end
    yields: List[Tuple[str, str]] = field(default_factory=list)
    ends: List[Tuple[str, str]] = field(default_factory=list)
    generator: bool = False
    # region verification: start at the (top-level) loop with this ordinal; the statements before it are trusted
    # to establish `requires` over the locals listed in `types` (stated as an assumption)
    start_at_loop: Optional[int] = None
    # an ASSUMED contract of a function outside the proved subset: used at call sites, never verified, and listed
    # in the trusted base of every property that depends on it
    assumed: bool = False
    # parameter shapes to verify separately (e.g. list lengths): [(label, {param: shape description})]
    variants: List[Tuple[str, Dict]] = field(default_factory=list)
    hints: List[str] = field(default_factory=list)   # proof hints: asserted (own obligation) then assumed
    # ghost snapshots taken right after an assignment to the named local: {local: {ghost: expr}}
    ghost_at_assign: Dict[str, Dict[str, str]] = field(default_factory=dict)
    # intermediate assertions (proof hints): proved once right after an assignment to the named local, then
    # available as a fact on the rest of that path  {local: [expr, ...]}
    assert_after_assign: Dict[str, List[str]] = field(default_factory=dict)
    inst_terms: List[str] = field(default_factory=list)  # terms at which quantified facts of the pc are instantiated
    # exceptional postconditions: (ExcName, expr over the exit state) checked at raise exits, assumed by callers
    on_raise: List[Tuple[str, str]] = field(default_factory=list)
    # clauses that must hold at EVERY exit, normal or exceptional (shared-state invariants)
    always: List[Tuple[str, str]] = field(default_factory=list)


@dataclass
class LEMMA:
    name: str
    vars: Dict[str, str]               # var -> kind
    hyps: List[str]
    goal: str
    props: List[str] = field(default_factory=list)
    # well-founded induction: hypothesis instances sigma_j (var -> expr), each under a guard,
    # justified by the measure obligation 0 <= measure[sigma_j] < measure
    measure: Optional[str] = None
    ih: List[Tuple[str, Dict[str, str]]] = field(default_factory=list)   # (guard, substitution)
    use: List[Tuple[str, Dict[str, str]]] = field(default_factory=list)
    notes: str = ""
    assumed: bool = False      # an axiom about uninterpreted (external) functions: listed as assumption, not proved
