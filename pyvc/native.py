"""Executable reading of the contracts: runs the REAL function from /repo under CPython and evaluates
the same contract text natively.  Used for (a) replaying solver counterexamples, (b) the bounded
stand-ins, (c) the CPython cross-check of proved contracts (guard against an unsound engine).

Runs under /venv/bin/python (the interpreter the repo is installed in).  Must not import z3.
"""
import ast
import copy
import importlib
import importlib.util
import io
import json
import os
import sys
import traceback

HERE = os.path.dirname(os.path.abspath(__file__))
VERIF = os.path.dirname(HERE)
REPO = os.environ.get("PYVC_REPO", "/repo")


def setup_path():
    src = os.path.join(REPO, "src")
    if src not in sys.path:
        sys.path.insert(0, src)
    if VERIF not in sys.path:
        sys.path.insert(0, VERIF)


def load_spec(modules):
    env = {}
    for m in modules:
        path = os.path.join(VERIF, "spec", m + ".py")
        spec = importlib.util.spec_from_file_location(f"pyvc_spec_{m}", path)
        mod = importlib.util.module_from_spec(spec)
        spec.loader.exec_module(mod)
        for k, v in vars(mod).items():
            if not k.startswith("__"):
                env[k] = v
    env["implies"] = lambda a, b: (not a) or bool(b)
    env["forall"] = lambda lo, hi, f: all(f(i) for i in range(lo, hi))
    env["LEN"] = len
    env["forall_int"] = lambda f: all(f(i) for i in list(range(-70, 70)) + [2**31 - 1, -2**31, 2**31, 2**63, -2**63])

    def same(a, b):
        if isinstance(a, float) and isinstance(b, float) and a != a and b != b:
            return True
        return type(a) is type(b) and a == b
    env["same"] = same
    return env


class StreamProxy:
    def __init__(self, s):
        self._s = s

    @property
    def data(self):
        return self._s.getvalue()

    @property
    def pos(self):
        return self._s.tell()


_old_ctr = [0]


class OldCollector(ast.NodeTransformer):
    def __init__(self):
        self.olds = []

    def visit_Call(self, node):
        if isinstance(node.func, ast.Name) and node.func.id == "old" and len(node.args) == 1:
            _old_ctr[0] += 1
            name = f"__old_{_old_ctr[0]}"
            self.olds.append((name, ast.Expression(body=node.args[0])))
            return ast.copy_location(ast.Name(id=name, ctx=ast.Load()), node)
        if isinstance(node.func, ast.Name) and node.func.id == "implies" and len(node.args) == 2:
            # lazy implication (the consequent may be undefined where the antecedent is false)
            a, b = self.visit(node.args[0]), self.visit(node.args[1])
            return ast.copy_location(ast.BoolOp(op=ast.Or(), values=[ast.UnaryOp(op=ast.Not(), operand=a), b]), node)
        return self.generic_visit(node)


def compile_clause(text):
    tree = ast.parse(text.strip(), mode="eval")
    oc = OldCollector()
    tree = oc.visit(tree)
    ast.fix_missing_locations(tree)
    olds = []
    for name, e in oc.olds:
        ast.fix_missing_locations(e)
        olds.append((name, compile(e, "<old>", "eval")))
    return compile(tree, "<contract>", "eval"), olds


def resolve(qualname):
    parts = qualname.split(".")
    for i in range(len(parts), 0, -1):
        try:
            mod = importlib.import_module(".".join(parts[:i]))
        except ImportError:
            continue
        obj = mod
        for p in parts[i:]:
            if p.endswith("@instance"):
                p = p[: -len("@instance")]
            # private-name access without triggering descriptors on classes
            obj = obj.__dict__[p] if isinstance(obj, type) and p in obj.__dict__ else getattr(obj, p)
        return obj
    raise ImportError(qualname)


def decode_value(v, kind):
    if kind == "int":
        return int(v)
    if kind == "bool":
        return bool(v)
    if kind == "bytes":
        return bytes(v) if not isinstance(v, str) else v.encode("latin-1")
    if kind == "str":
        return v
    if kind == "obj":
        return decode_obj(v)
    if kind == "stream":
        s = io.BytesIO(bytes(v["data"]))
        s.seek(v.get("pos", 0))
        if v.get("pos", 0) == len(v["data"]):
            s.seek(0, 2)
        return s
    return v


def decode_obj(v):
    """JSON encoding of dynamically typed sample values / solver models of PyObj"""
    if isinstance(v, dict) and "__bytes__" in v:
        return bytes(v["__bytes__"])
    if isinstance(v, dict) and "__float__" in v:
        return float(v["__float__"])
    if isinstance(v, dict) and "__dt_us__" in v:
        import datetime
        return datetime.datetime(1970, 1, 1, tzinfo=datetime.timezone.utc) + datetime.timedelta(microseconds=v["__dt_us__"])
    if isinstance(v, dict) and "__td_us__" in v:
        import datetime
        return datetime.timedelta(microseconds=v["__td_us__"])
    if isinstance(v, dict) and "ctor" in v:          # z3 model of PyObj
        c, a = v["ctor"], v["args"]
        if c == "PNone":
            return None
        if c in ("PInt", "PBool", "PStr"):
            return a[0]
        if c == "PBytes":
            return bytes(a[0])
        if c == "PFloat":
            if not isinstance(a[0], int):
                return 0.0
            if a[0] in (3, 4, 7):         # reserved ids of the float model (pyvc.sym.FLOAT_*_ID)
                return {3: float("inf"), 4: float("nan"), 7: float("-inf")}[a[0]]
            return [0.0, 1.5, -2.25, 3.0e38, 5e-324][a[0] % 5]
        if c == "PDatetime":
            return decode_obj({"__dt_us__": a[0]})
        if c == "PTimedelta":
            return decode_obj({"__td_us__": a[0]})
        raise ValueError(f"model value {c} has no native counterpart")
    return v


def in_range_bytes(v):
    return all(isinstance(x, int) and 0 <= x < 256 for x in v)


def exc_matches(e, name):
    return any(c.__name__ == name for c in type(e).__mro__) or (name == "StructError" and type(e).__name__ == "error")


def check_call(contract, args, spec_env, fn=None):
    """contract: dict(qualname, types, requires, ensures, raises, ghost).  args: decoded python values.
    Returns dict(status = ok | violated | precondition-not-met | invalid-input, detail...)."""
    fn = fn or resolve(contract["qualname"])
    env = dict(spec_env)
    call_args = {}
    for p, kind in contract["types"].items():
        v = args[p]
        call_args[p] = v
        env[p] = StreamProxy(v) if kind == "stream" else v
    out = {"status": "ok", "failed": [], "observed": None}
    try:
        for g, e in contract.get("ghost", {}).items():
            code, olds = compile_clause(e)
            env[g] = eval(code, env)
        for name, r in contract.get("requires", []):
            code, olds = compile_clause(r)
            if not eval(code, env):
                return {"status": "precondition-not-met", "failed": [name]}
        compiled = []
        for name, e in contract.get("ensures", []):
            code, olds = compile_clause(e)
            for n, oc in olds:
                env[n] = copy.deepcopy(eval(oc, env))
            compiled.append((name, code))
        raise_conds = []
        for exc, kind, cond in contract.get("raises", []):
            val = None
            if kind != "may":
                code, olds = compile_clause(cond)
                val = bool(eval(code, env))
            raise_conds.append((exc, kind, val))
    except Exception as e:  # contract text could not be evaluated on this input
        return {"status": "contract-eval-error", "failed": [], "detail": f"{type(e).__name__}: {e}"}
    raised = None
    try:
        result = fn(**call_args)
    except BaseException as e:  # noqa
        raised = e
    if raised is not None:
        out["observed"] = f"raised {type(raised).__name__}: {raised}"[:300]
        listed = [(x, k, v) for (x, k, v) in raise_conds if exc_matches(raised, x)]
        if not listed:
            out["status"] = "violated"
            out["failed"].append(f"no-unlisted-exception[{type(raised).__name__}]")
        elif not any(k == "may" or v for (x, k, v) in listed):
            out["status"] = "violated"
            out["failed"].append(f"raises[{listed[0][0]}].sound")
        return out
    out["observed"] = repr(result)[:300]
    for exc, kind, val in raise_conds:
        if kind == "iff" and val:
            out["status"] = "violated"
            out["failed"].append(f"raises[{exc}].complete")
    env["result"] = result
    for name, code in compiled:
        try:
            ok = bool(eval(code, env))
        except Exception as e:
            ok = False
            out.setdefault("detail", "")
            out["detail"] += f"ensures[{name}] raised {type(e).__name__}: {e}; "
        if not ok:
            out["status"] = "violated"
            out["failed"].append(f"ensures[{name}]")
    return out


def main():
    """worker protocol: stdin JSON {spec_modules, jobs:[{contract, args}]} -> stdout JSON [results]."""
    setup_path()
    req = json.load(sys.stdin)
    spec_env = load_spec(req.get("spec_modules", ["wire"]))
    results = []
    fn_cache = {}
    for job in req["jobs"]:
        c = job["contract"]
        try:
            if c["qualname"] not in fn_cache:
                fn_cache[c["qualname"]] = resolve(c["qualname"])
            args = {p: decode_value(job["args"][p], k) for p, k in c["types"].items()}
            r = check_call(c, args, spec_env, fn_cache[c["qualname"]])
        except Exception as e:
            r = {"status": "harness-error", "failed": [], "detail": traceback.format_exc()[-600:]}
        results.append(r)
    json.dump(results, sys.stdout)


if __name__ == "__main__":
    main()
