"""String model for the name-mapping functions (C19): identifiers and keywords as regular languages.
A-IDENT: on ASCII input str.isidentifier() <=> [A-Za-z_][A-Za-z0-9_]*, keyword.iskeyword(s) <=> s in keyword.kwlist
(the list is read from the repository's interpreter at check time)."""
import json
import subprocess
import z3

from .sym import SV, sv_bool, sv_str, concrete_str
from .exec import Unsupported

_KW = None


def kwlist():
    global _KW
    if _KW is None:
        out = subprocess.run(["/venv/bin/python", "-c", "import keyword, json; print(json.dumps(keyword.kwlist))"],
                             capture_output=True, text=True, timeout=30).stdout
        _KW = json.loads(out)
    return _KW


def _rng(a, b):
    return z3.Range(a, b)


ALNUM_ = z3.Union(_rng("a", "z"), _rng("A", "Z"), _rng("0", "9"), z3.Re("_"))
IDENT_RE = z3.Concat(z3.Union(_rng("a", "z"), _rng("A", "Z"), z3.Re("_")), z3.Star(ALNUM_))
CHARS_RE = z3.Star(ALNUM_)
DOTTED_RE = z3.Star(z3.Union(ALNUM_, z3.Re(".")))
LOWER_RE = z3.Star(z3.Union(_rng("a", "z"), _rng("0", "9"), z3.Re("_")))


def is_kw(t):
    return z3.Or(*[t == z3.StringVal(k) for k in kwlist()])


class NamesPlugin:
    SPEC_NAMES = {"ISIDENT", "ISKW", "INCHARS", "INLOWER", "INDOTTED"}

    def spec_has(self, name):
        return name in self.SPEC_NAMES

    def spec_call(self, ex, name, pos, st):
        t = pos[0].t
        if name == "ISIDENT":
            return sv_bool(z3.InRe(t, IDENT_RE))
        if name == "ISKW":
            return sv_bool(is_kw(t))
        if name == "INCHARS":
            return sv_bool(z3.InRe(t, CHARS_RE))
        if name == "INDOTTED":
            return sv_bool(z3.InRe(t, DOTTED_RE))
        if name == "INLOWER":
            return sv_bool(z3.InRe(t, LOWER_RE))
        raise Unsupported(name)

    def call_builtin(self, ex, name, pos, kw, st, node):
        if name == "keyword.iskeyword" and pos and pos[0].kind == "str":
            ex.assumption("A-IDENT")
            return [(st, sv_bool(is_kw(pos[0].t)))]
        return None

    def call_method(self, ex, recv, name, pos, kw, st, node):
        if recv.kind == "str" and name == "isidentifier" and not pos:
            ex.assumption("A-IDENT")
            # exact on the ASCII alphabet the callers guarantee (precondition INCHARS)
            ex.oblige(st, f"ascii-identifier-chars@{ex.cur_line}", z3.InRe(recv.t, CHARS_RE), "model")
            return [(st, sv_bool(z3.InRe(recv.t, IDENT_RE)))]
        if recv.kind == "str" and name == "lower" and not pos:
            s = concrete_str(recv.t)
            if s is not None:
                return [(st, sv_str(s.lower()))]
            r = z3.String(f"lower!{id(node)}")
            st2 = st.clone()
            st2.assume(z3.Length(r) == z3.Length(recv.t))
            # (only the length and, for a single character, the class are used by the contracts)
            st2.assume(z3.Implies(z3.InRe(recv.t, CHARS_RE), z3.InRe(r, CHARS_RE)))
            st2.assume(z3.Implies(z3.InRe(recv.t, z3.Union(_rng("a", "z"), _rng("0", "9"), z3.Re("_"), z3.Re(""))), r == recv.t))
            ex.assumption("A-STRLOWER")
            return [(st2, sv_str(r))]
        return None


NAMES_ASSUMPTIONS = {
    "A-IDENT": "on ASCII input str.isidentifier() <=> [A-Za-z_][A-Za-z0-9_]* and keyword.iskeyword(s) <=> s in keyword.kwlist of the repository's interpreter",
    "A-STRLOWER": "str.lower() keeps the length, maps [A-Za-z0-9_]* into itself and leaves lower-case ASCII / digits / '_' unchanged",
}
