"""Trusted models used by the wire-format areas (single / frame / message): struct, utf-8, and the
assumed contracts of the Timestamp/Duration/wrapper constructors (each is an assumption-registry entry;
the time area proves the from_datetime / from_timedelta part separately)."""
import z3

from .sym import SV, PyObj, sv_bytes, sv_int, sv_bool, sv_str, to_obj, concrete_str
from .exec import Unsupported, fresh, Raised
from .sym import IntS


class WirePlugin:
    def call_builtin(self, ex, name, pos, kw, st, node):
        if name == "struct.pack":
            ex.assumption("A-STRUCT")
            return [(st, ex.eng.spec.call(ex, "PACKF", [pos[0], SV("obj", to_obj(pos[1]))], st))]
        if name == "bytes" and pos and pos[0].kind == "obj":
            # bytes(message) == Message.__bytes__ contract: the wire encoding of that message value
            ex.oblige(st, f"type[bytes() argument is a message]@{ex.cur_line}", PyObj.is_PMsg(pos[0].t), "safety")
            ex.assumption("C-MSGWIRE")
            return [(st, ex.eng.spec.call(ex, "MSGWIRE", [pos[0]], st))]
        if name == "len" and pos and pos[0].kind == "obj":
            # len() of a dynamically typed payload: bytes (pre-serialised) by the typing precondition
            ex.oblige(st, f"type[len() argument is bytes]@{ex.cur_line}", PyObj.is_PBytes(pos[0].t), "safety")
            st2 = st.clone()
            st2.assume(z3.Length(PyObj.pbytes(pos[0].t)) < 2 ** 63)
            ex.assumption("A-LEN")
            return [(st2, sv_int(z3.Length(PyObj.pbytes(pos[0].t))))]
        return None

    def call_method(self, ex, recv, name, pos, kw, st, node):
        if name == "encode" and recv.kind in ("str", "obj"):
            enc = pos[0] if pos else None
            if enc is None or concrete_str(enc.t) != "utf-8":
                raise Unsupported("encode with non utf-8 codec")
            s = ex.coerce(recv, "str", st, "receiver of .encode")
            ex.assumption("A-UTF8")
            return [(st, ex.eng.spec.call(ex, "UTF8", [s], st))]
        return None

    def call_class(self, ex, tag, pos, kw, st, node):
        if tag[0] == "classattr" and tag[1].endswith("._Timestamp") and tag[2] == "from_datetime":
            v = pos[0]
            ex.oblige(st, f"type[from_datetime argument]@{ex.cur_line}", PyObj.is_PDatetime(to_obj(v)), "safety")
            r = PyObj.PMsg(fresh("ts_msg", IntS))
            st2 = st.clone()
            spec = ex.eng.spec
            st2.assume(spec.call(ex, "MSGWIRE", [SV("obj", r)], st).t ==
                       spec.call(ex, "TSWIRE", [sv_int(PyObj.pdt_us(to_obj(v)))], st).t)
            ex.assumption("C-TSWIRE")
            return [(st2, SV("obj", r))]
        if tag[0] == "classattr" and tag[1].endswith("._Duration") and tag[2] == "from_timedelta":
            v = pos[0]
            ex.oblige(st, f"type[from_timedelta argument]@{ex.cur_line}", PyObj.is_PTimedelta(to_obj(v)), "safety")
            r = PyObj.PMsg(fresh("dur_msg", IntS))
            st2 = st.clone()
            spec = ex.eng.spec
            st2.assume(spec.call(ex, "MSGWIRE", [SV("obj", r)], st).t ==
                       spec.call(ex, "DURWIRE", [sv_int(PyObj.ptd_us(to_obj(v)))], st).t)
            ex.assumption("C-DURWIRE")
            return [(st2, SV("obj", r))]
        return None

    def call_repo(self, ex, qualname, pos, kw, st, node):
        if qualname == "betterproto._get_wrapper":
            return [(st, SV("func", ("wrapper_cls", pos[0])))]
        return None

    def call_other(self, ex, tag, pos, kw, st, node):
        if tag[0] == "wrapper_cls":
            if not pos and not kw:
                return None
            if pos or list(kw) != ["value"]:
                raise Unsupported("wrapper constructor call shape")
            r = PyObj.PMsg(fresh("wrap_msg", IntS))
            st2 = st.clone()
            spec = ex.eng.spec
            w = ex.coerce(tag[1], "str", st, "wraps")
            st2.assume(spec.call(ex, "MSGWIRE", [SV("obj", r)], st).t ==
                       spec.call(ex, "WRAPWIRE", [w, SV("obj", to_obj(kw["value"]))], st).t)
            ex.assumption("C-WRAPWIRE")
            return [(st2, SV("obj", r))]
        return None

    def isinstance_(self, ex, v, n, st):
        return None


WIRE_ASSUMPTIONS = {
    "C-MSGWIRE": "bytes(v) of a nested message v is MSGWIRE(v): the contract of Message.__bytes__ applied to the nested value (induction on nesting depth)",
    "C-TSWIRE": "bytes(_Timestamp.from_datetime(dt)) == TSWIRE(us(dt)) (from_datetime contract proved in the time area + __bytes__ contract)",
    "C-DURWIRE": "bytes(_Duration.from_timedelta(td)) == DURWIRE(us(td))",
    "C-WRAPWIRE": "bytes(_get_wrapper(w)(value=v)) == WRAPWIRE(w, v): wrapper classes are ordinary one-field messages",
}
