"""C15 — Timestamp/Duration <-> datetime/timedelta conversion is exact and normalised."""
AREAS = ["time"]
LEVEL = "proof"
EXPLANATION = (
    "from_datetime / to_datetime / from_timedelta / to_timedelta are verified over mathematical integers (the whole "
    "range, no bound): the (seconds, nanos) pair equals the spec TS / DUR (floor seconds with 0 <= nanos < 1e9; truncation "
    "with same-sign nanos), and the lemmas TS_ROUNDTRIP / DUR_ROUNDTRIP / *_NORMALISED give exact round trips at microsecond "
    "resolution. JSON string forms are decided by the bounded stand-in only.")
ASSUMED = ["spec TS/DUR == google.protobuf FromDatetime/FromTimedelta: bounded differential only",
           "RFC 3339 / decimal-seconds string forms: bounded stand-in only (string formatting is outside the proved subset)"]
from pyvc.check import standin_bounded
from pyvc.check import external_bounded
BOUNDED = [standin_bounded("C15"),
           external_bounded("deep-schema:C15", "standin.deep", ["C15", "--n", "150"], ["C15", "--n", "800"],
                            "nested schema (containers of oneof-carrying / field-less messages, two-level lazy parents, float maps, Duration JSON strings); observation-based oracle")]
